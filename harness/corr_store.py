"""Correspondence streams `store` — C19 (saved results) and C20 (crash atomicity of saving).

arg = "C19"
    Real `save_json` / `Output.from_file` / `get_outputs_from_file` over random save histories in a
    temporary directory (under /tmp, removed afterwards) against `ICG.Model.Store` (`save`, `lookup`,
    `names`): repeated names, shapes >= 1x1 (2-D and 3-D action arrays, integer and float), cells NaN /
    negative / 1e300 / subnormal / -0.0 / inf, metadata with Paths, callables, ints, floats, None, lists.
    The model side receives the entry computed from the IN-MEMORY `Output` handed to `save_json`
    (float64 bit patterns, `nan` position-wise, `i<n>` for integer cells, metadata through the harness's
    own stringification); the implementation side is what is READ BACK from the file.
    Then the three commands `solve`, `greedy`, `best_states` run in-process on tiny configurations
    with the computing function (`evaluate`, `get_greedy_rewards`, `get_best_exploitability`) wrapped,
    so that the saved matrices are compared with what was computed (mirroring what each command does
    with the computed pieces: best_states hstack-s the repetitions and fills a NaN-padded 3-D array).
    Oracle (real files only): round trip bit-for-bit, shapes, dtypes; every earlier entry unchanged
    (raw JSON level) and key order kept after a save under a new name; file bytes unchanged after a
    save under an existing name.
    Saves that legitimately RAISE (every second history): metadata json cannot write — a dict with tuple /
    bytes / frozenset keys (also nested in a list), a circular reference (both raise PART-WAY through the
    dump, after the matrices were written out), a Namespace without `func` (raises before anything is
    written) — `poison_output`.  "Leaves every earlier entry unchanged" then means: data.json is byte-identical
    to what it was (absent stays absent or becomes a valid JSON object) and every earlier entry still reads
    back (key `save_json:failed-save-changes-file`).  The model has no raising save: no `store save` line
    is sent for it, the following `names / dump / lookup` lines show the store is what it was.  (A poisoned
    save under an EXISTING name returns before serialising anything and is an ordinary `kept`.)
    A handful of histories (3 quick / 25 thorough; plotting is slow) go through the real
    `save(model_dir, name, output)` with ALL SAVERS (matplotlib Agg; the data-plot saver runs before the json
    saver) with NaN and +-inf cells guaranteed in the gap matrix (`nonfinite`); what is read back is compared
    with a copy of the matrices taken BEFORE the call.  `save()` under an existing name raises FileExistsError
    in save_draw_coalitions (documented below): tolerated, data.json must be unchanged.
    After EVERY save (all routes) the caller's Output must still hold what it held: both matrices bit for
    bit, parsed arguments the same objects with the same repr (key `save:modifies-caller-output`).
    non-trivial = a history with a repeated name, at least two distinct names and at least one NaN
    cell; distinct by history index (save() histories: at least two names; distinct by index).  For
    commands: every run (distinct by command+configuration).

arg = "C20"
    The file-system operations of the REAL `save_json` are OBSERVED (not assumed) and a failure is
    injected at every one of them.

    Observation.  During the `save_json` call only, the harness process replaces `os.open / write /
    close / fsync / fdatasync / replace / rename / unlink / remove / truncate / ftruncate / link /
    sendfile / copy_file_range / pwrite / writev` and `io.open` = `builtins.open` (hence `Path.open`,
    `Path.read_text / write_text`, `tempfile.*`, `shutil.copy*`, `Path.unlink / rename / replace`, which
    all go through these).  A file opened through `io.open` is built from the interpreter's own
    `io.TextIOWrapper` / `io.BufferedWriter` (same classes, same buffer size = st_blksize as the real
    `open`) on top of a recording raw file (`_RecRaw`, an `io.RawIOBase`) instead of `io.FileIO`, so
    the chunks the recorder sees are the chunks of the `write(2)` calls the unmodified interpreter
    makes (thorough tier: cross-checked with `strace` on a subprocess).  One operation is recorded per
    os-level call: or/ot/ox/ok (open read / truncate / exclusive-create / keep), w (write of a chunk at
    the end of the file; a write elsewhere is `x` = unmodelled), c (close), fs, mv, rm, x.

    Crash simulation.  "The process dies after the first k operations": the history directory is
    copied afresh, the recorder is armed with `crash_at = k`; when the k+1-st operation is about to be
    performed the recorder raises `_Crash` (a BaseException, so `except Exception` in the code under
    test cannot swallow it) WITHOUT performing it and enters the *dead* state.  In the dead state no
    wrapped operation reaches the disk any more: opens / renames / unlinks / fsyncs / os.write raise
    `_Crash` again, and `_RecRaw.write` silently discards its data — this is what guarantees that data
    still sitting in the abandoned `BufferedWriter` / `TextIOWrapper` buffers is never delivered, neither
    by the `with` block's `close()` during unwinding, nor by a `finally:` clause, nor by the garbage
    collector's `__del__ → close → flush` later on (the raw object keeps a reference to its own dead
    recorder).  Closing in the dead state only releases the descriptor.  Then the bytes left at the
    target are read with the unpatched functions.
    k ranges over 0 .. len(ops): before anything, after every operation (after the open, after every
    written chunk, before close, before / after the rename), and the uninterrupted save.
    A rename that FAILS with OSError (EXDEV) is not recorded: nothing happened on disk; what the code does
    instead (`shutil.move`: open the target truncating, sendfile, unlink the source) is recorded as usual.

    Where things live (`c20_dirs`).  The results directory is under /tmp; `tempfile.tempdir` is pointed at a
    scratch directory next to it for the duration, so "the system temp directory" of the code under test is on
    the SAME file system as those results directories and whatever a crashed save leaves there is removed.
    Every fourth save (case["fs"] = "other") has its results directory on a DIFFERENT file system (first
    writable of /dev/shm, /var/tmp, the home directory, /verif/.. whose st_dev differs; a note is recorded
    when there is none and the case then runs on the same file system): a save that stages the new content
    in the temp directory cannot rename it into place there, and the recorder sees the truncating open of
    the target (key `save_json:temp-then-overwrite-target`).  All directories are removed afterwards.

    Model tie: `store crash <target> <initial files> <ops…>` → `atomicB` and the predicted content class
    of the target for every k (old / new / absent / lit:<hex>); the implementation's answer is the same
    classification of the bytes found on disk.  Oracle (real bytes only): the file is exactly the old
    file or exactly the complete new file, it parses as JSON, it contains every earlier run unchanged.
    Violation key = failing site derived from the observed operations
    (`save_json:truncate-then-write` for the unrepaired code).
    `atomicB = 0` alone is not a disagreement (another safe discipline is conceivable); it is counted.
    non-trivial = a save with >= 1 earlier run and >= 2 written chunks; distinct by (earlier runs, size).

Observed on the unchanged tree (reported, not all of them violations):
  * C20 fails: `save_json` opens data.json with "w" and then dumps; every crash point between the open
    and the last write leaves an empty / truncated, unparsable file and loses every earlier run
    (key `save_json:truncate-then-write`); with no earlier file the crash leaves an EMPTY data.json on
    which every later `save_json` raises JSONDecodeError.
  * data.json is not strict JSON: NaN / Infinity are written as bare tokens (Python's json accepts them).
  * `from_json` rebuilds `actions` with `np.array(list)` and no dtype: integer arrays (greedy) come back
    int64, float arrays float64, NaN-padded 3-D arrays (best_states) keep shape and padding; `data` is
    forced to float64.  A run of ZERO steps does not round-trip: actions of shape (0, 1) are stored as
    `[]` and read back with shape (0,) float64 — hence "a run of at least one step" in the property.
  * `save()` (all SAVERS) under an existing name raises FileExistsError in `save_draw_coalitions`
    (after re-drawing the data plot); data.json itself is unchanged, which is what C19 speaks about.
    The stream restricts SAVERS to data.json while the commands run (in this process only).
"""
from __future__ import annotations

import builtins
import io
import json
import math
import os
import shutil
import struct
import subprocess
import sys
import tempfile
from argparse import Namespace
from contextlib import contextmanager
from pathlib import Path

import numpy as np

from common import Budget, Script, StreamResult, REPO

TARGET = "data.json"


# =====================================================================================================
# canonical tokens (C19)

def hx(s: str) -> str:
    return "h" + s.encode("utf-8", "surrogatepass").hex()


def cell(x) -> str:
    if isinstance(x, (bool, np.bool_)):
        return "b1" if x else "b0"
    if isinstance(x, (int, np.integer)):
        return f"i{int(x)}"
    if isinstance(x, (float, np.floating)):
        x = float(x)
        if math.isnan(x):
            return "nan"
        return "f" + struct.pack(">d", x).hex()
    return "o" + repr(x).encode().hex()


def arr_token(a: np.ndarray) -> str:
    a = np.asarray(a)
    shape = "x".join(str(d) for d in a.shape) if a.shape else "-"
    cells = [cell(x) for x in a.ravel().tolist()]
    return shape + ":" + (",".join(cells) if cells else "-")


OPAQUE = ("<repr>",)


def stringify(v):
    """The harness's own idea of 'up to JSON stringification' (independent of json_serializer)."""
    if v is None or isinstance(v, (bool, int, str)):
        return v
    if isinstance(v, float):
        return v
    if isinstance(v, (list, tuple)):
        return [stringify(x) for x in v]
    if isinstance(v, dict):
        return {str(k): stringify(x) for k, x in v.items()}
    if isinstance(v, Path):
        return str(v)
    return OPAQUE        # opaque objects (callables, …): only presence + "reads back as a string" is checked


def meta_expected(ns: Namespace) -> dict:
    d = {}
    for k, v in vars(ns).items():
        if k == "func":
            continue
        d[k] = stringify(v)
    return d


def meta_token(d: dict) -> str:
    items = []
    for k in sorted(d):
        v = d[k]
        if v == OPAQUE or v == list(OPAQUE):
            vs = "opaque"
        else:
            vs = hx(json.dumps(v, sort_keys=True))
        items.append(f"{hx(k)}={vs}")
    return ",".join(items) if items else "-"


def meta_readback(ns: Namespace, expected: dict) -> dict:
    """metadata of an Output read back from the file, in the same canonical form"""
    d = {}
    for k, v in vars(ns).items():
        if k in ("func", "run_type"):
            continue
        if expected.get(k) == OPAQUE:
            d[k] = OPAQUE if isinstance(v, str) else ("<not-a-string>", repr(v))
        else:
            d[k] = v
    return d


def entry_token(data: np.ndarray, actions: np.ndarray, meta: dict) -> str:
    return arr_token(data) + ";" + arr_token(actions) + ";" + meta_token(meta)


# =====================================================================================================
# generators

SPECIAL = [float("nan"), -1.5, 0.0, -0.0, 1e300, 5e-324, 2.2250738585072014e-308, 0.1, 1 / 3, 2.0 ** 53 + 2,
           -7.0, float("inf"), float("-inf"), 1e-320, 123456789.123456789, -1e300]


def eval_func(*a, **k):      # repr contains "eval" → run_type "eval"
    return None


def solve_like(*a, **k):     # → run_type "learn"
    return None


class Thing:
    pass


POISONS = ["tuple-key", "bytes-key", "nested-key", "circular", "no-func"]


def poison_output(out, poison: str):
    """make the metadata of `out` un-serialisable (in place): `json.dump` then raises PART-WAY through the dump (the matrices
    come first in the entry), or — `no-func` — `Output.metadata` raises before anything is written"""
    ns = out.parsed_args
    if poison == "tuple-key":           # json: keys must be str, int, float, bool or None; `default=` does not cover keys
        ns.pair_weights = {(0, 1): 0.5, (1, 2): 0.25}
    elif poison == "bytes-key":
        ns.table = {"fine": 1, b"raw": 2}
    elif poison == "nested-key":
        ns.sizes = [1, {"deep": [{"ok": 0.5, frozenset([1, 2]): 3}]}]
    elif poison == "circular":          # ValueError: Circular reference detected
        loop: list = [1, 2.5]
        loop.append({"again": loop})
        ns.loop = loop
    elif poison == "no-func":           # KeyError in Output.metadata
        del ns.func
    else:
        raise ValueError(f"unknown poison {poison}")
    return out


def rand_output(seed: int, big: bool = False, nonfinite: bool = False):
    """a deterministic Output from (seed, big, nonfinite) — the replay files store only these.
    nonfinite: the gap matrix is guaranteed to hold a NaN / +inf / -inf cell (two when it has more than one cell)"""
    import random
    from incomplete_cooperative.run.save import Output
    rnd = random.Random(seed)
    if big:
        r, c = rnd.randint(12, 40), rnd.randint(12, 40)
    else:
        r, c = rnd.randint(1, 4), rnd.randint(1, 4)
    data = np.array([[rnd.choice(SPECIAL) if rnd.random() < 0.5 else rnd.uniform(-5, 5) for _ in range(c)]
                     for _ in range(r)], dtype=np.float64)
    kind = rnd.choice(["float2d", "float2d", "int2d", "nan3d", "col"])
    if kind == "float2d":           # evaluate(): (steps, repetitions) floats, integral values
        actions = np.array([[float(rnd.randint(0, 31)) for _ in range(c)] for _ in range(max(1, r - 1))])
        if rnd.random() < 0.3 and actions.size > 1:
            # (never the ONLY cell: an action matrix without a single revealed coalition is not what "a run of at least one step"
            # produces, and the chosen-coalitions plot saver of save() rejects it — a false alarm of the thorough tier, seed 0,
            # corrected here; DESIGN 7.2)
            actions[rnd.randrange(actions.shape[0]), rnd.randrange(actions.shape[1])] = np.nan
    elif kind == "int2d":
        actions = np.array([[rnd.randint(0, 31) for _ in range(c)] for _ in range(max(1, r - 1))])
    elif kind == "col":             # greedy: (steps, 1) ints
        actions = np.reshape(np.array([rnd.randint(0, 31) for _ in range(max(1, r - 1))]), (max(1, r - 1), 1))
    else:                           # best_states: NaN-padded 3-D
        steps = max(1, r - 1)
        actions = np.full((steps + 1, c, steps), np.nan)
        for e in range(steps + 1):
            for rep in range(c):
                for j in range(min(e, steps)):
                    actions[e, rep, j] = rnd.randint(0, 31)
    func = rnd.choice([eval_func, solve_like, lambda *a: None, Thing()])
    ns = Namespace(func=func, model_dir=Path(rnd.choice(["/x/y", ".", "rel/ü dir", "/srv/r\udce9sultats"])), seed=rnd.randint(-9, 2 ** 40),
                   name=None, lr=rnd.choice([0.5, 0.1, 1e-5, 3.0]), flag=rnd.random() < 0.5,
                   text=rnd.choice(["plain", "ü \"quoted\" \\ back", "", "line\nbreak", "not utf-8: \udce9"]),
                   sizes=[1, 2.5, "x", None], pair=(1, 2))
    if rnd.random() < 0.5:
        ns.callback = solve_like          # a callable other than func → repr string
    if rnd.random() < 0.3:
        ns.model_path = Path("/foo/bar/model")
    if rnd.random() < 0.4:
        ns.net_arch = {"pi": [64, 64], "vf": {"units": [32], "act": "tanh"}}     # a dict-valued argument (nested keys in the file)
    if nonfinite:
        cells = [(i, j) for i in range(r) for j in range(c)]
        for (i, j), v in zip(rnd.sample(cells, min(2, len(cells))), rnd.sample([float("nan"), float("inf"), float("-inf")], 2)):
            data[i, j] = v
    return Output(data, actions, ns), kind


# names: plain, awkward for JSON / file names, EQUAL TO KEYS NESTED INSIDE EARLIER ENTRIES ("metadata", "actions", "net_arch", "pi" —
# an entry name is a top-level key only), and dotted names that share everything up to their last dot (two runs of one sweep,
# two ISO time stamps of one second: `with_suffix` would map them to one plot file)
NAMES = ["a", "b", "run 1", "ü", "", "data", "x/y", "a" * 40, "NaN", "q\"uote", "new\nline", "0", "r\udce9sultats",
         "caf\u00e9", "cafe\u0301", "\u212b", "\u00c5",        # canonically equivalent, DIFFERENT strings: different names
         "metadata", "actions", "net_arch", "pi", "sweep.lr0.1", "sweep.lr0.2", "2026-01-01T10:00:00.123", "2026-01-01T10:00:00.456", "a.b"]
EQUIVALENT_NAMES = [("caf\u00e9", "cafe\u0301"), ("\u212b", "\u00c5"), ("\uac00", "\u1100\u1161"), ("cafe\u0301-run", "caf\u00e9-run")]
SIBLING_NAMES = [("sweep.lr0.1", "sweep.lr0.2"), ("2026-01-01T10:00:00.123", "2026-01-01T10:00:00.456"), ("a.b", "a.c")]
FULL_NAMES = ["a", "b", "run 1", "ü", "data", "NaN", "q\"uote", "0", "data.json",     # usable as a file / directory name by the plot savers
              "metadata", "net_arch", "sweep.lr0.1", "sweep.lr0.2", "2026-01-01T10:00:00.123", "2026-01-01T10:00:00.456", "a.b", "a.c"]


def caller_snapshot(out) -> tuple:
    """what the caller of a save still holds afterwards: both matrices bit for bit and the parsed arguments"""
    d, a = np.asarray(out.data), np.asarray(out.actions)
    return ((d.dtype.str, d.shape, d.tobytes()), (a.dtype.str, a.shape, a.tobytes()),
            [(k, id(v), repr(v)) for k, v in vars(out.parsed_args).items()])


def raw_json(text: str):
    """json with NaN / Infinity kept as comparable sentinels"""
    return json.loads(text, parse_constant=lambda s: "<" + s + ">")


# =====================================================================================================
# C19

def c19_check_readback(res, where: str, got, exp_data, exp_actions, exp_meta, replay):
    """oracle on a read-back Output against the in-memory arrays that were saved"""
    d = got.data
    ok = True
    exp64 = _canon_nan(np.asarray(exp_data, dtype=np.float64))
    if not isinstance(d, np.ndarray) or d.dtype != np.float64 or d.shape != exp64.shape or \
            _canon_nan(d).tobytes() != exp64.tobytes():
        res.violation(f"{where}: gap matrix does not round-trip exactly", dict(replay, got_dtype=str(getattr(d, 'dtype', None)),
                      got_shape=list(getattr(d, 'shape', [])), expected_shape=list(exp64.shape)),
                      key="save:data-roundtrip")
        ok = False
    a = got.actions
    ea = np.asarray(exp_actions)
    if not isinstance(a, np.ndarray) or a.shape != ea.shape or a.dtype.kind != ea.dtype.kind or \
            _canon_nan(a.astype(np.float64)).tobytes() != _canon_nan(ea.astype(np.float64)).tobytes():
        res.violation(f"{where}: action matrix does not round-trip exactly", dict(replay, got_dtype=str(getattr(a, 'dtype', None)),
                      got_shape=list(getattr(a, 'shape', [])), expected_shape=list(ea.shape)), key="save:actions-roundtrip")
        ok = False
    if exp_meta is not None:
        back = meta_readback(got.parsed_args, exp_meta)
        if meta_token(back) != meta_token(exp_meta):
            res.violation(f"{where}: metadata does not round-trip up to JSON stringification",
                          dict(replay, got=repr(back)[:400], expected=repr(exp_meta)[:400]), key="save:metadata-roundtrip")
            ok = False
        pa = vars(got.parsed_args)
        if pa.get("func") != pa.get("run_type") or pa.get("run_type") not in ("eval", "learn"):
            res.violation(f"{where}: run_type / func not restored", dict(replay, got=repr(pa)[:300]), key="save:run-type")
            ok = False
    return ok


def _parses_as_object(b: bytes | None) -> bool:
    if b is None:
        return False
    try:
        return isinstance(raw_json(b.decode()), dict)
    except Exception:   # noqa: BLE001
        return False


def _canon_nan(a: np.ndarray) -> np.ndarray:
    a = np.array(a, dtype=np.float64, copy=True)
    a[np.isnan(a)] = np.nan
    return a


def c19_history(res: StreamResult, script: Script | None, d: Path, sid: str, saves: list[dict]) -> dict:
    """one history of saves in directory `d`; saves = [{"name", "seed", "big", "via"?, "poison"?, "nonfinite"?}, …]
    via = direct | alias | fork (`save_json` on d/data.json) | full (`save(d, …)` with ALL savers, plots included);
    poison = metadata that cannot be serialised: the save legitimately RAISES and must leave the file as it was"""
    import incomplete_cooperative.run.save as S
    d.mkdir(parents=True)
    p = d / TARGET
    if script is not None:
        script.add(f"store reset {sid}", "ok")
    spec: dict[str, tuple] = {}          # name → (data, actions, expected meta) of the FIRST save under it
    info = {"repeated": False, "has_nan": False, "failed_saves": 0}
    prev_out = prev_kind = None
    for step, sv in enumerate(saves):
        name = sv["name"]
        reuse = sv.get("reuse") if prev_out is not None else None
        if reuse:
            # the caller keeps ONE Output object: it was saved before, its matrices are then replaced (normalised gaps, a
            # truncated run) or edited in place (a corrected cell), and it is saved again — what must reach the file is what
            # the object holds NOW
            fresh, kind_f = rand_output(sv["seed"], sv["big"], sv.get("nonfinite", False))
            out = prev_out
            if reuse == "reassign":
                out.data, out.actions, kind = fresh.data, fresh.actions, kind_f
            else:
                out.data[0, 0] = float(sv["seed"] % 97) + 0.5
                out.actions.flat[out.actions.size - 1] = sv["seed"] % 31
                kind = prev_kind
            res.count(f"reused-output:{reuse}")
        else:
            out, kind = rand_output(sv["seed"], sv["big"], sv.get("nonfinite", False))
        exp_meta = meta_expected(out.parsed_args)
        poison = sv.get("poison")
        if poison:
            poison_output(out, poison)
        prev_out, prev_kind = (None, None) if poison else (out, kind)
        data0, act0 = out.data.copy(), out.actions.copy()      # taken BEFORE the save: what the run produced
        snap = caller_snapshot(out)
        rp = {"kind": "save-history", "history": saves[:step + 1], "step": step,
              "how": "in an empty directory, for every element of `history`: out = rand_output(seed, big, nonfinite)[0] (with `reuse`: the PREVIOUS Output object, "
                     "its matrices replaced by those of rand_output(seed, …) / two cells edited in place); poison_output(out, "
                     "poison) if poison; then save_json(dir/'data.json', name, out) — or save(dir, name, out) with all SAVERS (matplotlib "
                     "Agg) when via = 'full' — and read the file back (check.py C19 --replay <this file>)"}
        before = p.read_bytes() if p.exists() else None
        via = sv.get("via", "direct")
        res.count(f"via:{via}")
        raised = None
        try:
            if via == "full":
                import warnings
                import matplotlib
                matplotlib.use("Agg")
                with warnings.catch_warnings(), np.errstate(all="ignore"):
                    warnings.simplefilter("ignore")      # np.std of a row with inf, matplotlib on non-finite limits
                    S.save(d, name, out)
            elif via == "alias":
                alias = d.parent / (d.name + "_alias")
                if not alias.exists():
                    os.symlink(d, alias)
                S.save_json(alias / TARGET, name, out)
            elif via == "fork":
                pid = os.fork()
                if pid == 0:                      # child: save and leave without running any parent clean-up
                    code = 0
                    try:
                        S.save_json(p, name, out)
                    except BaseException:         # noqa: BLE001
                        code = 1
                    os._exit(code)
                _, status = os.waitpid(pid, 0)
                if status != 0:
                    raise RuntimeError("save_json failed in a forked child process")
            else:
                S.save_json(p, name, out)
        except Exception as e:           # noqa: BLE001
            raised = e
        after = p.read_bytes() if p.exists() else None
        if caller_snapshot(out) != snap:
            changed = [w for w, x, y in zip(("gap matrix", "action matrix", "parsed arguments"), caller_snapshot(out), snap) if x != y]
            res.violation(f"the save modified the caller's Output object ({', '.join(changed)}): what the run produced is no longer "
                          "what it holds", dict(rp, changed=changed), key="save:modifies-caller-output")
        failed = False
        if raised is not None:
            if via == "full" and name in spec and isinstance(raised, FileExistsError):
                # documented: `save()` under an existing name raises in save_draw_coalitions; C19 speaks about data.json,
                # which is checked below exactly like a save_json under an existing name
                res.count("save():existing-name-FileExistsError")
            elif poison:
                # a save that legitimately fails: "leaves every earlier entry unchanged" = the file is what it was
                failed = True
                info["failed_saves"] += 1
                res.evaluations += 1
                res.count(f"failed-save:{poison}:{type(raised).__name__}")
                res.count("failed-save:with-earlier-file" if before is not None else "failed-save:no-earlier-file")
                if after != before and not (before is None and _parses_as_object(after)):
                    res.violation(f"a save that raised ({type(raised).__name__}: {str(raised)[:120]}) changed the results file: "
                                  f"{'absent' if before is None else str(len(before)) + ' bytes'} before, "
                                  f"{'absent' if after is None else str(len(after)) + ' bytes'} after, "
                                  f"{'still a JSON object' if _parses_as_object(after) else 'no longer parses'}",
                                  rp, key="save_json:failed-save-changes-file")
                if after is None:
                    continue                 # nothing was ever saved: nothing to read back
            else:
                res.violation(f"save_json raised {type(raised).__name__}: {raised}", rp, key="save_json:raises")
                break
        elif poison and name not in spec:
            # un-serialisable metadata was accepted after all (the model has no such save): earlier entries must still be untouched
            res.count("failed-save:did-not-raise")
            if before is not None:
                try:
                    jb, ja = raw_json(before.decode()), raw_json((after or b"").decode())
                    if list(ja.keys())[:len(jb)] != list(jb.keys()) or any(ja[k] != jb[k] for k in jb):
                        res.violation("saving under a new name changed an earlier entry / the order", rp, key="save_json:earlier-entry-changed")
                except Exception as e:   # noqa: BLE001
                    res.violation(f"results file does not parse: {e}", rp, key="save_json:unparsable")
            break
        if not failed:
            res.evaluations += 1
            res.count(f"actions:{kind}")
            res.count(f"data:{data0.shape[0]}x{data0.shape[1]}" if data0.size <= 16 else "data:big")
            info["has_nan"] = info["has_nan"] or bool(np.isnan(data0).any())
            if script is not None:
                script.add(f"store save {sid} {hx(name)} {entry_token(data0, act0, exp_meta)}", "kept" if after == before else "added", rp)
        # ---- oracle on the real file
        if failed:
            pass                             # the model has no raising save: no model line, the store is what it was
        elif after is None:
            res.violation("save_json left no file", rp, key="save_json:no-file")
            break
        elif name in spec:
            info["repeated"] = True
            res.count("save:existing-name")
            if after != before:
                res.violation("saving under an existing name changed the results file", rp, key="save_json:existing-name-changes")
        else:
            res.count("save:new-name")
            spec[name] = (data0, act0, exp_meta)
            if before is not None:
                try:
                    jb, ja = raw_json(before.decode()), raw_json(after.decode())
                    if list(ja.keys())[:len(jb)] != list(jb.keys()) or any(ja[k] != jb[k] for k in jb):
                        res.violation("saving under a new name changed an earlier entry / the order", rp,
                                      key="save_json:earlier-entry-changed")
                except Exception as e:   # noqa: BLE001
                    res.violation(f"results file does not parse: {e}", rp, key="save_json:unparsable")
        try:
            outs = S.get_outputs_from_file(p)
        except Exception as e:           # noqa: BLE001
            res.violation(f"get_outputs_from_file raised {type(e).__name__}: {e}", rp, key="read:raises")
            break
        if list(outs.keys()) != list(spec.keys()):
            res.violation("names in the file ≠ names saved, in first-save order",
                          dict(rp, got=list(outs.keys()), expected=list(spec.keys())), key="save_json:names")
        for k_, (dd, aa, mm) in spec.items():
            if k_ in outs:
                c19_check_readback(res, f"entry {k_!r}", outs[k_], dd, aa, mm, rp)
        # ---- model lines: names, dump, lookups
        if script is not None:
            script.add(f"store names {sid}", ",".join(hx(k_) for k_ in outs) if outs else "-", rp)
            dump = " ".join(f"{hx(k_)}=" + entry_token(o.data, o.actions, meta_readback(o.parsed_args, spec[k_][2] if k_ in spec else {}))
                            for k_, o in outs.items())
            script.add(f"store dump {sid}", dump or "-", rp)
        for q in (name, saves[step - 1]["name"] if step else "never-saved", NAMES[(step * 5 + len(name)) % len(NAMES)], "never-saved"):
            try:
                o = S.Output.from_file(p, q)
                ans = entry_token(o.data, o.actions, meta_readback(o.parsed_args, spec[q][2] if q in spec else {}))
                if q not in spec:
                    res.violation("from_file returned an entry for a name never saved", dict(rp, name=q), key="read:phantom")
                else:
                    c19_check_readback(res, f"from_file {q!r}", o, *spec[q], rp)
            except KeyError:
                ans = "none"
                if q in spec:
                    res.violation("a saved run cannot be read back (KeyError)", dict(rp, name=q), key="read:lost")
            except Exception as e:       # noqa: BLE001
                ans = f"err:{type(e).__name__}"
                res.violation(f"from_file raised {type(e).__name__}: {e}", dict(rp, name=q), key="read:raises")
            if script is not None:
                script.add(f"store lookup {sid} {hx(q)}", ans, rp)
    info["names"] = len(spec)
    return info


def run_c19(tier, budget: Budget, rnd) -> StreamResult:
    res = StreamResult("store-c19")
    script = Script()
    histories = 40 if tier == "quick" else 500
    base = Path(tempfile.mkdtemp(prefix="verif_c19_", dir="/tmp"))
    try:
        for h in range(histories):
            if budget.left() < (12 if tier == "quick" else 60):
                res.notes.append(f"budget: stopped after {h} histories")
                break
            saves: list[dict] = []
            for step in range(rnd.randint(1, 8)):
                u = rnd.random()
                name = rnd.choice(saves)["name"] if saves and u < 0.25 else rnd.choice(NAMES) if u < 0.8 else f"run-{step}"
                # how the save reaches the file: directly, through another spelling of the same path (a symlinked directory),
                # or from a forked child process — "any sequence of saves" is not restricted to one process and one spelling
                via = rnd.choice(["direct", "direct", "direct", "alias", "fork"]) if h % 3 == 1 else "direct"
                if h % 5 == 2 and step < 2:
                    # two DIFFERENT strings that are canonically equivalent under Unicode normalisation: two names, two entries
                    name = EQUIVALENT_NAMES[(h // 5) % len(EQUIVALENT_NAMES)][step]
                sv = {"name": name, "seed": rnd.randint(0, 10 ** 9), "big": rnd.random() < 0.08, "via": via}
                # a save that legitimately raises part-way through the dump (metadata json cannot write): every second history
                # holds some, never as the very first save of histories 0 mod 4 (so that an earlier file exists)
                if h % 2 == 0 and rnd.random() < (0.3 if step else 0.1 if h % 4 else 0.0):
                    sv["poison"] = rnd.choice(POISONS)
                elif h % 2 == 1 and step and rnd.random() < 0.3:
                    sv["reuse"] = rnd.choice(["reassign", "inplace"])
                saves.append(sv)
            info = c19_history(res, script, base / f"h{h}", f"s{h}", saves)
            if info["repeated"] and info["names"] >= 2 and info["has_nan"]:
                res.nontrivial.add(("hist", h))
            if h < 2:
                res.sample({"history": saves})
        # ------------------------------------------------------------------ save() with ALL savers (plots are slow: a handful)
        nfull = 3 if tier == "quick" else 25
        if budget.left() > (14 if tier == "quick" else 90):
            for h in range(nfull):
                if budget.left() < (12 if tier == "quick" else 60):
                    res.notes.append(f"budget: stopped after {h} save() histories")
                    break
                saves = []
                for step in range(3 if h % 2 == 0 else rnd.randint(2, 3)):
                    name = saves[0]["name"] if step == 2 and h % 2 == 0 else rnd.choice([n for n in FULL_NAMES if n not in {s_["name"] for s_ in saves}])
                    if h % 3 == 1 and step < 2:
                        # two different names that agree up to their last dot (runs of one sweep / time stamps of one second)
                        name = SIBLING_NAMES[(h // 3) % len(SIBLING_NAMES)][step]
                    saves.append({"name": name, "seed": rnd.randint(0, 10 ** 9), "big": False, "via": "full", "nonfinite": True})
                    if step == 1 and h % 3 == 2:
                        saves[-1]["poison"] = rnd.choice(POISONS)
                info = c19_history(res, script, base / f"full{h}" / "model", f"f{h}", saves)
                res.count("history:save()-all-savers")
                if info["names"] >= 2 and info["has_nan"]:
                    res.nontrivial.add(("full", h))
                if h == 0:
                    res.sample({"history": saves}, limit=4)
        else:
            res.notes.append("budget: save() histories skipped")
        # ------------------------------------------------------------------ commands
        if budget.left() > 8:
            run_commands(tier, budget, rnd, res, base)
        else:
            res.notes.append("budget: commands skipped")
    finally:
        shutil.rmtree(base, ignore_errors=True)
    for b in script.diff():
        res.disagree("store answer", {k: (str(b[k])[:1500] if k != "ctx" else b[k]) for k in ("line", "impl", "model", "ctx")})
    return res


@contextmanager
def only_json_saver(S):
    saved = dict(S.SAVERS)
    S.SAVERS.clear()
    S.SAVERS["data.json"] = S.save_json
    try:
        yield
    finally:
        S.SAVERS.clear()
        S.SAVERS.update(saved)


def run_commands(tier, budget: Budget, rnd, res: StreamResult, base: Path) -> None:
    """solve / greedy / best_states in-process; the saved matrices must be the computed ones."""
    from incomplete_cooperative.solvers import SOLVERS
    nruns = 9 if tier == "quick" else 60
    model_dir = base / "cmd" / "model"          # does not exist yet: save() must create it
    state = {"saved": {}, "order": []}
    for i in range(nruns):
        if budget.left() < 4:
            res.notes.append(f"budget: stopped after {i} command runs")
            break
        cmd = ["solve", "greedy", "best_states"][i % 3]
        n = rnd.choice([3, 4])
        steps = rnd.choice([1, 2])
        reps = rnd.choice([1, 2, 3])
        name = f"{cmd}-{i}" if rnd.random() < 0.8 or not state["order"] else rnd.choice(state["order"])
        # structural parameters follow the run index (not the PRNG), so that every tier always contains a multi-repetition
        # best_states run over a continuous generator (its repetition blocks then differ pairwise)
        gen = rnd.choice(["factory", "factory", "graph", "noisy_factory", "factory_square"]) if tier != "quick" else \
            ("noisy_factory" if cmd == "best_states" else "factory")
        eval_reps = [2, 3, 1][(i // 3) % 3]
        argv = ["--number-of-players", str(n), "--run-steps-limit", str(steps), "--model-dir", str(model_dir),
                "--parallel-environments", "1", "--unique-name", name, "--seed", str(rnd.randint(0, 10 ** 6)),
                "--game-generator", gen]
        if cmd == "solve":
            argv += ["solve", "--solve-repetitions", str(reps), "--solver", rnd.choice(sorted(SOLVERS.keys()))]
        elif cmd == "greedy":
            argv += ["greedy", "--sampling-repetitions", str(reps)]
        else:
            argv += ["best_states", "--sampling-repetitions", str(reps), "--eval-repetitions", str(eval_reps)]
        if command_case(res, argv, state):
            res.nontrivial.add(("cmd", cmd, n, steps, reps, i))
    # full-length evaluations at 5 players over real-valued generators: at the end of such an episode the exploitability gap is a
    # rounding residue, often a NEGATIVE one (−9e-16 … −1e-13; about two runs in three hold one).  The saved matrix must be the
    # computed one, residues and their signs included.
    for j, (gen, solver) in enumerate([("noisy_factory_square", "random"), ("graph", "largest"), ("noisy_factory", "random")][: 2 if tier == "quick" else 3]):
        if budget.left() < 4:
            res.notes.append("budget: full-length command runs skipped")
            break
        argv = ["--number-of-players", "5", "--run-steps-limit", "25", "--model-dir", str(model_dir), "--parallel-environments", "1",
                "--unique-name", f"full-length-{j}", "--seed", str(rnd.randint(0, 10 ** 6)), "--game-generator", gen,
                "--gap-function", "exploitability", "solve", "--solve-repetitions", "6", "--solver", solver]
        res.count("command:full-length-n5")
        if command_case(res, argv, state):
            res.nontrivial.add(("cmd", "solve-full-length", gen, solver))


def command_case(res: StreamResult, argv: list[str], state: dict) -> bool:
    """run one command in-process (as `python -m incomplete_cooperative <argv>` does), with the computing
    function wrapped; `state` = what earlier commands saved into the same model directory"""
    import incomplete_cooperative.run.best_states as BS
    import incomplete_cooperative.run.greedy as GR
    import incomplete_cooperative.run.save as S
    import incomplete_cooperative.run.solve as SO
    from incomplete_cooperative.__main__ import get_argument_parser
    from incomplete_cooperative.run.model import ModelInstance

    saved_names, order = state["saved"], state["order"]
    rp = {"kind": "command", "argv": argv,
          "how": "python -m incomplete_cooperative <argv> with the computing function wrapped; compare data.json[unique-name] with "
                 "what was computed (check.py C19 --replay <this file>)"}
    try:
        args = get_argument_parser().parse_args(argv)
    except SystemExit:
        res.notes.append(f"argparse rejected {argv}")
        return False
    cmd = next(c for c in ("solve", "greedy", "best_states") if c in argv)
    n, steps, name, model_dir = args.number_of_players, args.run_steps_limit, args.unique_name, Path(args.model_dir)
    computed = []

    def wrap(real):
        def w(*a, **k):
            r = real(*a, **k)
            computed.append((np.array(r[0], copy=True), _deep(r[1])))
            return r
        return w

    mod, attr = {"solve": (SO, "evaluate"), "greedy": (GR, "get_greedy_rewards"),
                 "best_states": (BS, "get_best_exploitability")}[cmd]
    real = getattr(mod, attr)
    setattr(mod, attr, wrap(real))
    p = model_dir / TARGET
    before = p.read_bytes() if p.exists() else None
    try:
        with only_json_saver(S):
            instance = ModelInstance.from_parsed_arguments(args)
            args.func(instance, args)
    except Exception as e:   # noqa: BLE001
        res.violation(f"command {cmd} raised {type(e).__name__}: {e}", rp, key=f"{cmd}:raises")
        return False
    finally:
        setattr(mod, attr, real)
    res.evaluations += 1
    res.count(f"cmd:{cmd}")
    if not computed:
        res.violation(f"{cmd}: the computing function was not called", rp, key=f"{cmd}:not-called")
        return False
    # mirror what the command does with the computed pieces
    if cmd == "solve":
        exp_data, exp_actions = computed[0][0], np.asarray(computed[0][1])
    elif cmd == "greedy":
        exp_data = computed[0][0]
        bc = computed[0][1]
        exp_actions = np.reshape(np.array(bc), (len(bc), 1))
    else:
        exp_data = np.hstack([c[0] for c in computed])
        exp_actions = np.full((steps + 1, len(computed), steps), np.nan)
        for r_, c in enumerate(computed):
            for e_, coal in enumerate(c[1]):
                for j, cc in enumerate(coal):
                    exp_actions[e_, r_, j] = cc
    after = p.read_bytes() if p.exists() else None
    if after is None:
        res.violation(f"{cmd}: no results file written", rp, key=f"{cmd}:no-file")
        return False
    if name in saved_names:
        res.count("cmd:existing-name")
        if after != before:
            res.violation(f"{cmd}: saving under an existing name changed the results file", rp, key="save_json:existing-name-changes")
    else:
        saved_names[name] = (exp_data, exp_actions, n)
        order.append(name)
        if before is not None:
            jb, ja = raw_json(before.decode()), raw_json(after.decode())
            if list(ja.keys())[:len(jb)] != list(jb.keys()) or any(ja[k] != jb[k] for k in jb):
                res.violation(f"{cmd}: saving under a new name changed an earlier entry", rp, key="save_json:earlier-entry-changed")
    try:
        outs = S.get_outputs_from_file(p)
        one = S.Output.from_file(p, name)
    except Exception as e:   # noqa: BLE001
        res.violation(f"{cmd}: saved run cannot be read back: {type(e).__name__}: {e}", rp, key="read:raises")
        return False
    if list(outs.keys()) != order:
        res.violation(f"{cmd}: names in the file ≠ names saved", dict(rp, got=list(outs), expected=order), key="save_json:names")
    for k_, (dd, aa, _n) in saved_names.items():
        if k_ in outs:
            c19_check_readback(res, f"{cmd}: entry {k_!r} (saved ≠ computed)", outs[k_], dd, aa, None, rp)
    dd, aa, n_first = saved_names[name]
    c19_check_readback(res, f"{cmd}: from_file {name!r} (saved ≠ computed)", one, dd, aa, None, rp)
    md = vars(one.parsed_args)
    if md.get("unique_name") != name or md.get("model_dir") != str(model_dir) or md.get("number_of_players") != n_first:
        res.violation(f"{cmd}: metadata of the run not restored", dict(rp, got=repr(md)[:300]), key="save:metadata-roundtrip")
    if len(res.samples) < 5:
        res.sample({"command": argv[-5:], "data_shape": list(exp_data.shape), "actions_shape": list(np.asarray(exp_actions).shape)})
    return True


def _deep(x):
    if isinstance(x, np.ndarray):
        return np.array(x, copy=True)
    if isinstance(x, list):
        return [_deep(v) for v in x]
    return x


# =====================================================================================================
# C20: recording / crashing file layer

class _Crash(BaseException):
    """the simulated death of the process"""


_real = {}


def _capture_real():
    if _real:
        return
    for n in ("open", "write", "close", "fsync", "fdatasync", "replace", "rename", "unlink", "remove", "truncate",
              "ftruncate", "link", "sendfile", "copy_file_range", "pwrite", "writev", "lseek", "read", "fstat", "pread"):
        if hasattr(os, n):
            _real[n] = getattr(os, n)
    _real["io.open"] = io.open
    _real["builtins.open"] = builtins.open


def _san(s: str) -> str:
    ok = "abcdefghijklmnopqrstuvwxyzABCDEFGHIJKLMNOPQRSTUVWXYZ0123456789._/-"
    return "".join(ch if ch in ok else "%" + ch.encode().hex() for ch in s) or "%"


class Recorder:
    def __init__(self, root: Path, crash_at: int | None = None, enospc_at: int | None = None):
        self.root = os.path.abspath(str(root))
        self.ops: list[tuple] = []
        self.crash_at = crash_at
        self.enospc_at = enospc_at        # from this operation on EVERY write fails with ENOSPC (a full disk stays full)
        self.dead = False
        self.failed_renames = 0
        self.fds: dict[int, dict] = {}

    # ---- paths
    def rel(self, path, mutating: bool) -> str | None:
        try:
            p = os.fspath(path)
        except TypeError:
            return None
        if isinstance(p, bytes):
            p = os.fsdecode(p)
        ap = os.path.abspath(p)
        if ap == self.root:
            return "."
        if ap.startswith(self.root + os.sep):
            return _san(ap[len(self.root) + 1:])
        if mutating and not ap.startswith(("/dev/", "/proc/", "/sys/")):
            return "out" + _san(ap)
        return None

    def step(self, op: tuple) -> None:
        if self.dead:
            raise _Crash()
        if self.crash_at is not None and len(self.ops) == self.crash_at:
            self.dead = True
            raise _Crash()
        self.ops.append(op)

    # ---- os level
    def os_open(self, path, flags, mode=0o777, *, dir_fd=None):
        acc = flags & os.O_ACCMODE
        mutating = acc != os.O_RDONLY or bool(flags & (os.O_TRUNC | os.O_CREAT))
        rel = self.rel(path, mutating) if dir_fd is None else None
        if rel is None:
            return _real["open"](path, flags, mode, dir_fd=dir_fd)
        if not mutating:
            kind = "or"
        elif flags & os.O_TRUNC:
            kind = "ot"
        elif flags & os.O_CREAT and flags & os.O_EXCL:
            kind = "ox"
        else:
            kind = "ok"
        self.step((kind, rel))
        fd = _real["open"](path, flags, mode, dir_fd=dir_fd)
        self.fds[fd] = {"rel": rel, "append": bool(flags & os.O_APPEND), "kind": kind}
        return fd

    def fd_write(self, fd: int, data: bytes) -> int:
        info = self.fds[fd]
        data = bytes(data)
        if info["append"]:
            at_end = True
        else:
            at_end = _real["lseek"](fd, 0, os.SEEK_CUR) == _real["fstat"](fd).st_size
        if self.enospc_at is not None and len(self.ops) >= self.enospc_at:
            import errno
            raise OSError(errno.ENOSPC, "No space left on device")
        self.step(("w", info["rel"], data) if at_end else ("x", info["rel"]))
        view = memoryview(data)
        done = 0
        while done < len(data):
            done += _real["write"](fd, view[done:])
        return len(data)

    def os_write(self, fd, data):
        if fd not in self.fds:
            return _real["write"](fd, data)
        return self.fd_write(fd, data)

    def os_close(self, fd):
        info = self.fds.pop(fd, None)
        if info is None:
            return _real["close"](fd)
        try:
            self.step(("c", info["rel"]))
        finally:
            _real["close"](fd)

    def raw_close(self, fd):
        """close coming from a `_RecRaw`: never raises in the dead state (it only releases the descriptor)"""
        info = self.fds.pop(fd, None)
        try:
            if info is not None and not self.dead:
                self.step(("c", info["rel"]))
        finally:
            try:
                _real["close"](fd)
            except OSError:
                pass

    def os_fsync(self, which):
        def f(fd):
            if hasattr(fd, "fileno"):
                fd = fd.fileno()
            if fd in self.fds:
                self.step(("fs", self.fds[fd]["rel"]))
            return _real[which](fd)
        return f

    def os_rename(self, which):
        def f(src, dst, *, src_dir_fd=None, dst_dir_fd=None):
            rs = self.rel(src, True) if src_dir_fd is None else None
            rd = self.rel(dst, True) if dst_dir_fd is None else None
            if rs is None and rd is None:
                return _real[which](src, dst, src_dir_fd=src_dir_fd, dst_dir_fd=dst_dir_fd)
            self.step(("mv", rs or "unknown", rd or "unknown"))
            try:
                return _real[which](src, dst, src_dir_fd=src_dir_fd, dst_dir_fd=dst_dir_fd)
            except OSError:
                # the rename did not happen (e.g. EXDEV: source and target on different file systems — `shutil.move` then falls
                # back to copy + unlink): nothing changed on disk, so no operation is recorded for it; whatever the code does
                # instead is recorded as usual (in a crashed run the attempt counts as the crash point before the next operation)
                self.ops.pop()
                self.failed_renames += 1
                raise
        return f

    def os_unlink(self, which):
        def f(path, *, dir_fd=None):
            r = self.rel(path, True) if dir_fd is None else None
            if r is not None:
                self.step(("rm", r))
            return _real[which](path, dir_fd=dir_fd)
        return f

    def os_truncate(self, path, length):
        if isinstance(path, int):
            return self.os_ftruncate(path, length)
        r = self.rel(path, True)
        if r is not None:
            self.step(("x", r))
        return _real["truncate"](path, length)

    def os_ftruncate(self, fd, length):
        if fd in self.fds:
            self.step(("x", self.fds[fd]["rel"]))
        return _real["ftruncate"](fd, length)

    def os_link(self, src, dst, **kw):
        rd = self.rel(dst, True)
        if rd is not None:
            self.step(("x", rd))
        return _real["link"](src, dst, **kw)

    def os_sendfile(self, out_fd, in_fd, offset, count, *a, **k):
        if out_fd not in self.fds:
            return _real["sendfile"](out_fd, in_fd, offset, count, *a, **k)
        data = _real["pread"](in_fd, min(count, 1 << 20), offset or 0)
        if not data:
            return 0
        return self.fd_write(out_fd, data)

    def os_copy_file_range(self, src, dst, count, offset_src=None, offset_dst=None):
        if dst not in self.fds:
            return _real["copy_file_range"](src, dst, count, offset_src, offset_dst)
        if offset_dst is not None:
            self.step(("x", self.fds[dst]["rel"]))
            return _real["copy_file_range"](src, dst, count, offset_src, offset_dst)
        data = _real["read"](src, min(count, 1 << 20)) if offset_src is None else _real["pread"](src, min(count, 1 << 20), offset_src)
        if not data:
            return 0
        return self.fd_write(dst, data)

    def os_pwrite(self, fd, data, offset):
        if fd in self.fds:
            self.step(("x", self.fds[fd]["rel"]))
        return _real["pwrite"](fd, data, offset)

    def os_writev(self, fd, buffers):
        if fd not in self.fds:
            return _real["writev"](fd, buffers)
        return self.fd_write(fd, b"".join(bytes(b) for b in buffers))

    # ---- io.open
    def io_open(self, file, mode="r", buffering=-1, encoding=None, errors=None, newline=None, closefd=True, opener=None):
        real_open = _real["io.open"]
        if not isinstance(mode, str) or not isinstance(buffering, int):
            return real_open(file, mode, buffering, encoding, errors, newline, closefd, opener)
        modes = set(mode)
        if modes - set("axrwb+t") or len(mode) > len(modes):
            return real_open(file, mode, buffering, encoding, errors, newline, closefd, opener)
        creating, reading, writing, appending = "x" in modes, "r" in modes, "w" in modes, "a" in modes
        updating, binary = "+" in modes, "b" in modes
        if ("t" in modes and binary) or creating + reading + writing + appending != 1 or \
                (binary and (encoding is not None or errors is not None or newline is not None)):
            return real_open(file, mode, buffering, encoding, errors, newline, closefd, opener)
        mutating = not reading or updating
        if isinstance(file, int):
            if file not in self.fds:
                return real_open(file, mode, buffering, encoding, errors, newline, closefd, opener)
            fd = file
        else:
            if self.rel(file, mutating) is None:
                return real_open(file, mode, buffering, encoding, errors, newline, closefd, opener)
            if self.dead:
                raise _Crash()
            if reading:
                flags = os.O_RDWR if updating else os.O_RDONLY
            elif writing:
                flags = (os.O_RDWR if updating else os.O_WRONLY) | os.O_CREAT | os.O_TRUNC
            elif creating:
                flags = (os.O_RDWR if updating else os.O_WRONLY) | os.O_CREAT | os.O_EXCL
            else:
                flags = (os.O_RDWR if updating else os.O_WRONLY) | os.O_CREAT | os.O_APPEND
            flags |= getattr(os, "O_CLOEXEC", 0)
            if opener is None:
                fd = self.os_open(file, flags, 0o666)
            else:
                fd = opener(file, flags)                     # usually ends in the patched os.open
                if fd not in self.fds:
                    kind = "or" if not mutating else "ot" if writing else "ox" if creating else "ok"
                    self.step((kind, self.rel(file, mutating)))
                    self.fds[fd] = {"rel": self.rel(file, mutating), "append": appending, "kind": kind}
            if appending:
                try:
                    _real["lseek"](fd, 0, os.SEEK_END)
                except OSError:
                    pass
        raw = _RecRaw(self, fd, mode, closefd, file, readable=reading or updating, writable=mutating)
        try:
            bs = _real["fstat"](fd).st_blksize
        except OSError:
            bs = 0
        line_buffering = False
        if buffering == 1 or (buffering < 0 and raw.isatty()):
            buffering = -1
            line_buffering = True
        if buffering < 0:
            buffering = bs if bs > 1 else io.DEFAULT_BUFFER_SIZE
        if buffering == 0:
            if binary:
                return raw
            raw.close()
            raise ValueError("can't have unbuffered text I/O")
        if updating:
            buf = io.BufferedRandom(raw, buffering)
        elif mutating:
            buf = io.BufferedWriter(raw, buffering)
        else:
            buf = io.BufferedReader(raw, buffering)
        if binary:
            return buf
        text = io.TextIOWrapper(buf, io.text_encoding(encoding), errors, newline, line_buffering)
        text.mode = mode
        return text


class _RecRaw(io.RawIOBase):
    """stands where `io.FileIO` stands in the object `open()` returns; every write is one recorded operation"""

    def __init__(self, rec: Recorder, fd: int, mode: str, closefd: bool, name, readable: bool, writable: bool):
        super().__init__()
        self._rec, self._fd, self.mode, self._closefd, self.name = rec, fd, mode, closefd, name
        self._r, self._w = readable, writable

    def readable(self):
        return self._r

    def writable(self):
        return self._w

    def seekable(self):
        return True

    def fileno(self):
        return self._fd

    def isatty(self):
        return False

    def readinto(self, b):
        data = _real["read"](self._fd, len(b))
        b[:len(data)] = data
        return len(data)

    def write(self, b):
        data = bytes(b)
        if self._rec.dead:
            return len(data)             # the process is dead: nothing reaches the disk any more
        return self._rec.fd_write(self._fd, data)

    def seek(self, pos, whence=0):
        return _real["lseek"](self._fd, pos, whence)

    def tell(self):
        return _real["lseek"](self._fd, 0, os.SEEK_CUR)

    def truncate(self, size=None):
        if size is None:
            size = self.tell()
        self._rec.os_ftruncate(self._fd, size)
        return size

    def close(self):
        if self.closed:
            return
        try:
            super().close()
        finally:
            if self._closefd:
                self._rec.raw_close(self._fd)


@contextmanager
def recording(rec: Recorder):
    _capture_real()
    patched = {
        "open": rec.os_open, "write": rec.os_write, "close": rec.os_close,
        "fsync": rec.os_fsync("fsync"), "fdatasync": rec.os_fsync("fdatasync"),
        "replace": rec.os_rename("replace"), "rename": rec.os_rename("rename"),
        "unlink": rec.os_unlink("unlink"), "remove": rec.os_unlink("remove"),
        "truncate": rec.os_truncate, "ftruncate": rec.os_ftruncate, "link": rec.os_link,
        "sendfile": rec.os_sendfile, "copy_file_range": rec.os_copy_file_range,
        "pwrite": rec.os_pwrite, "writev": rec.os_writev,
    }
    try:
        for n, f in patched.items():
            if n in _real:
                setattr(os, n, f)
        io.open = rec.io_open
        builtins.open = rec.io_open
        yield rec
    finally:
        for n in patched:
            if n in _real:
                setattr(os, n, _real[n])
        io.open = _real["io.open"]
        builtins.open = _real["builtins.open"]


def op_token(op: tuple) -> str:
    if op[0] == "w":
        return f"w:{op[1]}:{op[2].hex()}"
    return ":".join(op)


def show_op(op: tuple) -> str:
    return f"w:{op[1]}:<{len(op[2])} bytes>" if op[0] == "w" else ":".join(op)


def op_shape(op: tuple, names: dict) -> tuple:
    """operation with non-target paths renamed by first appearance (temporary names may be random)"""
    def nm(p):
        if p == TARGET or p == ".":
            return p
        return names.setdefault(p, f"t{len(names)}")
    if op[0] == "w":
        return ("w", nm(op[1]), op[2])
    return (op[0],) + tuple(nm(p) for p in op[1:])


def site_key(ops: list[tuple]) -> str:
    """the failing site, from the observed discipline"""
    written = {op[1] for op in ops if op[0] in ("w", "x")}
    if any(op[0] == "ot" and op[1] == TARGET for op in ops):
        if written <= {TARGET} and not any(op[0] == "mv" for op in ops):
            return "save_json:truncate-then-write"
        return "save_json:temp-then-overwrite-target"
    if TARGET in written:
        return "save_json:write-in-place"
    if any(op[0] == "rm" and op[1] == TARGET for op in ops):
        return "save_json:target-unlinked"
    if any(op[0] == "mv" and op[2] == TARGET for op in ops):
        return "save_json:rename-discipline"
    return "save_json:other"


def classify(cur: bytes | None, old: bytes | None, new: bytes | None) -> str:
    if cur == old:
        return "old"
    if cur == new:
        return "new"
    if cur is None:
        return "absent"
    return "lit:" + cur.hex()


def det_output(spec: dict):
    """a deterministic Output from a small spec (used by stream and replay alike)"""
    import random
    from incomplete_cooperative.run.save import Output
    r = random.Random(spec["seed"])
    rows, cols = spec["rows"], spec["cols"]
    data = np.array([[r.choice(SPECIAL) if r.random() < 0.3 else r.uniform(-3, 3) for _ in range(cols)] for _ in range(rows)])
    actions = np.array([[float(r.randint(0, 31)) for _ in range(cols)] for _ in range(max(1, rows - 1))])
    ns = Namespace(func=solve_like, model_dir=Path("/x/y"), seed=spec["seed"], name=None, note="ü")
    return Output(data, actions, ns)


def build_history(d: Path, case: dict) -> None:
    """results directory with `earlier` runs saved by the real, unpatched save_json"""
    from incomplete_cooperative.run.save import save_json
    d.mkdir(parents=True)
    for i, spec in enumerate(case["earlier"]):
        save_json(d / TARGET, f"run-{i}", det_output(spec))
    if case.get("symlink"):
        # the results file is a symbolic link (a results directory on scratch storage, linked into the project directory): to a file
        # holding the earlier runs, or — no earlier runs — dangling
        if (d / TARGET).exists():
            (d / TARGET).rename(d / "real-results.json")
        os.symlink("real-results.json", d / TARGET)
    if case.get("stale_tmp") == "brace":
        # leftover of an earlier save that died mid-dump, cut right after a closing brace: newer and larger than the results file and
        # ending in '}' — it LOOKS like a complete file and is truncated JSON
        scr = d.parent / (d.name + "_scr")
        shutil.copytree(d, scr, symlinks=True)
        save_json(scr / TARGET, case["name"] + "-died", det_output(case["new"]))
        full_new = (scr / TARGET).read_bytes()
        shutil.rmtree(scr)
        cut = full_new.rfind(b"}", 0, len(full_new.rstrip()) - 1)
        (d / (TARGET + ".tmp")).write_bytes(full_new[:cut + 1])
        return
    if case.get("stale_tmp"):
        # leftover of an earlier crashed save: either a short fragment, or (stale_tmp == "long") a partial dump that is
        # LONGER than anything this save will write — a save that does not truncate its temporary keeps its tail
        tail = b"" if case["stale_tmp"] != "long" else b'[0.5, 0.25], ' * 40000
        (d / (TARGET + ".tmp")).write_bytes(b'{"stale": garbage' + tail)


def crash_run(hist: Path, work: Path, case: dict, k: int | None, enospc: int | None = None):
    """copy the history, run the save with a crash armed after k operations (or, `enospc`: with every write failing with ENOSPC from
    that operation on); → (ops, bytes at target, crashed?)"""
    from incomplete_cooperative.run.save import save_json
    if work.exists():
        shutil.rmtree(work)
    shutil.copytree(hist, work, symlinks=True)
    rec = Recorder(work, crash_at=k, enospc_at=enospc)
    crashed = False
    err = None
    with recording(rec):
        try:
            save_json(work / TARGET, case["name"], det_output(case["new"]))
        except _Crash:
            crashed = True
        except Exception as e:      # noqa: BLE001
            err = e
    t = work / TARGET
    cur = t.read_bytes() if t.exists() else None
    others = {p.name: p.read_bytes() for p in work.iterdir() if p.is_file() and p.name != TARGET}
    return rec.ops, cur, crashed, err, others


OTHER_FS_CANDIDATES = ["/dev/shm", "/var/tmp", str(Path.home()), str(Path(__file__).resolve().parent.parent.parent)]


@contextmanager
def c20_dirs(prefix: str):
    """→ (base, other): `base` under /tmp; `tempfile.gettempdir()` is pointed at `base/systmp` for the duration (same file system as
    `base` by construction; whatever the code under test leaves in "the system temp directory" is removed with `base`); `other` = a
    fresh directory on a DIFFERENT file system than `base` (st_dev differs), or None when no candidate is available and writable.
    Everything created here is removed on exit."""
    base = Path(tempfile.mkdtemp(prefix=prefix, dir="/tmp"))
    saved = tempfile.tempdir
    other = None
    try:
        (base / "systmp").mkdir()
        tempfile.tempdir = str(base / "systmp")
        dev = os.stat(base).st_dev
        for cand in OTHER_FS_CANDIDATES:
            try:
                if os.path.isdir(cand) and os.stat(cand).st_dev != dev and os.access(cand, os.W_OK | os.X_OK):
                    other = Path(tempfile.mkdtemp(prefix=prefix, dir=cand))
                    (other / "probe").write_bytes(b"x")
                    (other / "probe").unlink()
                    break
            except OSError:
                if other is not None:
                    shutil.rmtree(other, ignore_errors=True)
                    other = None
        yield base, other
    finally:
        tempfile.tempdir = saved
        shutil.rmtree(base, ignore_errors=True)
        if other is not None:
            shutil.rmtree(other, ignore_errors=True)


def c20_case(res: StreamResult | None, script: Script | None, base: Path, case: dict, tag: str):
    """one save: observe, then crash at every operation.  Returns the list of oracle failures.
    `base` = where the results directory lives (for case["fs"] == "other": on another file system than the temp directory)"""
    hist = base / f"{tag}_hist"
    build_history(hist, case)
    t = hist / TARGET
    old = t.read_bytes() if t.exists() else None
    init = {p.name: p.read_bytes() for p in hist.iterdir() if p.is_file() and not p.is_symlink()}
    old_json = raw_json(old.decode()) if old is not None else {}
    # reference: the unpatched save
    from incomplete_cooperative.run.save import save_json
    ref = base / f"{tag}_ref"
    shutil.copytree(hist, ref, symlinks=True)
    try:
        save_json(ref / TARGET, case["name"], det_output(case["new"]))
    except Exception as e:      # noqa: BLE001
        cur_ref = (ref / TARGET).read_bytes() if (ref / TARGET).exists() else None
        try:
            kept_ = cur_ref is not None and all(n_ in raw_json(cur_ref.decode()) for n_ in old_json)
        except Exception:       # noqa: BLE001
            kept_ = False
        for p_ in (hist, ref):
            shutil.rmtree(p_, ignore_errors=True)
        return [(f"an ordinary, uninterrupted save_json raised {type(e).__name__}: {str(e)[:100]} (what an earlier interrupted save left "
                 f"in the directory: stale_tmp = {case.get('stale_tmp')!r})"
                 + ("" if kept_ else "; the results file no longer parses / earlier runs are lost"), None, "save_json:raises")], []
    ref_new = (ref / TARGET).read_bytes()
    # observation
    ops, new, crashed, err, _ = crash_run(hist, base / f"{tag}_w", case, None)
    failures = []
    if err is not None or crashed:
        failures.append(("save_json raised under observation: %r" % (err,), None, "save_json:raises"))
        return failures, ops
    if new != ref_new and res is not None:
        res.disagree("instrumented save ≠ plain save (the recording layer is not transparent)",
                     {"case": case, "len_plain": len(ref_new), "len_instrumented": None if new is None else len(new)})
    key = site_key(ops)
    classes = []
    points = list(range(len(ops) + 1))
    if case.get("sparse"):
        # a results file of several MiB: every crash run re-does the whole save, so crash only after every operation that is not a
        # write, after the first three and the last three writes, and after ~8 writes spread evenly in between
        wr = [k for k, o in enumerate(ops) if o[0] == "w"]
        keep = {k + 1 for k, o in enumerate(ops) if o[0] != "w"} | {0, len(ops)} | {k + 1 for k in wr[:3] + wr[-3:]} | \
            {wr[(j * len(wr)) // 9] + 1 for j in range(1, 9) if wr}
        points = sorted(k for k in keep if 0 <= k <= len(ops))
    for k in points:
        ops_k, cur, crashed, err, others = crash_run(hist, base / f"{tag}_w", case, k if k < len(ops) else None)
        if res is not None:
            res.evaluations += 1
            res.count("crash-point:" + (ops[k][0] if k < len(ops) else "complete"))
        if err is not None:
            failures.append((f"save_json raised {type(err).__name__} at crash point {k}: {err}", k, "save_json:raises"))
        if k < len(ops) and not crashed:
            failures.append((f"crash point {k} was not reached (operation list not reproducible)", k, "harness:nondeterministic"))
        nm1, nm2 = {}, {}
        if [op_shape(o, nm1) for o in ops_k] != [op_shape(o, nm2) for o in ops[:k]] and res is not None:
            res.disagree("operation list of the crashed run is not a prefix of the observed list",
                         {"case": case, "k": k, "observed": [show_op(o) for o in ops], "crashed_run": [show_op(o) for o in ops_k]})
        classes.append(classify(cur, old, new))
        # ---- the property, on the real bytes
        what = None
        if not (cur == old or cur == new):
            what = ("after an interruption the results file is neither the previous file nor the complete new file "
                    f"({'absent' if cur is None else str(len(cur)) + ' bytes'}; previous {'absent' if old is None else str(len(old)) + ' bytes'}, "
                    f"new {len(new) if new is not None else 'absent'} bytes)")
        if cur is not None:
            try:
                j = raw_json(cur.decode())
                lost = [n for n in old_json if n not in j]
                if lost:
                    what = (what + "; " if what else "") + f"previously saved runs lost: {lost}"
            except Exception as e:   # noqa: BLE001
                what = (what + "; " if what else "") + f"the results file does not parse ({type(e).__name__})" + \
                    (f"; all {len(old_json)} previously saved runs are lost" if old_json else "")
        elif old is not None:
            what = (what + "; " if what else "") + "the results file is gone"
        if what:
            failures.append((what, k, key))
        # ---- the NEXT save after the interruption (same directory, with whatever the interrupted one left behind): it completes,
        # and afterwards the file holds every earlier run, the new one if it had been installed, and the follow-up run.  Tried after
        # every interruption that left a temporary ending in '}' (it looks complete) and after a sample of the others.
        left = (others or {}).get(TARGET + ".tmp")
        if what is None and k < len(ops) and not case.get("sparse") and ((left is not None and left.rstrip().endswith(b"}")) or k % 7 == 3):
            work = base / f"{tag}_w"
            follow = None
            try:
                save_json(work / TARGET, "after-the-crash", det_output({"rows": 2, "cols": 2, "seed": 99}))
                j2 = raw_json((work / TARGET).read_bytes().decode())
                expect_names = list(old_json) + ([case["name"]] if cur == new and case["name"] not in old_json else []) + ["after-the-crash"]
                missing = [n_ for n_ in expect_names if n_ not in j2]
                if missing:
                    follow = f"the save that FOLLOWED an interruption after {k} operations completed, but the file lacks {missing}"
            except Exception as e:   # noqa: BLE001
                cur2 = (work / TARGET).read_bytes() if (work / TARGET).exists() else None
                try:
                    ok2 = cur2 is not None and all(n_ in raw_json(cur2.decode()) for n_ in old_json)
                except Exception:    # noqa: BLE001
                    ok2 = False
                follow = (f"the save that FOLLOWED an interruption after {k} operations raised {type(e).__name__}: {str(e)[:80]}"
                          + ("" if ok2 else "; the results file no longer parses / earlier runs are lost"))
            if res is not None:
                res.evaluations += 1
                res.count("follow-up-save-after-crash")
            if follow:
                failures.append((follow, k, "save_json:follow-up-after-crash"))
    # ---- a disk that fills up: from some write on EVERY write fails with ENOSPC.  Whether save_json raises or returns, the results
    # file must be the previous one or the complete new one.
    wr_ops = [k for k, o in enumerate(ops) if o[0] == "w"]
    for k in sorted({wr_ops[0], wr_ops[len(wr_ops) // 2], wr_ops[-1]}) if wr_ops else []:
        _ops_e, cur, _crashed, err, _others = crash_run(hist, base / f"{tag}_w", case, None, enospc=k)
        if res is not None:
            res.evaluations += 1
            res.count("disk-full:" + ("raised" if err is not None else "returned"))
        what = None
        if not (cur == old or cur == new):
            what = (f"with the disk full from write operation {k} on (every later write fails with ENOSPC) save_json "
                    f"{'raised ' + type(err).__name__ if err is not None else 'RETURNED NORMALLY'} and the results file is neither the previous "
                    f"file nor the complete new file ({'absent' if cur is None else str(len(cur)) + ' bytes'}; previous "
                    f"{'absent' if old is None else str(len(old)) + ' bytes'}, new {len(new) if new is not None else 'absent'} bytes)")
            try:
                j = raw_json(cur.decode()) if cur is not None else {}
                lost = [n_ for n_ in old_json if n_ not in j]
                if lost:
                    what += f"; previously saved runs lost: {lost}"
            except Exception as e:   # noqa: BLE001
                what += f"; the results file does not parse ({type(e).__name__})"
        if what:
            failures.append((what, k, "save_json:disk-full"))
    if script is not None and not case.get("sparse") and not case.get("symlink"):
        init_tok = ",".join(f"{_san(n)}={b.hex()}" for n, b in sorted(init.items())) or "-"
        line = f"store crash {TARGET} {init_tok} " + " ".join(op_token(o) for o in ops)
        script.add(line.rstrip(), None, {"case": case, "classes": classes, "ops": [show_op(o) for o in ops], "key": key})
    for p in (hist, ref, base / f"{tag}_w"):
        shutil.rmtree(p, ignore_errors=True)
    return failures, ops


def replay_dict(case: dict, k: int | None, ops: list[tuple], what: str) -> dict:
    return {"case": case, "crash_after_operations": k,
            "observed_operations": [show_op(o) for o in ops],
            "what": what,
            "how": "build the history with save_json (case.earlier → run-0..), then call save_json(dir/'data.json', case.name, "
                   "det_output(case.new)) and kill the process after the first `crash_after_operations` file-system operations; "
                   + ("the results directory `dir` must be on a DIFFERENT file system than tempfile.gettempdir() (e.g. dir under /dev/shm, "
                      "temp dir under /tmp); " if case.get("fs") == "other" else "") +
                   "equivalently: `check.py C20 --replay <this file>`"}


C20_PATH_NAMES = ["data", "data.json", "data.json.tmp", "data.tmp", "tmp", ".", "..", "", "data.json.tmp.tmp"]
C20_SPECIAL_AT = {"quick": {7: "5MiB", 13: "many"}, "thorough": {7: "5MiB", 13: "many", 20: "40MiB", 31: "5MiB", 40: "many"}}


def run_c20(tier, budget: Budget, rnd) -> StreamResult:
    res = StreamResult("store-c20")
    script = Script()
    nsaves = 24 if tier == "quick" else 300
    seen_keys = set()
    all_ops = []
    with c20_dirs("verif_c20_") as (base, other):
        if other is None:
            res.notes.append("no writable directory on a file system other than the temp directory's among "
                             f"{OTHER_FS_CANDIDATES}: the cross-file-system cases ran on the same file system")
        else:
            res.count(f"other-file-system:{other.parent}")
        for i in range(nsaves):
            if budget.left() < (8 if tier == "quick" else 60):
                res.notes.append(f"budget: stopped after {i} saves")
                break
            earlier = (i + 2) % 4 if i < 8 else rnd.randint(0, 5)
            size = ["tiny", "small", "big"][i % 3] if i < 9 else rnd.choice(["tiny", "small", "big", "huge"])
            dims = {"tiny": (1, 1), "small": (3, 4), "big": (30, 25), "huge": (70, 60)}[size]
            case = {"earlier": [{"rows": rnd.randint(1, 12), "cols": rnd.randint(1, 12), "seed": rnd.randint(0, 10 ** 6)} for _ in range(earlier)],
                    "new": {"rows": dims[0], "cols": dims[1], "seed": rnd.randint(0, 10 ** 6)},
                    "name": rnd.choice(["new-run", "ü", "run-0" if rnd.random() < 0.3 else "zz"]),
                    "stale_tmp": (["long", True, "brace", False, False][i % 5] if i < 10 else rnd.choice(["long", True, "brace", False, False]))}
            # where the results directory lives: every fourth save on another file system than the temp directory (a save that
            # stages its new content in the temp directory can then not rename it into place)
            if i % 4 == 1:
                case["fs"] = "other"
            # names that collide with the paths a save works with (the results file's stem, the file itself, its temporary)
            if i % 6 == 5:
                case["name"] = C20_PATH_NAMES[(i // 6) % len(C20_PATH_NAMES)]
                res.count("name:path-like")
            if i % 8 == 6:
                # data.json is a symbolic link (to a file with the earlier runs; dangling when there are none)
                case["symlink"], case["stale_tmp"] = True, False
                case.pop("fs", None)
                res.count("results-file:symlink")
            if i in C20_SPECIAL_AT.get(tier, {}):
                # results files far above every buffer size: one earlier run of several MiB (quick) / tens of MiB (thorough), or very
                # many earlier runs; crash points are sampled (`sparse`), the byte-level oracle runs, the model line is skipped
                kind_ = C20_SPECIAL_AT[tier][i]
                if kind_ == "many":
                    case["earlier"] = [{"rows": 1, "cols": 2, "seed": rnd.randint(0, 10 ** 6)} for _ in range(160)]
                else:
                    side = {"5MiB": 520, "40MiB": 1480}[kind_]
                    case["earlier"] = [{"rows": 3, "cols": 4, "seed": 5}, {"rows": side, "cols": side, "seed": rnd.randint(0, 10 ** 6)}]
                case["sparse"], case["stale_tmp"] = True, False
                case["new"] = {"rows": 70, "cols": 60, "seed": rnd.randint(0, 10 ** 6)}     # several buffers long: many write operations
                case.pop("fs", None)
                res.count(f"history:{kind_}")
            res.count("results-dir:" + ("other-file-system" if case.get("fs") == "other" and other is not None else "same-file-system"))
            failures, ops = c20_case(res, script, other if case.get("fs") == "other" and other is not None else base, case, f"c{i}")
            all_ops.append(ops)
            nchunks = sum(1 for o in ops if o[0] == "w")
            res.count(f"earlier:{earlier}")
            res.count(f"size:{size}")
            res.count(f"chunks:{min(nchunks, 9)}")
            res.count("site:" + site_key(ops))
            if earlier >= 1 and nchunks >= 2:
                res.nontrivial.add((earlier, size, i))
            if i < 2:
                res.sample({"case": case, "ops": [show_op(o) for o in ops]})
            for what, k, key in failures:
                res.count("oracle-failure:" + key)
                if key not in seen_keys or len(res.violations) < 3:
                    seen_keys.add(key)
                    res.violation(what, replay_dict(case, k, ops, what), key=key)
        if tier == "thorough" and budget.left() > 90:
            strace_crosscheck(res, base, rnd)
    # ---- model side
    bad = script.diff()
    for b in bad:
        res.disagree("crash line", {k: str(b[k])[:600] for k in ("line", "impl", "model")})
    for i, out in enumerate(getattr(script, "outs", [])):
        ctx = script.ctx[i]
        parts = out.split(" ")
        if not parts or not parts[0].startswith("atomic="):
            continue
        atomic = parts[0] == "atomic=1"
        res.count("model:atomicB=" + ("1" if atomic else "0"))
        model_classes = parts[1:]
        if model_classes != ctx["classes"]:
            ks = [k for k, (a, b_) in enumerate(zip(model_classes, ctx["classes"])) if a != b_]
            res.disagree("content left on disk after a crash ≠ model prediction",
                         {"case": ctx["case"], "ops": ctx["ops"], "first_k": ks[:3],
                          "model": [c[:40] for c in model_classes], "impl": [c[:40] for c in ctx["classes"]]})
        safe = all(c in ("old", "new") for c in ctx["classes"])
        if atomic and not safe:
            res.disagree("model says the discipline is atomic but a crash point left a third content", {"case": ctx["case"], "ops": ctx["ops"]})
        if not atomic and safe:
            res.count("note:atomicB=0-but-every-crash-point-safe")
            res.notes.append("an operation list outside the rename discipline was safe at every crash point: " + " ".join(ctx["ops"]))
    return res


def strace_crosscheck(res: StreamResult, base: Path, rnd) -> None:
    """thorough tier: the operations the recorder sees are the system calls the unmodified interpreter makes"""
    if shutil.which("strace") is None:
        res.notes.append("strace not available: cross-check skipped")
        return
    case = {"earlier": [{"rows": 5, "cols": 6, "seed": 1}, {"rows": 9, "cols": 3, "seed": 2}],
            "new": {"rows": 40, "cols": 30, "seed": rnd.randint(0, 10 ** 6)}, "name": "new-run", "stale_tmp": False}
    hist = base / "st_hist"
    build_history(hist, case)
    ops, new, crashed, err, _ = crash_run(hist, base / "st_obs", case, None)
    work = base / "st_work"
    shutil.copytree(hist, work)
    code = ("import sys; sys.path.insert(0, %r); sys.path.insert(0, %r)\n"
            "import corr_store as C\n"
            "from pathlib import Path\n"
            "from incomplete_cooperative.run.save import save_json\n"
            "import os; os.write(2, b'MARK-BEGIN\\n')\n"
            "save_json(Path(%r) / 'data.json', %r, C.det_output(%r))\n"
            "os.write(2, b'MARK-END\\n')\n") % (str(Path(__file__).resolve().parent), str(REPO), str(work), case["name"], case["new"])
    log = base / "strace.txt"
    try:
        p = subprocess.run(["strace", "-f", "-y", "-s", "64", "-o", str(log), "-e",
                            "trace=open,openat,creat,write,pwrite64,writev,rename,renameat,renameat2,unlink,unlinkat,fsync,fdatasync,close,"
                            "truncate,ftruncate,link,linkat,sendfile,copy_file_range",
                            sys.executable, "-c", code], capture_output=True, text=True, timeout=300)
    except Exception as e:   # noqa: BLE001
        res.notes.append(f"strace run failed: {e}")
        return
    if p.returncode != 0 or not log.exists():
        res.notes.append(f"strace run failed rc={p.returncode}: {p.stderr[-300:]}")
        return
    sys_ops = parse_strace(log.read_text(errors="replace"), str(work))
    names: dict = {}
    mine = []
    for o in ops:
        s = op_shape(o, names)
        mine.append((s[0], s[1], len(s[2])) if s[0] == "w" else s)
    res.count("strace:ops", len(sys_ops))
    if sys_ops != mine:
        res.disagree("operations seen by the recorder ≠ system calls of an unmodified interpreter (strace)",
                     {"recorder": [str(x) for x in mine][:40], "strace": [str(x) for x in sys_ops][:40]})
    else:
        res.count("strace:agrees")
    if (work / TARGET).read_bytes() != new:
        res.disagree("bytes written by the traced subprocess ≠ bytes of the observed save", {})


def parse_strace(text: str, root: str) -> list[tuple]:
    import re
    out: list[tuple] = []
    names: dict = {}
    active = False

    def rel(p: str):
        if p == root:
            return "."
        if p.startswith(root + "/"):
            r = _san(p[len(root) + 1:])
            if r == TARGET:
                return r
            return names.setdefault(r, f"t{len(names)}")
        return None

    for line in text.splitlines():
        line = re.sub(r"^\d+\s+", "", line)
        if "MARK-BEGIN" in line:
            active = True
            continue
        if "MARK-END" in line:
            break
        if not active or line.rstrip().endswith("= -1 ENOENT (No such file or directory)") and "openat" not in line:
            continue
        m = re.match(r'openat\(\S+, "([^"]*)", ([A-Z_|0-9]+)(?:, \d+)?\)\s+= (\d+)', line)
        if m:
            r = rel(m.group(1))
            if r is None:
                continue
            fl = m.group(2).split("|")
            if "O_TRUNC" in fl:
                out.append(("ot", r))
            elif "O_CREAT" in fl and "O_EXCL" in fl:
                out.append(("ox", r))
            elif "O_WRONLY" in fl or "O_RDWR" in fl or "O_CREAT" in fl:
                out.append(("ok", r))
            else:
                out.append(("or", r))
            continue
        m = re.match(r'(write|pwrite64|writev)\(\d+<([^>]*)>.*\)\s+= (\d+)$', line)
        if m:
            r = rel(m.group(2))
            if r is not None:
                out.append(("w", r, int(m.group(3))) if m.group(1) == "write" else ("x", r))
            continue
        m = re.match(r'close\(\d+<([^>]*)>\)', line)
        if m:
            r = rel(m.group(1))
            if r is not None:
                out.append(("c", r))
            continue
        m = re.match(r'(fsync|fdatasync)\(\d+<([^>]*)>\)', line)
        if m:
            r = rel(m.group(2))
            if r is not None:
                out.append(("fs", r))
            continue
        m = re.match(r'rename\("([^"]*)", "([^"]*)"\)', line) or \
            re.match(r'renameat2?\(\S+, "([^"]*)", \S+, "([^"]*)"', line)
        if m:
            a, b = rel(m.group(1)), rel(m.group(2))
            if a is not None or b is not None:
                out.append(("mv", a or "unknown", b or "unknown"))
            continue
        m = re.match(r'unlink\("([^"]*)"\)', line) or re.match(r'unlinkat\(\S+, "([^"]*)"', line)
        if m:
            r = rel(m.group(1))
            if r is not None:
                out.append(("rm", r))
            continue
        m = re.match(r'(truncate|link|linkat|creat)\(.*"([^"]*)"', line) or re.match(r'(ftruncate|sendfile|copy_file_range)\(\d+<([^>]*)>', line)
        if m:
            r = rel(m.group(2))
            if r is not None:
                out.append(("x", r))
    return out


# =====================================================================================================
# entry points

def run(tier: str, budget: Budget, rnd, arg: str) -> StreamResult:
    if arg == "C19":
        return run_c19(tier, budget, rnd)
    if arg == "C20":
        return run_c20(tier, budget, rnd)
    raise ValueError(f"corr_store: unknown arg {arg}")


def search(tier, budget: Budget, rnd, arg, disagreements) -> list[dict]:
    """deeper failing-input search on the real code (no model involved)"""
    found: list[dict] = []
    if arg != "C20":
        return found
    with c20_dirs("verif_c20s_") as (base, other):
        for i in range(40):
            if not budget.ok() or found:
                break
            case = {"earlier": [{"rows": rnd.randint(1, 20), "cols": rnd.randint(1, 20), "seed": rnd.randint(0, 10 ** 6)}
                                for _ in range(rnd.randint(0, 6))],
                    "new": {"rows": rnd.randint(1, 80), "cols": rnd.randint(1, 60), "seed": rnd.randint(0, 10 ** 6)},
                    "name": "new-run", "stale_tmp": rnd.choice(["long", True, False])}
            if i % 2 == 1 and other is not None:
                case["fs"] = "other"
            failures, ops = c20_case(None, None, other if case.get("fs") == "other" else base, case, f"s{i}")
            for what, k, key in failures[:1]:
                found.append({"what": what, "replay": replay_dict(case, k, ops, what), "key": key})
    return found


def replay(prop: str, payload: dict):
    inp = payload["input"]
    if prop == "C19" and inp.get("kind") in ("save-history", "command"):
        res = StreamResult("replay")
        base = Path(tempfile.mkdtemp(prefix="verif_c19r_", dir="/tmp"))
        try:
            if inp["kind"] == "save-history":
                c19_history(res, None, base / "h", "r", inp["history"])
            else:
                argv = list(inp["argv"])
                argv[argv.index("--model-dir") + 1] = str(base / "model")
                command_case(res, argv, {"saved": {}, "order": []})
        finally:
            shutil.rmtree(base, ignore_errors=True)
        if res.violations:
            return True, "; ".join(sorted({v["what"] for v in res.violations}))[:600]
        return False, "the replayed input no longer violates the property (" + "; ".join(res.notes)[:200] + ")"
    if prop != "C20" or "case" not in inp:
        return False, "the replay file holds the complete failing input; no re-runner for this kind"
    with c20_dirs("verif_c20r_") as (base, other):
        case = inp["case"]
        k = inp.get("crash_after_operations")
        if case.get("fs") == "other":
            if other is None:
                return False, ("the failing input needs a results directory on another file system than the temp directory; none of "
                               f"{OTHER_FS_CANDIDATES} qualifies on this machine")
            base = other
        hist = base / "hist"
        build_history(hist, case)
        t = hist / TARGET
        old = t.read_bytes() if t.exists() else None
        _, new, _, _, _ = crash_run(hist, base / "w", case, None)
        disk_full = (payload.get("key") or "").endswith("disk-full")
        ops, cur, crashed, err, _ = crash_run(hist, base / "w", case, None, enospc=k) if disk_full else crash_run(hist, base / "w", case, k)
        ok = cur == old or cur == new
        parses = True
        if cur is not None:
            try:
                j = raw_json(cur.decode())
                oj = raw_json(old.decode()) if old is not None else {}
                parses = all(n in j for n in oj)
            except Exception:   # noqa: BLE001
                parses = False
        msg = ((f"save_json with every write failing with ENOSPC from operation {k} on "
                f"({'raised ' + type(err).__name__ if err is not None else 'returned normally'}): " if disk_full else
                f"save_json interrupted after {k} file-system operations ({' '.join(show_op(o) for o in ops)}): ") +
               f"file now {'absent' if cur is None else str(len(cur)) + ' bytes'}, previous "
               f"{'absent' if old is None else str(len(old)) + ' bytes'}, complete new {len(new) if new else 0} bytes; "
               f"old-or-new={ok}, parses-and-keeps-earlier-runs={parses}")
        return (not ok or not parses), msg
