"""Correspondence stream `normalize` (C15): normalize.py / graph_game.py vs ICG.Model.Normalize.

Three sub-streams (two exact ones, compared as strings, and a float one).

*exact*  — integer / dyadic superadditive games (closure construction, non-zero and negative singletons,
  additive, nearly additive = additive + a power-of-two bonus on a few coalitions) whose surplus
  `v(N) − Σ v{i}` is a power of two (or 0), so every `−` and the final `/` of the code are exact in float64;
  and integer weight matrices (junk below the diagonal, to exercise the polishing) whose upper-triangle total
  is a power of two (or 0), as `GraphCooperativeGame` AND as its tabulated `IncompleteCooperativeGame`.
  The real `normalize_game` / `denormalize_game` answers are compared **as strings** with the model
  (`norm icg`, `norm graph`, `norm denorm`, `norm gdenorm`, and the closed form `norm closed`).
  ≈ 10 % malformed: partially known tables (`ValueError` from `get_value(s)`), too-short singleton info
  (`IndexError` in `denormalize_game`); only the error kind is compared.

*tolerance window* (exact) — the repaired `_normalize_icg` treats a game as additive, and stores the zero game,
  when `np.isclose(surplus + Σ, Σ, rtol=1e-9, atol=0)` (Σ = sum of the singleton values), in exact arithmetic
  `|surplus| ≤ Fraction(1e-9)·|Σ|`.  Games `v(c) = Σ_{i∈c} a_i + s·u(c)` with integer / dyadic singletons `a_i` of
  many magnitudes and signs (|Σ| from ~1 to ~2^46, also cancelling to 0), `u` a dyadic convex combination of
  unanimity games (superadditive, zero singletons, `u(N) = 1`) and the surplus `s ≥ 0` placed relative to the
  threshold `Fraction(1e-9)·|Σ|`: 0, deep inside, just below, the last representable value at-or-below it, the
  first one above it, just above, far above (power of two).  A case is kept only if EVERY arithmetic operation of
  `normalize_game` + `denormalize_game` on it has float64 operands and an exactly representable exact result
  (`float_exact_trace`: then the correctly rounded float run IS the exact run — in particular
  `surplus + Σ − Σ` is the exact surplus), and if the one inexact operation, the float product `1e-9*|Σ|`, puts
  the surplus on the same side as the exact product does.  The real answers are compared as strings with the
  model (`norm icg`, every second time with the tolerance passed explicitly as `Fraction(1e-9)`, `norm closed`,
  `norm denorm`).  Oracle, with no tolerance at all: the usual clauses for every case, inside the window
  `0 < s ≤ Fraction(1e-9)·|Σ|` too (there "identically 0" is the clause that must hold; counted as `window:in`);
  the round trip must be exact outside the window and within `1e-9·|Σ|` (+ 8 ulp of the largest value) inside it
  (`ICG.C15.denormalize_window`: the restored value is `v c − w c`).

*float*  — every key of the live `GENERATORS` registry (except `convex`; a generator that raises is out of
  C15's scope and only counted), n = 3..5, seeds from `rnd`; graph games in both representations.  No
  string comparison; the oracle below with tolerance 1e-9 (the library's own `rtol`), and the model's closed
  form on the exact rationals of the input floats with the same tolerance — except where the exact surplus is
  within 1e-9·scale of 0 (there the float result is not determined by exact arithmetic).

Oracle (run on the REAL code for every case, independent of the model), for a game accepted by the
library's own `is_superadditive`:  every singleton 0;  every value in [0,1];  grand coalition 1, or the game
identically 0 (additive input);  `is_superadditive` again;  graph form and tabulated form give the same
values;  `denormalize_game` with the returned info restores the original values (float sub-stream: to
1e-9·max(1, max|v|) + 1e-9·|Σ singletons|, the second term being the code's own additivity tolerance).
A failed clause on a game whose exact surplus is 0 or |surplus| ≤ 1e-9·scale is the float-additive defect,
key `normalize:float-additive-residue`; any other failure has key `normalize:<clause>`.

non-trivial case: n ≥ 3, at least one non-zero singleton or a graph game with ≥ 2 distinct positive weights,
non-zero surplus, and at least 3 distinct normalised values; distinct by (representation, values).
"""
from __future__ import annotations

import warnings
from fractions import Fraction

import numpy as np

import gen_games as G
from common import Budget, Script, StreamResult, err_kind, frac, nlist, rlist, rs

TOL = 1e-9
# seeds known to give (numerically) additive float games: always part of the float sub-stream
PINNED = [("xos3", 3, 49), ("xos2", 3, 5), ("xos2", 4, 0)]
KEY_RESIDUE = "normalize:float-additive-residue"
RTOL = Fraction(1e-9)       # exact value of the float literal `1e-9` in `_normalize_icg` (= ICG.Norm.defaultRtol)


# ------------------------------------------------------------------------------------------------
# real-code helpers

def _mods():
    from incomplete_cooperative import normalize as NZ
    from incomplete_cooperative.coalitions import Coalition
    from incomplete_cooperative.game import IncompleteCooperativeGame
    from incomplete_cooperative.game_properties import is_superadditive
    from incomplete_cooperative.graph_game import GraphCooperativeGame
    return NZ, Coalition, IncompleteCooperativeGame, is_superadditive, GraphCooperativeGame


def table_game(n, values):
    _, _, ICG, _, _ = _mods()
    g = ICG(n)
    g.set_values(np.array([float(x) for x in values], dtype=float))
    return g


def exact_surplus(values, n):
    """(surplus, scale) of a value vector, in exact arithmetic on the given numbers"""
    fv = [frac(x) for x in values]
    singles = [fv[1 << i] for i in range(n)]
    surplus = fv[-1] - sum(singles, Fraction(0))
    scale = max([abs(x) for x in fv] + [sum((abs(s) for s in singles), Fraction(0))] + [Fraction(0)])
    return surplus, scale


def oracle(n, values, matrix=None, exact=False):
    """Run the property's clauses on the real code.  Returns a list of (clause, detail).

    `values`: the game's values (floats); `matrix`: the weight matrix when the game is a graph game
    (then both representations are normalised and compared).  `exact=True`: no tolerance at all.
    """
    NZ, Coalition, ICG, is_sa, GCG = _mods()
    N = 2 ** n
    orig = np.array([float(x) for x in values], dtype=float)
    scale = float(max(1.0, np.max(np.abs(orig)))) if not exact else 0.0
    tol = 0.0 if exact else TOL
    atol = tol * max(1.0, scale)
    # round trip: a game the code treats as additive (|surplus| <= 1e-9·|Σ singletons|) is restored without its
    # surplus, i.e. to within 1e-9·|Σ|; exact inputs get that allowance only inside the window
    surplus_x, _ = exact_surplus(orig, n)
    sigma_x = abs(sum((frac(orig[1 << i]) for i in range(n)), Fraction(0)))
    if exact:
        in_window = 0 < abs(surplus_x) <= RTOL * sigma_x
        rt_tol = (float(RTOL * sigma_x) * (1 + 1e-12) + 8 * np.finfo(float).eps * float(np.max(np.abs(orig)))) if in_window else 0.0
    else:
        rt_tol = tol * max(1.0, scale) + TOL * float(sigma_x) * (1 + 1e-9)
    bad = []
    reps = [("table", table_game(n, orig))]
    if matrix is not None:
        reps.append(("graph", GCG(np.array(matrix, dtype=float))))
    normed = {}
    for name, g in reps:
        if not is_sa(g):
            return [("out-of-scope", name)]
        with warnings.catch_warnings():
            warnings.simplefilter("ignore")
            info = NZ.normalize_game(g)
            vals = np.array(g.get_values(), dtype=float)
        normed[name] = vals
        if name == "table":
            lo = np.array(g.get_lower_bounds(), dtype=float)
            if not np.array_equal(lo, vals, equal_nan=True):
                bad.append(("columns-differ", {"rep": name}))
        if not np.all(np.isfinite(vals)):
            bad.append(("not-finite", {"rep": name, "values": vals.tolist()}))
            continue
        sing = [vals[1 << i] for i in range(n)]
        if any(abs(s) > tol for s in sing):
            bad.append(("singleton-not-zero", {"rep": name, "singletons": [float(s) for s in sing]}))
        if np.min(vals) < -tol or np.max(vals) > 1 + tol:
            bad.append(("outside-unit-interval", {"rep": name, "min": float(np.min(vals)), "max": float(np.max(vals))}))
        if not (abs(vals[-1] - 1) <= tol or float(np.max(np.abs(vals))) <= atol):
            bad.append(("grand-not-one-nor-all-zero", {"rep": name, "grand": float(vals[-1]),
                                                      "maxabs": float(np.max(np.abs(vals)))}))
        # superadditive again: exact inputs → the library's own predicate; floats → the same inequality with the
        # absolute tolerance 1e-9 (the library's predicate has atol = 0 and so rejects a −1e-17 residue at a
        # coalition whose exact normalised value is 0; that is float rounding, not a violation — DESIGN 5/C15)
        if exact:
            if not is_sa(g):
                bad.append(("not-superadditive-after", {"rep": name}))
        else:
            w = sa_witness(vals, n, tol)
            if w is not None:
                bad.append(("not-superadditive-after", {"rep": name, "a": w[0], "b": w[1], "excess": w[2]}))
            elif not is_sa(g):
                LIB_REJECTS.append(name)
        # de-normalise with the returned information
        with warnings.catch_warnings():
            warnings.simplefilter("ignore")
            NZ.denormalize_game(g, info)
            back = np.array(g.get_values(), dtype=float)
        if not np.all(np.abs(back - orig) <= (rt_tol if name == "table" else tol * max(1.0, scale))):
            bad.append(("denormalize-does-not-restore", {"rep": name,
                                                         "maxdiff": float(np.max(np.abs(back - orig)))}))
    if len(normed) == 2 and all(np.all(np.isfinite(v)) for v in normed.values()):
        if not np.all(np.abs(normed["table"] - normed["graph"]) <= tol):
            bad.append(("graph-differs-from-table", {"maxdiff": float(np.max(np.abs(normed["table"] - normed["graph"])))}))
    return bad


LIB_REJECTS: list = []


def scale_oracle(n, values, matrix):
    """`oracle` for games of extreme magnitude: the scale-free clauses as usual; the round trip relative to the game's own
    magnitude (|back − orig| ≤ 1e-9·max|orig| + 4 sub-normal steps) instead of relative to max(1, max|orig|)."""
    NZ, Coalition, ICG, is_sa, GCG = _mods()
    bad = [b for b in oracle(n, values, matrix) if b[0] != "denormalize-does-not-restore"]
    if bad and bad[0][0] == "out-of-scope":
        return bad
    orig = np.array([float(x) for x in values], dtype=float)
    lim = TOL * float(np.max(np.abs(orig))) + 4 * 5e-324
    for name, g in (("table", table_game(n, orig)), ("graph", GCG(np.array(matrix, dtype=float)))):
        with warnings.catch_warnings():
            warnings.simplefilter("ignore")
            info = NZ.normalize_game(g)
            NZ.denormalize_game(g, info)
            back = np.array(g.get_values(), dtype=float)
        if not (np.all(np.isfinite(back)) and np.all(np.abs(back - orig) <= lim)):
            bad.append(("denormalize-does-not-restore", {"rep": name, "maxdiff": float(np.nanmax(np.abs(back - orig))), "allowed": lim}))
    return bad


def sa_witness(vals, n, tol):
    """first (a, b, excess) with a ∩ b = ∅ and v(a) + v(b) > v(a ∪ b) + tol, or None"""
    N = 2 ** n
    for a in range(1, N):
        rest = (N - 1) ^ a
        for b in G.submasks(rest):
            if b > a and vals[a] + vals[b] > vals[a | b] + tol:
                return a, b, float(vals[a] + vals[b] - vals[a | b])
    return None


def classify(n, values, clause):
    surplus, scale = exact_surplus(values, n)
    if surplus == 0 or abs(surplus) <= Fraction(TOL) * scale:
        return KEY_RESIDUE
    return f"normalize:{clause}"


PER_KEY: dict = {}


def report(res, n, values, matrix, bad, origin):
    for clause, detail in bad:
        if clause == "out-of-scope":
            continue
        key = classify(n, values, clause)
        PER_KEY[key] = PER_KEY.get(key, 0) + 1
        res.count(f"violations:{key}")
        if PER_KEY[key] > 3:         # keep room in the (capped) violation list for other failing sites
            break
        res.violation(f"normalisation clause failed: {clause} ({detail})",
                      {"kind": "values", "n": n, "values": [float(x) for x in values],
                       "values_exact": [rs(x) for x in values],
                       "matrix": None if matrix is None else np.array(matrix, dtype=float).tolist(),
                       "origin": origin, "clause": clause}, key=key)
        break    # one violation per case is enough; the first failed clause names it


# ------------------------------------------------------------------------------------------------
# exact inputs

def pow2_at_least(x: Fraction) -> Fraction:
    p = Fraction(1, 1024)
    while p < x:
        p *= 2
    return p


def exact_game(n, rnd):
    """(kind, values) — exact SA game whose surplus is 0 or a power of two"""
    kind = rnd.choice(["int", "dyadic", "negsingle", "additive", "nearly", "nearly", "big", "zero-singles"])
    N = 2 ** n
    if kind == "additive":
        v = G.additive_game(n, rnd, rnd.choice(["int", "dyadic"]))
        if rnd.random() < 0.5:
            sh = [Fraction(rnd.randint(-8, 8), 4) for _ in range(n)]
            v = [v[c] + sum((sh[i] for i in range(n) if c >> i & 1), Fraction(0)) for c in range(N)]
    elif kind == "nearly":
        v = G.additive_game(n, rnd, rnd.choice(["int", "dyadic"]))
        sh = [Fraction(rnd.randint(-8, 8), 4) for _ in range(n)]
        v = [v[c] + sum((sh[i] for i in range(n) if c >> i & 1), Fraction(0)) for c in range(N)]
        eps = Fraction(1, rnd.choice([1, 8, 256, 1024]))
        # bonus on an up-set generated by a few coalitions keeps superadditivity when the bonus is the same
        # for every member of the up-set only if … simplest: bonus on the grand coalition, and optionally a
        # convex bonus eps·(|S|−1) on all coalitions (convex ⇒ superadditive)
        if rnd.random() < 0.5:
            v = [v[c] + (eps * (G.popcount(c) - 1) if c else 0) for c in range(N)]
        else:
            v[N - 1] += eps
    elif kind == "negsingle":
        v = G.sa_game(n, rnd, "int", neg_singletons=True)
    elif kind == "big":
        v = G.sa_game(n, rnd, "big")
    elif kind == "zero-singles":
        v = G.sa_game(n, rnd, "int")
        sv = [v[1 << i] for i in range(n)]
        v = [v[c] - sum((sv[i] for i in range(n) if c >> i & 1), Fraction(0)) for c in range(N)]
    else:
        v = G.sa_game(n, rnd, kind)
    surplus, _ = exact_surplus(v, n)
    if surplus > 0 and n >= 2:
        v[N - 1] += pow2_at_least(surplus) - surplus      # raising v(N) keeps superadditivity
    return kind, v


def exact_matrix(n, rnd):
    """integer matrix (junk below the diagonal) whose upper-triangle total is 0 or a power of two"""
    kind = rnd.choice(["dense", "sparse", "zero", "dyadic"])
    den = 8 if kind == "dyadic" else 1
    M = [[Fraction(0)] * n for _ in range(n)]
    for i in range(n):
        for j in range(n):
            if j > i:
                if kind == "zero":
                    w = 0
                elif kind == "sparse":
                    w = rnd.randint(1, 9) if rnd.random() < 0.4 else 0
                else:
                    w = rnd.randint(0, 9)
                M[i][j] = Fraction(w, den)
            else:
                M[i][j] = Fraction(rnd.randint(0, 9))          # polished away at construction
    total = sum(M[i][j] for i in range(n) for j in range(i + 1, n))
    if total > 0:
        i, j = rnd.choice([(i, j) for i in range(n) for j in range(i + 1, n)])
        M[i][j] += pow2_at_least(total) - total
    return kind, M


# ------------------------------------------------------------------------------------------------
# the tolerance window of the repaired `_normalize_icg`

def float_exact_trace(n, v):
    """Follow every arithmetic operation of `normalize_game` and `denormalize_game` on the complete table of the
    exact values `v` in exact arithmetic and check that each operand and each exact result is a float64.  IEEE
    arithmetic is correctly rounded, so then the float run produces exactly these numbers.  The only inexact
    operation is the float product `1e-9 * |Σ|` inside `np.isclose`; it is evaluated in float here, and the case is
    rejected if it puts the surplus on the other side than the exact product `Fraction(1e-9)·|Σ|` does.

    Returns (reason, additive): reason None = every step is exact; additive = the exact verdict of the guard.
    """
    N = 2 ** n
    ok = common_is_exact
    if not all(ok(x) for x in v):
        return "input", None
    singles = [v[1 << i] for i in range(n)]
    total = Fraction(0)
    for x in singles:                       # np.sum: (pairwise) float additions; all partial sums must be exact
        total += x
        if not ok(total):
            return "sum", None
    if not all(ok(sum(singles[i:j], Fraction(0))) for i in range(n) for j in range(i + 1, n + 1)):
        return "sum", None
    surplus = v[N - 1] - total
    if not ok(surplus) or not ok(surplus + total) or (surplus + total) - total != surplus:
        return "surplus", None
    # the float computation of the guard, literally, and its comparison with the exact one
    fs, ft = float(surplus), float(total)
    if Fraction((fs + ft) - ft) != surplus:
        return "surplus", None
    additive_float = bool(abs((fs + ft) - ft) <= 0.0 + 1e-9 * abs(ft))
    additive = abs(surplus) <= RTOL * abs(total)
    if additive_float != additive:
        return "threshold-rounding", None
    w = list(v)
    for i in range(n):
        sv = w[1 << i]
        for c in range(N):
            if c >> i & 1:
                w[c] = w[c] - sv
                if not ok(w[c]):
                    return "subtract", None
    g = w[N - 1]
    if additive:
        w = [Fraction(0)] * N                # game.set_values(np.zeros(2**n))
    elif g != 0:
        w = [x / g for x in w]
        if not all(ok(x) for x in w):
            return "divide", None
    for c in range(N):
        val = w[c] * surplus
        if not ok(val):
            return "denormalize", None
        for i in range(n):
            if c >> i & 1:
                val += singles[i]
                if not ok(val):
                    return "denormalize", None
    return None, additive


def common_is_exact(x):
    from common import is_exact_float
    return is_exact_float(Fraction(x))


WINDOW_POSITIONS = ["zero", "deep", "below", "at-", "at+", "above", "far"]


def window_game(n, rnd, pos):
    """(label, values) — `v(c) = Σ_{i∈c} a_i + s·u(c)` with the surplus `s` placed at `pos` relative to the
    threshold `Fraction(1e-9)·|Σ a_i|`; see the module docstring."""
    N = 2 ** n
    skind = rnd.choice(["pow2", "eqpow2", "int", "int", "mixed", "cancel", "dyadic", "small"])
    if skind == "pow2":
        a = [Fraction(2) ** rnd.randint(28, 46) for _ in range(n)]
    elif skind == "eqpow2":
        a = [Fraction(2) ** rnd.randint(0, 46)] * n
    elif skind == "int":
        top = rnd.choice([12, 24, 36, 46])
        a = [Fraction(rnd.randint(2 ** (top - 2), 2 ** top)) for _ in range(n)]
    elif skind == "mixed":
        top = rnd.choice([12, 30, 44])
        a = [Fraction(rnd.choice([-1, 1, 1]) * rnd.randint(2 ** (top - 3), 2 ** top)) for _ in range(n)]
    elif skind == "cancel":                  # Σ cancels to something small (or to 0: the window is then {0})
        top = rnd.choice([20, 40])
        a = [Fraction(rnd.randint(2 ** (top - 2), 2 ** top)) for _ in range(n - 1)]
        a.append(-sum(a, Fraction(0)) + rnd.choice([0, 0, 1, 2 ** 10, 2 ** (top - 4)]))
        rnd.shuffle(a)
    elif skind == "dyadic":
        a = [Fraction(rnd.randint(1, 2 ** 20), 2 ** rnd.randint(1, 10)) for _ in range(n)]
    else:
        a = [Fraction(rnd.randint(0, 1000)) for _ in range(n)]
    total = sum(a, Fraction(0))
    thr = RTOL * abs(total)
    # shape: dyadic convex combination of unanimity games on coalitions with at least two players
    big = [c for c in range(N) if G.popcount(c) >= 2]
    j = 0 if pos in ("at+", "above") or rnd.random() < 0.4 else rnd.choice([1, 2, 3])
    parts = 2 ** j
    ts = [rnd.choice(big) for _ in range(parts)]
    u = [Fraction(sum(1 for t in ts if t & c == t), parts) for c in range(N)]
    u[N - 1] = Fraction(1)
    # granularity: every partial sum of |a_i| plus the surplus stays below 2^E; s is a multiple of 2^(E-53+j)
    mag = sum((abs(x) for x in a), Fraction(0)) + 2 * thr + 1
    E = 0
    while Fraction(2) ** E <= 2 * mag:
        E += 1
    gran = Fraction(2) ** (E - 53 + j)
    steps = thr // gran                       # number of grid points in (0, thr]
    if pos == "zero":
        s = Fraction(0)
    elif pos == "deep":
        s = gran * rnd.randint(1, max(1, int(steps) // 2 ** rnd.randint(4, 20)))
    elif pos == "below":
        s = gran * rnd.randint(max(1, int(steps) // 2), max(1, int(steps)))
    elif pos == "at-":
        s = gran * steps
    elif pos == "at+":
        s = gran * (steps + 1)
    elif pos == "above":
        s = gran * rnd.randint(int(steps) + 1, 2 * int(steps) + 2)
    else:
        s = pow2_at_least(max(4 * thr, gran * 4)) * rnd.choice([1, 1, 2, 1024])
    v = [sum((a[i] for i in range(n) if c >> i & 1), Fraction(0)) + s * u[c] for c in range(N)]
    return f"{skind}/j{j}", v, s, thr


def table_answer(info, g):
    return f"I={rs(info[0])} S={rlist(info[1])} L={rlist(g.get_lower_bounds())} U={rlist(g.get_upper_bounds())}"


# ------------------------------------------------------------------------------------------------

def run(tier: str, budget: Budget, rnd, arg) -> StreamResult:
    NZ, Coalition, ICG, is_sa, GCG = _mods()
    from incomplete_cooperative.generators import GENERATORS

    res = StreamResult("normalize")
    PER_KEY.clear()
    script = Script()
    float_checks = []        # (line_no, real normalised values, ctx)
    n_exact = 1200 if tier == "quick" else 40000
    seeds_per = 4 if tier == "quick" else 60
    seen = set()

    # ---------------------------------------------------------------- exact sub-stream
    for k in range(n_exact):
        if budget.left() < budget.seconds * 0.5:
            res.notes.append(f"exact sub-stream stopped after {k} cases (half of the budget)")
            break
        n = rnd.choice([1, 2, 3, 3, 4, 4, 5])
        N = 2 ** n
        mode = rnd.random()
        if mode < 0.62:
            kind, v = exact_game(n, rnd)
            fv = [float(x) for x in v]
            g = table_game(n, fv)
            try:
                info = NZ.normalize_game(g)
                ans = table_answer(info, g)
            except Exception as e:    # a full table never raises
                ans = err_kind(e)
                res.violation(f"normalize_game raised {type(e).__name__} on a complete game",
                              {"kind": "values", "n": n, "values": fv}, key="normalize:raises")
                info = None
            ctx = {"n": n, "values": [rs(x) for x in v], "kind": kind}
            script.add(f"norm icg {n} {rlist(v)}", ans, ctx)
            res.count(f"exact:icg:{kind}")
            if info is not None:
                normed = [frac(x) for x in g.get_values()]
                script.add(f"norm closed {n} {rlist(v)}", f"V={rlist(normed)}", ctx)
                # de-normalise (real) and compare with the model's de-normalisation of the same table
                NZ.denormalize_game(g, info)
                script.add(f"norm denorm {n} {rs(info[0])} {rlist(info[1])} {rlist(normed)}",
                           f"L={rlist(g.get_lower_bounds())} U={rlist(g.get_upper_bounds())}", ctx)
                surplus, _ = exact_surplus(v, n)
                res.count("exact:surplus-zero" if surplus == 0 else "exact:surplus-pow2")
                if n >= 3 and surplus != 0 and any(v[1 << i] != 0 for i in range(n)) and len(set(normed)) >= 3:
                    key = ("t", tuple(v))
                    if key not in seen:
                        seen.add(key)
                        res.nontrivial.add(key)
            report(res, n, fv, None, oracle(n, fv, exact=True), f"exact:{kind}")
            res.sample({"n": n, "kind": kind, "values": [rs(x) for x in v], "answer": ans})
        elif mode < 0.88:
            kind, M = exact_matrix(n, rnd)
            flat = [M[i][j] for i in range(n) for j in range(n)]
            gg = GCG(np.array([[float(x) for x in row] for row in M], dtype=float))
            before = [frac(x) for x in gg.get_values()]
            script.add(f"norm gtable {n} {rlist(flat)}", f"V={rlist(before)}", {"n": n, "matrix": [rs(x) for x in flat]})
            # ---- the graph representation is a game like the tabulated one: value = sum of the weights inside the coalition,
            # single / bulk getters agree, copy is independent, negation negates, sum adds, == compares values (oracle on the
            # real code; exact: integer / dyadic weights)
            gctx = {"n": n, "matrix": [rs(x) for x in flat], "kind": kind}
            want = [sum((M[i][j] for i in range(n) for j in range(i + 1, n) if c >> i & 1 and c >> j & 1), Fraction(0))
                    for c in range(2 ** n)]
            try:
                one = [frac(gg.get_value(Coalition(c))) for c in range(2 ** n)]
                some_ids = [rnd.randrange(2 ** n) for _ in range(3)]
                some = [frac(x) for x in gg.get_values([Coalition(c) for c in some_ids])]
                cp = gg.copy()
                ng = -gg
                kind2, M2 = exact_matrix(n, rnd)
                g2 = GCG(np.array([[float(x) for x in row] for row in M2], dtype=float))
                v2 = [frac(x) for x in g2.get_values()]
                sm = gg + g2
                facts = {
                    "value = sum of the weights of the pairs inside the coalition": before == want and one == want
                    and some == [want[c] for c in some_ids],
                    "copy has the same values and compares equal": [frac(x) for x in cp.get_values()] == before and (cp == gg) is True,
                    "negation negates every value and is an involution": [frac(x) for x in ng.get_values()] == [-x for x in before]
                    and [frac(x) for x in (-ng).get_values()] == before,
                    "sum adds the values": [frac(x) for x in sm.get_values()] == [a + b for a, b in zip(before, v2)],
                    "== between graph games is equality of values": (gg == g2) == (before == v2) and (gg == gg) is True,
                    "== with the tabulated form": (gg == table_game(n, before)) is True
                    and (gg == table_game(n, [x + (1 if i_ == 2 ** n - 1 else 0) for i_, x in enumerate(before)])) is False,
                }
                cp._graph_matrix[0, n - 1] += 1.0
                facts["copy is independent of the original"] = [frac(x) for x in gg.get_values()] == before
                for what_, ok_ in facts.items():
                    if not ok_:
                        res.violation(f"graph game: {what_} — fails", dict(gctx, other_matrix=[[rs(x) for x in row] for row in M2]),
                                      key="graph:" + what_.split(" ")[0])
                res.count("graph:algebra")
            except Exception as ex:      # noqa: BLE001
                res.violation(f"graph game: a basic operation raised {type(ex).__name__}: {ex}", gctx, key="graph:raised")
            info = NZ.normalize_game(gg)
            ans = (f"I={rs(info[0])} S={rlist(info[1])} M={rlist(gg._graph_matrix.flatten())} "
                   f"V={rlist(gg.get_values())}")
            ctx = {"n": n, "matrix": [rs(x) for x in flat], "kind": kind}
            script.add(f"norm graph {n} {rlist(flat)}", ans, ctx)
            # the tabulated form through the table normaliser must give the same values
            tg = table_game(n, before)
            tinfo = NZ.normalize_game(tg)
            script.add(f"norm icg {n} {rlist(before)}", table_answer(tinfo, tg), ctx)
            mat_after = [frac(x) for x in gg._graph_matrix.flatten()]
            NZ.denormalize_game(gg, info)
            script.add(f"norm gdenorm {n} {rs(info[0])} {rlist(mat_after)}",
                       f"M={rlist(gg._graph_matrix.flatten())} V={rlist(gg.get_values())}", ctx)
            res.count(f"exact:graph:{kind}")
            report(res, n, before, [[float(x) for x in row] for row in M],
                   oracle(n, before, [[float(x) for x in row] for row in M], exact=True), f"exact:graph:{kind}")
            ws = {M[i][j] for i in range(n) for j in range(i + 1, n) if M[i][j] > 0}
            if n >= 3 and len(ws) >= 2 and len(set(before)) >= 3:
                key = ("g", tuple(flat))
                if key not in seen:
                    seen.add(key)
                    res.nontrivial.add(key)
        elif mode < 0.95:
            # malformed: partially known table
            kind, v = exact_game(n, rnd)
            ids = sorted(rnd.sample(range(N), rnd.randint(0, N)))
            if rnd.random() < 0.5:
                ids = sorted(set(ids) | set(G.minimal_ids(n)))
            vals = [v[c] for c in ids]
            g = ICG(n)
            try:
                g.set_known_values([float(x) for x in vals], [Coalition(c) for c in ids])
                info = NZ.normalize_game(g)
                ans = table_answer(info, g)
            except Exception as e:
                ans = err_kind(e)
            if not ans.startswith("err") and not g.full:
                ans = None     # rows of unknown coalitions are not determined by the property
            script.add(f"norm icgpart {n} {nlist(ids)} {rlist(vals)}", ans, {"n": n, "ids": ids, "values": [rs(x) for x in vals]})
            res.count(f"exact:partial:{'ok' if ans is None or not ans.startswith('err') else ans}")
        else:
            # malformed: singleton info too short for de-normalisation
            kind, v = exact_game(n, rnd)
            singles = [Fraction(rnd.randint(-4, 4)) for _ in range(rnd.randint(0, n))]
            gval = Fraction(rnd.choice([0, 1, 2, 4]))
            g = table_game(n, v)
            try:
                NZ.denormalize_game(g, (float(gval), np.array([float(x) for x in singles], dtype=float)))
                ans = f"L={rlist(g.get_lower_bounds())} U={rlist(g.get_upper_bounds())}"
            except Exception as e:
                ans = err_kind(e)
            script.add(f"norm denorm {n} {rs(gval)} {rlist(singles)} {rlist(v)}", ans,
                       {"n": n, "g": rs(gval), "singles": [rs(x) for x in singles], "values": [rs(x) for x in v]})
            res.count(f"exact:denorm-short:{'ok' if not ans.startswith('err') else ans}")
        res.evaluations += 1

    # ---------------------------------------------------------------- tolerance-window sub-stream (exact)
    n_window = 420 if tier == "quick" else 12000
    worst_rt = Fraction(0)
    for k in range(n_window):
        if budget.left() < budget.seconds * 0.35:
            res.notes.append(f"tolerance-window sub-stream stopped after {k} cases")
            break
        n = rnd.choice([2, 2, 3, 3, 4, 5])
        N = 2 ** n
        pos = WINDOW_POSITIONS[k % len(WINDOW_POSITIONS)]
        label, v, s, thr = window_game(n, rnd, pos)
        reason, additive = float_exact_trace(n, v)
        where = "zero" if s == 0 else ("in" if s <= thr else "out")
        if reason is not None:
            res.count(f"window:dropped:not-float-exact:{reason}")
            continue
        assert additive == (where != "out")
        fv = [float(x) for x in v]
        g = table_game(n, fv)
        ctx = {"n": n, "values": [rs(x) for x in v], "kind": f"window:{pos}:{label}", "surplus": rs(s),
               "threshold": rs(thr)}
        try:
            info = NZ.normalize_game(g)
            ans = table_answer(info, g)
        except Exception as e:    # a full table never raises
            ans, info = err_kind(e), None
            res.violation(f"normalize_game raised {type(e).__name__} on a complete game",
                          {"kind": "values", "n": n, "values": fv, "values_exact": [rs(x) for x in v]},
                          key="normalize:raises")
        line = f"norm icg {n} {rlist(v)}" + (f" {rs(RTOL)}" if k % 2 else "")
        script.add(line, ans, ctx)
        res.count(f"window:{where}")
        res.count(f"window:position:{pos}:{where}")
        if info is not None:
            normed = [frac(x) for x in g.get_values()]
            script.add(f"norm closed {n} {rlist(v)}", f"V={rlist(normed)}", ctx)
            # the real code's branch against the exact window (only counted: the property does not fix the
            # tolerance; a different branch shows up as a disagreement with the model)
            if (normed[N - 1] == 1) != (where == "out") or (where != "out" and any(x != 0 for x in normed)):
                res.count("window:code-branch-differs-from-exact-window")
            NZ.denormalize_game(g, info)
            back = [frac(x) for x in g.get_lower_bounds()]
            script.add(f"norm denorm {n} {rs(info[0])} {rlist(info[1])} {rlist(normed)}",
                       f"L={rlist(back)} U={rlist(g.get_upper_bounds())}", ctx)
            if where == "in":
                err = max(abs(b - x) for b, x in zip(back, v))
                res.count("window:in:roundtrip-error-is-the-surplus" if err == s else "window:in:roundtrip-error-other")
                if thr:
                    worst_rt = max(worst_rt, err / thr)
            report(res, n, fv, None, oracle(n, fv, exact=True), f"window:{pos}:{label}")
            if where == "out" and n >= 3 and any(v[1 << i] != 0 for i in range(n)) and len(set(normed)) >= 3:
                key = ("w", tuple(v))
                if key not in seen:
                    seen.add(key)
                    res.nontrivial.add(key)
        if k < 14:
            res.sample({"n": n, "kind": ctx["kind"], "values": ctx["values"], "surplus/threshold":
                        (float(s / thr) if thr else None), "answer": ans}, limit=6)
        res.evaluations += 1
    if worst_rt:
        res.notes.append("inside the tolerance window the round trip returns the game without its surplus: largest "
                         f"error / (Fraction(1e-9)*|sum of singletons|) seen = {float(worst_rt):.6g} (must be <= 1)")

    # ---------------------------------------------------------------- float sub-stream
    keys = [k for k in GENERATORS if k != "convex"]
    raised = {}
    done_float = 0
    todo = [(key, n, seed) for key, n, seed in PINNED if key in GENERATORS]
    todo += [(key, n, None) for rep in range(seeds_per) for key in keys for n in (3, 4, 5)]
    for key, n, seed in todo:
        for _ in (0,):
            for _ in (0,):
                if not budget.ok():
                    break
                seed = rnd.randrange(2 ** 31) if seed is None else seed
                try:
                    with warnings.catch_warnings():
                        warnings.simplefilter("ignore")
                        game = GENERATORS[key](n, np.random.default_rng(seed))
                        values = np.array(game.get_values(), dtype=float)
                except Exception as e:      # C10's business, not C15's
                    raised[key] = type(e).__name__
                    continue
                matrix = game._graph_matrix.copy() if isinstance(game, GCG) else None
                origin = {"generator": key, "n": n, "seed": seed}
                bad = oracle(n, values, matrix)
                if bad and bad[0][0] == "out-of-scope":
                    res.count("float:out-of-scope")
                    continue
                report(res, n, values, matrix, bad, origin)
                res.count(f"float:{'graph' if matrix is not None else 'table'}")
                surplus, scale = exact_surplus(values, n)
                near_additive = surplus == 0 or abs(surplus) <= Fraction(TOL) * scale
                if near_additive:
                    res.count("float:near-additive")
                else:
                    g = table_game(n, values)
                    with warnings.catch_warnings():
                        warnings.simplefilter("ignore")
                        NZ.normalize_game(g)
                    script.add(f"norm closed {n} {rlist(values)}", None, origin)
                    float_checks.append((len(script) - 1, np.array(g.get_values(), dtype=float), origin))
                    if len(set(np.round(g.get_values(), 9))) >= 3 and (matrix is not None or any(values[1 << i] != 0 for i in range(n))):
                        res.nontrivial.add(("f", key, n, seed))
                res.evaluations += 1
                done_float += 1
    if LIB_REJECTS:
        res.count("float:library-is_superadditive(atol=0)-rejects-normalised-game-by-rounding-residue", len(LIB_REJECTS))
        del LIB_REJECTS[:]
    if raised:
        res.notes.append("generators that raised (out of C15's scope, see C10): " + ", ".join(f"{k}:{v}" for k, v in sorted(raised.items())))
    res.count("float:cases", done_float)

    # ---------------------------------------------------------------- large player counts (oracle on the real code only)
    # n = 13 (thorough: 13, 14): coalition ids beyond 2^12 — table games with non-zero singleton values and cancelling
    # mixed-sign singletons; integer values, judged with the float tolerance (the surplus is not a power of two)
    for n_big in ((13, 15) if tier == "quick" else (13, 14, 15, 16)):
        for variant in (("positive", "cancelling") if n_big <= 14 else ("positive",)):
            if budget.left() < 12:
                res.notes.append("large-n normalisation cases skipped (budget)")
                break
            w = [rnd.randint(1, 9) for _ in range(n_big)]
            if variant == "cancelling":      # singleton values that are not all zero but sum to exactly 0
                w = [rnd.randint(1, 9) for _ in range(n_big - 1)]
                w = [x if i % 2 else -x for i, x in enumerate(w)]
                w.append(-sum(w))
            k_ = rnd.choice([2, 3, 4])
            vals = [float(sum(w[i] for i in range(n_big) if c >> i & 1) + k_ * (G.popcount(c) * (G.popcount(c) - 1) // 2))
                    for c in range(2 ** n_big)]
            bad_big = oracle(n_big, vals, None, exact=False)
            # closed form on a sample of coalitions
            if not bad_big:
                NZ, Coalition_, ICG_, _, _ = _mods()
                gb = table_game(n_big, vals)
                with warnings.catch_warnings():
                    warnings.simplefilter("ignore")
                    NZ.normalize_game(gb)
                got = gb.get_values()
                surplus_b = vals[-1] - sum(vals[1 << i] for i in range(n_big))
                for c in [rnd.randrange(2 ** n_big) for _ in range(200)] + [2 ** n_big - 1, 2 ** 12, 2 ** 12 + 1]:
                    want_c = (vals[c] - sum(vals[1 << i] for i in range(n_big) if c >> i & 1)) / surplus_b
                    if abs(float(got[c]) - want_c) > 1e-9:
                        bad_big = [("closed-form", {"coalition": c, "got": float(got[c]), "expected": want_c})]
                        break
            report(res, n_big, vals, None, bad_big, f"large-n:{variant}")
            res.evaluations += 1
            res.count(f"large-n:{n_big}:{variant}")
    # ---------------------------------------------------------------- scales (oracle on the real code only)
    # the grand value NEAR a special constant (1 ± 2^-k, 1 + 3e-6: "already normalised?", 2^-k above 0) and at extreme
    # magnitudes (sub-normal totals ~1e-310, 2^-1040, and 1e300): graph games in both representations and the same shapes as
    # table games with non-zero singletons.  The clauses are scale-free (values in [0,1], grand 1, graph = table), so they are
    # judged with the usual tolerance; only the round trip is judged relative to the game's own magnitude.
    targets = [1 + 2.0 ** -18, 1 - 2.0 ** -20, 1 + 3e-6, 1 + 1e-12, 1 - 1e-7, 2.0 ** -30, 1e-310, 2.0 ** -1040, 3e-320, 1e-200, 1e300, 2.0 ** 600]
    for ti, target in enumerate(targets if tier == "quick" else targets * 4):
        if budget.left() < 6:
            res.notes.append("scale cases skipped (budget)")
            break
        n_s = 3 + (ti % 3)
        Mx = np.zeros((n_s, n_s))
        for a in range(n_s):
            for b in range(a + 1, n_s):
                Mx[a, b] = rnd.choice([0, 1, 1, 2, 3, 5]) if rnd.random() < 0.8 else 0
        if not Mx.any():
            Mx[0, n_s - 1] = 1
        Mx = Mx * (target / Mx.sum())                       # float scaling: the total is `target` up to rounding
        if ti % 3 == 1:
            # entries on and below the diagonal are ignored by the library (polished away at construction): inf / nan there
            # (a distance matrix with an infinite diagonal, a half-filled matrix) must not reach any value
            for a in range(n_s):
                for b in range(a + 1):
                    Mx[a, b] = [np.inf, np.nan, -np.inf, 7.0][(a + b + ti) % 4]
            res.count("scale:non-finite-junk-below-the-diagonal")
        gg0 = GCG(Mx.copy())
        vals_g = [float(x) for x in gg0.get_values()]
        tot = vals_g[-1]
        if not (tot > 0 and np.isfinite(tot)):
            continue
        bad_s = scale_oracle(n_s, vals_g, Mx)
        report(res, n_s, vals_g, Mx, bad_s, f"scale:{target!r}")
        res.evaluations += 1
        res.count("scale:graph+table")
        res.nontrivial.add(("scale", ti, n_s))
    # small cancelling-singleton games (mixed-sign singleton values with sum exactly 0, not all zero)
    for _ in range(6 if tier == "quick" else 40):
        n_s = rnd.choice([3, 4, 5])
        w = [rnd.randint(1, 5) * (1 if i % 2 else -1) for i in range(n_s - 1)]
        w.append(-sum(w))
        k_ = rnd.choice([1, 2, 4])
        vals = [float(sum(w[i] for i in range(n_s) if c >> i & 1) + k_ * (G.popcount(c) * (G.popcount(c) - 1) // 2)) for c in range(2 ** n_s)]
        report(res, n_s, vals, None, oracle(n_s, vals, None, exact=False), "cancelling-singletons")
        res.evaluations += 1
        res.count("cancelling-singletons")
    # ---------------------------------------------------------------- model side
    for b in script.diff():
        res.disagree("normalisation answer", {k: b[k] for k in ("line", "impl", "model", "ctx")})
    for i, real, origin in float_checks:
        out = script.outs[i]
        try:
            mv = np.array([float(Fraction(x)) for x in out[2:].split(",")], dtype=float)
            ok = mv.shape == real.shape and bool(np.all(np.abs(mv - real) <= TOL))
        except Exception:
            ok = False
        if not ok:
            res.disagree("float normalisation differs from the closed form beyond 1e-9",
                         {"line": script.lines[i][:300], "impl": real.tolist(), "model": out[:300], "ctx": origin})
    return res


def replay(prop: str, payload: dict):
    inp = payload["input"]
    n = inp["n"]
    values = [Fraction(x) for x in inp["values_exact"]] if inp.get("values_exact") else inp["values"]
    bad = oracle(n, [float(x) for x in values], inp.get("matrix"))
    bad = [b for b in bad if b[0] != "out-of-scope"]
    if bad:
        return True, f"normalisation of the stored game violates: {bad[0][0]} {bad[0][1]}"
    return False, "the stored game normalises and de-normalises correctly"
