"""Correspondence stream `codec` (C19): the entry codec of incomplete_cooperative/run/save.py against ICG.Model.Codec.

    Output.json  →  json.dumps(…, default=json_serializer)  →  json.loads  →  Output.from_json / get_outputs
    and the same through the file:  save_json  →  Output.from_file / get_outputs_from_file  (temp dir under /tmp).

arg = "C19".  Four sub-streams; every case is regenerated from (`sub`, `seed`) alone (`gen_case`), which is all a
replay file stores.

  in      in-domain Outputs: gap matrix r x c, r = 1..4, c = 1..5, float64, cells from integers, dyadics, negative, huge
          (1e300, 2^1000, DBL_MAX), tiny (5e-324, DBL_MIN), 0.1, 1/3, -0.0, NaN, +-inf; action arrays as the commands produce
          them (float (steps, reps) with NaN padding as evaluate() does, int (steps, reps), int (steps, 1) as greedy, NaN-padded
          3-D as best_states, occasionally bool); parsed arguments = Namespace with str / int (also > 2^64) / float / bool /
          None / list / tuple / nested dict / Path / arbitrary objects / callables, dict keys str / int / bool / None / float
          (incl. keys that collide after stringification: 1 and "1", True and "true", None and "null"), existing `run_type`
          attribute, attribute names that are no identifiers; `func` = function whose repr contains "eval" or not, lambda,
          object, str, Path, list.  About one case in eight legitimately RAISES: a dict key json cannot write (tuple, bytes,
          frozenset, Path: TypeError, also nested) or a Namespace without `func` (KeyError).
          Lines:  `codec tree`      = the tree json.dumps wrote (read back with object_pairs_hook, so repeated keys show)
                  `codec saveload`  = the Output read back in memory; a second one = the Output read back by `Output.from_file`
                                      after the real `save_json`
                  `codec outputs`   = `get_outputs_from_file` of a file holding several entries (the model gets the raw file)
                  `codec stringify` = every metadata value on its own.
          ORACLE (real code only, no model): the read-back gap matrix is a float64 ndarray of the same shape, bit-identical
          cell by cell (NaN at the same positions, sign of zero kept); the action array has the same shape, dtype kind and
          cells; the parsed arguments are exactly  json.loads(json.dumps(meta, default=<Path → str, else repr>))  for
          meta = vars(args) minus func plus run_type ("eval" iff "eval" in repr(func)), followed by func = run_type — for the
          in-memory route, for `from_file`, and for `get_outputs_from_file` (which must also list the names in save order).
  out     out-of-domain shapes (model vs code only, no oracle): 0 x k, k x 0, 0 x 0, 1-d, 0-d, 3-d with an inner zero, for
          data and actions, int and float: what the code does there is documented by the theorems `zero_rows_shape_lost` …
  raw     `Output.from_json` / `get_outputs` on hand-made JSON entries: ragged lists (ValueError), `None` / bool / int cells
          (`None` under dtype=float is NaN, without dtype an object array), ints beyond 2^53 and beyond the double range
          (OverflowError), missing data / actions / metadata / run_type (KeyError), metadata that is no dict, unexpected keys
          (TypeError), a `parsed_args` key (silently overwritten), 65 nested levels (ValueError); and `np.array(t, dtype=float)`
          / `np.array(t)` / `ndarray.tolist()` / `json.loads(json.dumps(t))` on their own (`codec nparray|tolist|reload`).
  meta    metadata values on their own: `json.dumps(v, default=json_serializer)` as a tree and after `json.loads`.

non-trivial = an in-domain Output with >= 2 gap cells holding a NaN and a finite non-integer cell, whose metadata holds at
least one value that is not JSON-native (Path / tuple / object / non-str key); distinct by (sub-stream, seed).

Observed on the unchanged tree (documented, none of them a violation of C19 as quantified):
  * zero rows: (0, k) is written as `[]` and read back with shape (0,); an int (k, 0) array comes back float64;
  * `from_json` rebuilds `actions` without dtype: int arrays come back int64, float arrays float64, a `None` cell (never
    written by `tolist`) would make an object array; `data` is forced to float64, `None` there reads as NaN;
  * dict keys 1 and "1" (True / "true", None / "null") collapse into one key after the round trip: first position, last value;
  * `from_json` MUTATES the dict it is given (the harness hands it a deep copy).
"""
from __future__ import annotations

import copy
import json
import math
import random
import shutil
import struct
import tempfile
from argparse import Namespace
from pathlib import Path

import numpy as np

from common import Budget, Script, StreamResult, rs


# =====================================================================================================
# canonical text (identical grammar in lean/ICG/Driver/Codec.lean)

def hx(s: str) -> str:
    return s.encode("utf-8").hex()


def ftok(x: float) -> str:
    x = float(x)
    if math.isnan(x):
        return "nan"
    if math.isinf(x):
        return "inf" if x > 0 else "-inf"
    if x == 0.0 and math.copysign(1.0, x) < 0:
        return "-0"
    return rs(x)


def cell_tok(x) -> str:
    if x is None:
        return "n"
    if isinstance(x, (bool, np.bool_)):
        return "t" if x else "f"
    if isinstance(x, (int, np.integer)):
        return f"i{int(x)}"
    if isinstance(x, (float, np.floating)):
        return "F" + ftok(x)
    return "?" + type(x).__name__


DTYPES = {"float64": "f", "int64": "i", "bool": "b", "object": "o"}


def arr_tok(a) -> str:
    if not isinstance(a, np.ndarray):
        return "not-an-ndarray:" + type(a).__name__
    dt = DTYPES.get(str(a.dtype), "?" + str(a.dtype))
    shape = "x".join(str(d) for d in a.shape) if a.shape else "-"
    cells = [cell_tok(x) for x in a.ravel().tolist()] if a.ndim else [cell_tok(a.item())]
    return f"{dt}:{shape}:" + (",".join(cells) if cells else "-")


class Pairs(list):
    """a JSON object as the list of pairs the text holds (repeated keys visible)"""


def loads_pairs(text: str):
    return json.loads(text, object_pairs_hook=Pairs)


def json_words(t) -> list[str]:
    if t is None:
        return ["n"]
    if isinstance(t, bool):
        return ["t" if t else "f"]
    if isinstance(t, int):
        return [f"i{t}"]
    if isinstance(t, float):
        return ["F" + ftok(t)]
    if isinstance(t, str):
        return ["s" + hx(t)]
    if isinstance(t, Pairs) or isinstance(t, dict):
        out = ["{"]
        for k, v in (t if isinstance(t, Pairs) else t.items()):
            out.append("k" + hx(k))
            out += json_words(v)
        return out + ["}"]
    if isinstance(t, list):
        out = ["["]
        for v in t:
            out += json_words(v)
        return out + ["]"]
    raise TypeError(f"not a JSON value: {type(t).__name__}")


def float_key_text(k: float) -> str:
    """the text json writes for a float dict key (json.encoder.floatstr)"""
    if k != k:
        return "NaN"
    if k == math.inf:
        return "Infinity"
    if k == -math.inf:
        return "-Infinity"
    return float.__repr__(k)


def key_word(k) -> str:
    if isinstance(k, str):
        return "ks" + hx(k)
    if isinstance(k, bool):
        return "kt" if k else "kf"
    if isinstance(k, int):
        return f"ki{k}"
    if k is None:
        return "kN"
    if isinstance(k, float):
        return "kF" + hx(float_key_text(k))
    return "kO"


def py_words(v) -> list[str]:
    """a metadata value as the model's `PyVal`"""
    if v is None:
        return ["N"]
    if isinstance(v, bool):
        return ["t" if v else "f"]
    if isinstance(v, int):
        return [f"i{v}"]
    if isinstance(v, float):
        return ["F" + ftok(v)]
    if isinstance(v, str):
        return ["s" + hx(v)]
    if isinstance(v, list):
        return ["["] + [w for x in v for w in py_words(x)] + ["]"]
    if isinstance(v, tuple):
        return ["("] + [w for x in v for w in py_words(x)] + [")"]
    if isinstance(v, dict):
        out = ["{"]
        for k, x in v.items():
            out.append(key_word(k))
            out += py_words(x)
        return out + ["}"]
    if isinstance(v, Path):
        return ["P" + hx(str(v))]
    return ["O" + hx(repr(v))]


def args_words(d: dict) -> list[str]:
    out = []
    for k, v in d.items():
        out.append("A" + hx(k))
        out += py_words(v)
    return out


def output_text(o) -> str:
    return " ".join([f"data={arr_tok(o.data)}", f"actions={arr_tok(o.actions)}", "args="] + args_words(vars(o.parsed_args)))


def err(e: BaseException) -> str:
    if isinstance(e, OverflowError):
        return "err:overflow"
    if isinstance(e, KeyError):
        return "err:key"
    if isinstance(e, TypeError):
        return "err:type"
    if isinstance(e, ValueError):
        return "err:value"
    return "err:other:" + type(e).__name__


def spec_serializer(obj):
    """the property's own reading of 'JSON stringification' (independent of the repo's json_serializer)"""
    if isinstance(obj, Path):
        return str(obj)
    return repr(obj)


# =====================================================================================================
# generators

CELLS = [float("nan"), float("inf"), float("-inf"), -0.0, 0.0, 1.0, -1.0, 7.0, -12.0, 0.5, -2.75, 1 / 1024, 3.0 * 2 ** 40,
         0.1, 1 / 3, -2 / 3, 1e300, -1e300, 2.0 ** 1000, 1.7976931348623157e308, 5e-324, -5e-324, 2.2250738585072014e-308,
         1e-320, 2.0 ** 53 + 2, 123456789.12345679, 1e22, 1e-7, 6.02214076e23]


def eval_func(*a, **k):          # repr contains "eval"
    return None


def solve_like(*a, **k):
    return None


class Thing:
    pass


class Evaluator:
    def __repr__(self):
        return "Evaluator<eval>"


STRINGS = ["", "plain", "ü ñ 漢", "q\"uote", "back\\slash", "new\nline", "tab\t", "eval", "run_type", "func", "1", "true", "null",
           "a b", "x" * 30, "éval", "NaN"]
FUNCS = ["eval_func", "solve_like", "lambda", "thing", "evaluator", "str-evaluate", "str-learn", "path-eval", "path-x",
         "list-eval", "list-e-val", "none", "int", "dict-eval-key"]


def make_func(kind: str):
    return {"eval_func": eval_func, "solve_like": solve_like, "lambda": (lambda *a: None), "thing": Thing(),
            "evaluator": Evaluator(), "str-evaluate": "evaluate", "str-learn": "learn", "path-eval": Path("/x/eval/y"),
            "path-x": Path("/x/y"), "list-eval": [1, "eval"], "list-e-val": ["e", "val"], "none": None, "int": 5,
            "dict-eval-key": {"an eval": 1}}[kind]


def rand_float(rnd) -> float:
    u = rnd.random()
    if u < 0.45:
        return rnd.choice(CELLS)
    if u < 0.7:
        return float(rnd.randint(-40, 40))
    if u < 0.9:
        return rnd.randint(-2 ** 20, 2 ** 20) / 2 ** rnd.randint(1, 12)
    return rnd.uniform(-5, 5)


def rand_key(rnd, bad: bool):
    u = rnd.random()
    if bad and u < 0.5:
        return rnd.choice([(1, 2), b"raw", frozenset([1]), Path("k")])
    if u < 0.45:
        return rnd.choice(STRINGS)
    if u < 0.65:
        return rnd.choice([0, 1, -7, 2 ** 70, 12])
    if u < 0.75:
        return rnd.choice([True, False])
    if u < 0.85:
        return None
    return rnd.choice([1.5, -0.0, 1e22, float("inf"), float("-inf"), 2.0, 0.1])      # (a NaN key never equals itself: left out)


def rand_meta_value(rnd, depth: int, bad: bool = False):
    u = rnd.random()
    if depth >= 3:
        u *= 0.6
    if u < 0.1:
        return rnd.choice(STRINGS)
    if u < 0.2:
        return rnd.choice([0, 1, -5, 2 ** 40, 2 ** 70, -2 ** 70, 31])
    if u < 0.3:
        return rand_float(rnd)
    if u < 0.36:
        return rnd.choice([True, False])
    if u < 0.42:
        return None
    if u < 0.5:
        return Path(rnd.choice(["/x/y", ".", "rel/ü dir", "a//b/../c", "/"]))
    if u < 0.6:
        return rnd.choice([Thing(), solve_like, eval_func, Evaluator(), {1, 2}, b"bytes", 1j, range(3), np.int64(3),
                           np.float64(2.5), np.bool_(True), np.array([1, 2]), Thing])
    if u < 0.72:
        return [rand_meta_value(rnd, depth + 1, bad) for _ in range(rnd.randint(0, 3))]
    if u < 0.82:
        return tuple(rand_meta_value(rnd, depth + 1, bad) for _ in range(rnd.randint(0, 3)))
    d = {}
    for _ in range(rnd.randint(0, 4)):
        d[rand_key(rnd, bad)] = rand_meta_value(rnd, depth + 1, False)
    if rnd.random() < 0.3:                      # keys that collide after stringification
        a, b = rnd.choice([(1, "1"), ("1", 1), (True, "true"), ("null", None), (None, "null"), (2.0, "2.0"), (12, "12")])
        d[a] = rand_meta_value(rnd, depth + 1, False)
        d[b] = rand_meta_value(rnd, depth + 1, False)
    return d


def rand_namespace(rnd, poison: str | None) -> Namespace:
    ns = Namespace()
    names = ["seed", "lr", "model_dir", "name", "flag", "sizes", "pair", "table", "callback", "solver", "note"]
    rnd.shuffle(names)
    k = rnd.randint(0, len(names))
    pos_func = rnd.randint(0, k)
    pos_rt = rnd.randint(0, k) if rnd.random() < 0.25 else -1
    for i, nm in enumerate(names[:k] + ["<end>"]):
        if i == pos_func and poison != "no-func":
            ns.func = make_func(rnd.choice(FUNCS))
        if i == pos_rt:
            ns.run_type = rnd.choice(["stale", 3, None])
        if nm == "<end>":
            break
        setattr(ns, nm, rand_meta_value(rnd, 0))
    if rnd.random() < 0.15:
        setattr(ns, rnd.choice(["a b", "", "1", "ü"]), rand_meta_value(rnd, 1))
    if poison == "bad-key":
        ns.weights = {rnd.choice([(0, 1), b"raw", frozenset([1, 2]), Path("k")]): 0.5, "fine": 1}
    elif poison == "nested-bad-key":
        ns.deep = [1, {"ok": [{"x": 0.5, (1, 2): 3}]}]
    return ns


def rand_actions(rnd, r: int, c: int):
    kind = rnd.choice(["float2d", "float2d", "int2d", "col", "nan3d", "bool2d"]) if rnd.random() < 0.9 else "float1x1"
    steps = max(1, r - 1)
    if kind == "float2d":
        a = np.array([[float(rnd.randint(0, 31)) for _ in range(c)] for _ in range(steps)])
        for _ in range(rnd.randint(0, 2)):
            a[rnd.randrange(steps), rnd.randrange(c)] = np.nan
    elif kind == "int2d":
        a = np.array([[rnd.randint(0, 2 ** rnd.choice([5, 5, 40, 62])) for _ in range(c)] for _ in range(steps)])
    elif kind == "col":
        a = np.reshape(np.array([rnd.randint(0, 31) for _ in range(steps)]), (steps, 1))
    elif kind == "nan3d":
        a = np.full((steps + 1, c, steps), np.nan)
        for e in range(steps + 1):
            for rep in range(c):
                for j in range(min(e, steps)):
                    a[e, rep, j] = rnd.randint(0, 31)
    elif kind == "bool2d":
        a = np.array([[rnd.random() < 0.5 for _ in range(c)] for _ in range(steps)])
    else:
        a = np.array([[float("nan")]])
    return a, kind


def degenerate_array(rnd, which: str):
    shape = rnd.choice([(0, 3), (0, 1), (2, 0), (1, 0), (0, 0), (3,), (1,), (0,), (), (2, 0, 3), (0, 2, 2), (2, 2, 0), (1, 1, 1)])
    n = int(np.prod(shape)) if shape else 1
    if which == "int" and rnd.random() < 0.5:
        return np.array([rnd.randint(0, 31) for _ in range(n)], dtype=np.int64).reshape(shape)
    return np.array([rand_float(rnd) for _ in range(n)], dtype=np.float64).reshape(shape)


def rand_cell(rnd, for_float: bool):
    u = rnd.random()
    if u < 0.35:
        return rnd.randint(-9, 40)
    if u < 0.65:
        return rand_float(rnd)
    if u < 0.78:
        return None
    if u < 0.86:
        return rnd.random() < 0.5
    if for_float:
        return rnd.choice([2 ** 53 + 1, -(2 ** 53) - 3, 2 ** 54 + 2, 2 ** 63, 2 ** 64 + 1, 3 * 2 ** 70 + 1, 10 ** 30, 2 ** 1023, 2 ** 1024 - 2 ** 970 - 1,
                           2 ** 1024 - 2 ** 970, 10 ** 400, -10 ** 400, 2 ** 60 + 1])
    return rnd.choice([2 ** 53 + 1, -(2 ** 62), 2 ** 63 - 1, -(2 ** 63)])


def rand_nested(rnd, for_float: bool, ragged_p: float = 0.25):
    """a nested list as it could stand under "data" / "actions" in a hand-edited results file"""
    kind = rnd.random()
    ints_only = rnd.random() < 0.2
    bools_only = rnd.random() < 0.08

    def leaf():
        if bools_only:
            return rnd.random() < 0.5
        if ints_only:
            return rnd.randint(-9, 40)
        return rand_cell(rnd, for_float)
    if kind < 0.05:
        return leaf()
    dims = [rnd.randint(0, 3) for _ in range(rnd.randint(1, 3))]

    def build(ds):
        if not ds:
            return leaf()
        return [build(ds[1:]) for _ in range(ds[0])]
    t = build(dims)
    if rnd.random() < ragged_p:
        # damage it: drop / add an element somewhere, or replace a sub-list by a leaf / a leaf by a list
        def paths(x, p=()):
            out = [p]
            if isinstance(x, list):
                for i, y in enumerate(x):
                    out += paths(y, p + (i,))
            return out
        ps = [p for p in paths(t) if p]
        if ps:
            p = rnd.choice(ps)
            parent = t
            for i in p[:-1]:
                parent = parent[i]
            how = rnd.randrange(4)
            if how == 0:
                del parent[p[-1]]
            elif how == 1:
                parent.insert(p[-1], leaf() if rnd.random() < 0.5 else [])
            elif how == 2:
                parent[p[-1]] = leaf()
            else:
                parent[p[-1]] = [parent[p[-1]]]
    return t


def gen_case(sub: str, seed: int) -> dict:
    """everything about a case, deterministically from (sub, seed)"""
    rnd = random.Random(f"codec:{sub}:{seed}")
    from incomplete_cooperative.run.save import Output
    if sub == "in":
        r, c = rnd.randint(1, 4), rnd.randint(1, 5)
        data = np.array([[rand_float(rnd) for _ in range(c)] for _ in range(r)], dtype=np.float64)
        if r * c >= 2 and rnd.random() < 0.6:          # a NaN and a finite non-integer cell in the same matrix
            i, j = rnd.sample(range(r * c), 2)
            data[i // c, i % c] = np.nan
            data[j // c, j % c] = rnd.choice([0.1, 1 / 3, -2.75, 1e-7, 123456789.12345679, 5e-324, rnd.uniform(-5, 5)])
        actions, akind = rand_actions(rnd, r, c)
        poison = rnd.choice(["bad-key", "nested-bad-key", "no-func"]) if rnd.random() < 0.12 else None
        return {"sub": sub, "seed": seed, "output": Output(data, actions, rand_namespace(rnd, poison)), "akind": akind, "poison": poison}
    if sub == "out":
        return {"sub": sub, "seed": seed, "akind": "degenerate", "poison": None,
                "output": Output(degenerate_array(rnd, "float") if rnd.random() < 0.7 else np.array([[1.0, np.nan]]),
                                 degenerate_array(rnd, "int"), rand_namespace(rnd, None))}
    if sub == "raw":
        entry: dict = {}
        keys = ["data", "actions", "metadata"]
        rnd.shuffle(keys)
        for k in keys:
            if rnd.random() < 0.06:
                continue
            if k == "data":
                entry[k] = rand_nested(rnd, True)
            elif k == "actions":
                entry[k] = rand_nested(rnd, False)
            else:
                u = rnd.random()
                if u < 0.08:
                    entry[k] = rnd.choice([[1], "text", None, 3, 2.5, True])
                else:
                    md = {}
                    for _ in range(rnd.randint(0, 3)):
                        md[rnd.choice(STRINGS)] = json.loads(json.dumps(rand_meta_value(rnd, 1), default=spec_serializer))
                    if rnd.random() < 0.9:
                        md["run_type"] = rnd.choice(["eval", "learn", 3, None, [1]])
                    if rnd.random() < 0.2:
                        md["func"] = "old"
                    items = list(md.items())
                    rnd.shuffle(items)
                    entry[k] = dict(items)
        if rnd.random() < 0.08:
            entry[rnd.choice(["extra", "parsed_args", "parsed_args", ""])] = rnd.choice([1, None, [2]])
        return {"sub": sub, "seed": seed, "entry": entry, "tree_f": rand_nested(rnd, True, 0.3), "tree_a": rand_nested(rnd, False, 0.3)}
    if sub == "meta":
        return {"sub": sub, "seed": seed, "value": rand_meta_value(rnd, 0, bad=rnd.random() < 0.15)}
    raise ValueError(sub)


# =====================================================================================================
# the property's own oracle (real code only)

def bits(a: np.ndarray) -> bytes:
    a = np.array(a, dtype=np.float64, copy=True)
    a[np.isnan(a)] = np.nan                     # NaN by position, payload ignored
    return a.tobytes()


def expected_args(ns: Namespace) -> dict:
    meta = {k: v for k, v in vars(ns).items() if k != "func"}
    meta["run_type"] = "eval" if "eval" in repr(ns.func) else "learn"
    back = json.loads(json.dumps(meta, default=spec_serializer))
    back["func"] = back["run_type"]
    return back


def oracle(res: StreamResult | None, where: str, out, back, rp: dict, sink: list | None = None) -> None:
    """`back` must be `out` read back: matrices exactly, metadata up to JSON stringification"""
    def bad(what: str, key: str, **extra):
        if res is not None:
            res.violation(f"{where}: {what}", dict(rp, **extra), key=key)
        if sink is not None:
            sink.append(f"{where}: {what}")
    d0, d1 = out.data, back.data
    if not isinstance(d1, np.ndarray) or d1.dtype != np.float64:
        bad(f"gap matrix read back with dtype {getattr(d1, 'dtype', type(d1).__name__)} instead of float64", "codec:data-dtype")
    elif d1.shape != d0.shape:
        bad(f"gap matrix shape {d0.shape} read back as {d1.shape}", "codec:data-shape")
    elif bits(d1) != bits(d0):
        i = next(i for i, (x, y) in enumerate(zip(d0.ravel().tolist(), d1.ravel().tolist()))
                 if struct.pack(">d", x) != struct.pack(">d", y) and not (x != x and y != y))
        bad(f"gap matrix cell {i}: saved {d0.ravel()[i]!r}, read back {d1.ravel()[i]!r}", "codec:data-cells")
    a0, a1 = out.actions, back.actions
    if not isinstance(a1, np.ndarray) or a1.shape != a0.shape:
        bad(f"action matrix shape {a0.shape} read back as {getattr(a1, 'shape', None)}", "codec:actions-shape")
    elif a1.dtype.kind != a0.dtype.kind:
        bad(f"action matrix dtype {a0.dtype} read back as {a1.dtype}", "codec:actions-dtype")
    elif [cell_tok(x) for x in a1.ravel().tolist()] != [cell_tok(x) for x in a0.ravel().tolist()]:
        bad("action matrix cells differ", "codec:actions-cells")
    exp = expected_args(out.parsed_args)
    got = vars(back.parsed_args)
    if args_words(got) != args_words(exp):
        miss = [k for k in exp if k not in got]
        extra = [k for k in got if k not in exp]
        diff = [k for k in exp if k in got and py_words(exp[k]) != py_words(got[k])]
        bad(f"metadata is not the JSON-stringified metadata of the run (missing {miss}, unexpected {extra}, different {diff}"
            f"{', order' if not (miss or extra or diff) else ''})", "codec:metadata", expected=repr(exp)[:300], got=repr(got)[:300])


# =====================================================================================================
# one case: protocol lines + oracle

def run_case(res: StreamResult | None, script: Script | None, case: dict, workdir: Path | None, sink: list | None = None) -> dict:
    import incomplete_cooperative.run.save as S
    sub, seed = case["sub"], case["seed"]
    rp = {"kind": "codec", "sub": sub, "seed": seed,
          "how": "case = corr_codec.gen_case(sub, seed); corr_codec.run_case(None, None, case, <tmp dir>) "
                 "(check.py C19 --replay <this file>)"}
    info = {"ok": False, "line": ""}

    def add(line: str, ans: str):
        if script is not None:
            script.add(line, ans, rp)

    if sub in ("in", "out"):
        out = case["output"]
        d_tok, a_tok = arr_tok(out.data), arr_tok(out.actions)
        a_words = " ".join(args_words(vars(out.parsed_args)))
        head = f"{d_tok} {a_tok} {a_words}".rstrip()
        info["line"] = head
        # ---- in memory
        text = None
        try:
            j = out.json
            text = json.dumps(j, default=S.json_serializer)
            tree_ans = " ".join(json_words(loads_pairs(text)))
        except Exception as e:      # noqa: BLE001
            tree_ans = err(e)
        add(f"codec tree {head}", tree_ans)
        back = None
        if text is None:
            back_ans = tree_ans
        else:
            try:
                back = S.Output.from_json(json.loads(text))
                back_ans = output_text(back)
            except Exception as e:  # noqa: BLE001
                back_ans = err(e)
        add(f"codec saveload {head}", back_ans)
        if res is not None:
            res.count(f"{sub}:outcome:{back_ans if back_ans.startswith('err') else 'ok'}")
        if sub == "in":
            expect_raise = case["poison"] is not None
            if not expect_raise:
                if back is None:
                    if res is not None:
                        res.violation(f"a run of at least one step could not be saved and read back: {back_ans}", rp, key="codec:raises")
                    if sink is not None:
                        sink.append(f"save / read back raised: {back_ans}")
                else:
                    oracle(res, "json → from_json", out, back, rp, sink)
                    info["ok"] = True
        # ---- through the file
        if workdir is not None and text is not None:
            p = workdir / f"{sub}{seed}" / "data.json"
            p.parent.mkdir(parents=True, exist_ok=True)
            try:
                S.save_json(p, "run", out)
                fb = S.Output.from_file(p, "run")
                fans = output_text(fb)
            except Exception as e:  # noqa: BLE001
                fb, fans = None, err(e)
            add(f"codec saveload {head}", fans)
            if sub == "in" and case["poison"] is None:
                if fb is None:
                    if res is not None:
                        res.violation(f"save_json / from_file raised: {fans}", rp, key="codec:file-raises")
                    if sink is not None:
                        sink.append(f"save_json / from_file raised: {fans}")
                else:
                    oracle(res, "save_json → from_file", out, fb, rp, sink)
        return info

    if sub == "raw":
        entry = case["entry"]
        line = " ".join(json_words(entry))
        try:
            ans = output_text(S.Output.from_json(copy.deepcopy(entry)))
        except Exception as e:      # noqa: BLE001
            ans = err(e)
        add(f"codec load {line}", ans)
        if res is not None:
            res.count(f"raw:from_json:{ans if ans.startswith('err') else 'ok'}")
        for mode, t in (("f", case["tree_f"]), ("a", case["tree_a"])):
            try:
                arr = np.array(t, dtype=float) if mode == "f" else np.array(t)
                ans = arr_tok(arr)
            except Exception as e:  # noqa: BLE001
                arr, ans = None, err(e)
            add(f"codec nparray {mode} " + " ".join(json_words(t)), ans)
            if res is not None:
                res.count(f"raw:nparray-{mode}:{ans if ans.startswith('err') else ans[0]}")
            if arr is not None and ans[0] in "fibo":
                add(f"codec tolist {ans}", " ".join(json_words(arr.tolist())))
        t = case["entry"]
        add("codec reload " + line, " ".join(json_words(json.loads(json.dumps(t)))))
        return info

    if sub == "meta":
        v = case["value"]
        line = " ".join(py_words(v))
        try:
            text = json.dumps(v, default=S.json_serializer)
            add(f"codec dumps {line}", " ".join(json_words(loads_pairs(text))))
            add(f"codec stringify {line}", " ".join(py_words(json.loads(text))))
            if res is not None:
                res.count("meta:ok")
        except Exception as e:      # noqa: BLE001
            add(f"codec dumps {line}", err(e))
            add(f"codec stringify {line}", err(e))
            if res is not None:
                res.count(f"meta:{err(e)}")
        return info
    raise ValueError(sub)


def nontrivial(case: dict) -> bool:
    out = case["output"]
    cells = out.data.ravel().tolist()
    if len(cells) < 2 or not any(x != x for x in cells) or not any(x == x and not math.isinf(x) and x != int(x) for x in cells):
        return False

    def native(v) -> bool:
        if v is None or isinstance(v, (bool, int, float, str)):
            return type(v) in (type(None), bool, int, float, str)
        if isinstance(v, list):
            return all(native(x) for x in v)
        if isinstance(v, dict):
            return all(isinstance(k, str) and native(x) for k, x in v.items())
        return False
    return any(not native(v) for k, v in vars(out.parsed_args).items() if k != "func")


def file_group(res: StreamResult, script: Script, cases: list[dict], workdir: Path, tag: str) -> None:
    """several in-domain entries in ONE file through the real save_json; get_outputs_from_file against `codec outputs`"""
    import incomplete_cooperative.run.save as S
    p = workdir / tag / "data.json"
    p.parent.mkdir(parents=True, exist_ok=True)
    saved: dict[str, dict] = {}
    names = ["a", "run 1", "ü", "", "b", "a"]          # the last one repeats the first: must change nothing
    rp = {"kind": "codec-file", "cases": [[c["sub"], c["seed"]] for c in cases], "names": names[:len(cases)],
          "how": "save_json(dir/'data.json', names[i], gen_case(*cases[i])['output']) in order, then get_outputs_from_file"}
    for nm, c in zip(names, cases):
        try:
            S.save_json(p, nm, c["output"])
        except Exception as e:      # noqa: BLE001
            res.violation(f"save_json raised {type(e).__name__}: {e}", rp, key="codec:file-raises")
            return
        saved.setdefault(nm, c)
    raw = json.loads(p.read_text())
    try:
        outs = S.get_outputs_from_file(p)
        ans = " ; ".join("s" + hx(k) + " " + output_text(o) for k, o in outs.items()) or "-"
    except Exception as e:          # noqa: BLE001
        outs, ans = None, err(e)
        res.violation(f"get_outputs_from_file raised {type(e).__name__}: {e}", rp, key="codec:file-raises")
    script.add("codec outputs " + " ".join(json_words(raw)), ans, rp)
    res.evaluations += 1
    res.count(f"file-group:{len(saved)}-entries")
    if outs is not None:
        if list(outs.keys()) != list(saved.keys()):
            res.violation("names in the file ≠ names saved, in first-save order", dict(rp, got=list(outs.keys())), key="codec:file-names")
        for nm, c in saved.items():
            if nm in outs:
                oracle(res, f"get_outputs_from_file[{nm!r}]", c["output"], outs[nm], rp)


# =====================================================================================================
# entry points

def run(tier: str, budget: Budget, rnd, arg: str) -> StreamResult:
    if arg != "C19":
        raise ValueError(f"corr_codec: unknown arg {arg}")
    res = StreamResult("codec")
    script = Script()
    quick = tier == "quick"
    plan = [("in", 500 if quick else 6000), ("out", 120 if quick else 1200), ("raw", 350 if quick else 4000),
            ("meta", 250 if quick else 3000)]
    base = Path(tempfile.mkdtemp(prefix="verif_codec_", dir="/tmp"))
    reserve = 6 if quick else 40
    try:
        for sub, count in plan:
            group: list[dict] = []
            for i in range(count):
                if budget.left() < reserve:
                    res.notes.append(f"budget: sub-stream {sub} stopped after {i} cases")
                    break
                seed = rnd.randint(0, 10 ** 9)
                case = gen_case(sub, seed)
                use_file = sub in ("in", "out") and (i % 3 == 0)
                info = run_case(res, script, case, base if use_file else None)
                res.evaluations += 1
                res.count(f"sub:{sub}")
                if sub in ("in", "out"):
                    res.count(f"{sub}:actions:{case['akind']}")
                    res.count(f"{sub}:data:{'x'.join(map(str, case['output'].data.shape)) or '0-d'}")
                if sub == "in":
                    if case["poison"]:
                        res.count(f"in:poison:{case['poison']}")
                    elif info["ok"]:
                        if nontrivial(case):
                            res.nontrivial.add(("in", seed))
                        group.append(case)
                        if len(group) == 6:
                            file_group(res, script, group, base, f"g{i}")
                            group = []
                if len(res.samples) < 4 and i < 2 and sub in ("in", "raw"):
                    res.sample({"sub": sub, "seed": seed, "line": (info["line"] or " ".join(json_words(case.get("entry", None))))[:400]}, limit=4)
            shutil.rmtree(base, ignore_errors=True)         # the files of this sub-stream are done with
            base.mkdir(parents=True, exist_ok=True)
        # a fixed 65-level nest (beyond numpy's 64 dimensions) and its 64-level neighbour
        for depth in (64, 65):
            t = 1.5
            for _ in range(depth):
                t = [t]
            for mode in ("f", "a"):
                try:
                    ans = arr_tok(np.array(t, dtype=float) if mode == "f" else np.array(t))
                except Exception as e:  # noqa: BLE001
                    ans = err(e)
                script.add(f"codec nparray {mode} " + " ".join(json_words(t)), ans, {"kind": "codec-depth", "depth": depth})
                res.evaluations += 1
    finally:
        shutil.rmtree(base, ignore_errors=True)
    for b in script.diff():
        res.disagree("codec answer", {k: (str(b[k])[:1200] if k != "ctx" else b[k]) for k in ("line", "impl", "model", "ctx", "kind")})
    return res


def replay(prop: str, payload: dict):
    inp = payload["input"]
    if inp.get("kind") == "codec":
        case = gen_case(inp["sub"], inp["seed"])
        base = Path(tempfile.mkdtemp(prefix="verif_codecr_", dir="/tmp"))
        sink: list[str] = []
        try:
            run_case(None, None, case, base, sink)
        finally:
            shutil.rmtree(base, ignore_errors=True)
        if sink:
            return True, "; ".join(sorted(set(sink)))[:600]
        return False, "the replayed case no longer violates the property"
    if inp.get("kind") == "codec-file":
        res = StreamResult("replay")
        base = Path(tempfile.mkdtemp(prefix="verif_codecr_", dir="/tmp"))
        try:
            file_group(res, Script(), [gen_case(s, k) for s, k in inp["cases"]], base, "g")
        finally:
            shutil.rmtree(base, ignore_errors=True)
        if res.violations:
            return True, "; ".join(sorted({v["what"] for v in res.violations}))[:600]
        return False, "the replayed case no longer violates the property"
    return False, "the replay file holds the complete failing input; no re-runner for this kind"
