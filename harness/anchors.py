"""Change-directed budget (DESIGN section 2): a committed table of normalised-AST hashes of every file a property is
anchored in is compared with the tree under test. A changed hash is NOT a verdict; it only raises the quick tier's
sampling budget for that property and is recorded in the evidence."""
from __future__ import annotations

import ast
import hashlib
import json
from pathlib import Path

from common import REPO, VERIF

TABLE = VERIF / "harness" / "anchor_hashes.json"


def file_hash(p: Path) -> str | None:
    try:
        tree = ast.parse(p.read_text())
    except Exception:           # noqa: BLE001  (missing file / syntax error: reported as changed)
        return None
    return hashlib.sha256(ast.dump(tree, include_attributes=False).encode()).hexdigest()[:16]


def anchor_files() -> dict[str, list[str]]:
    out = {}
    for line in (VERIF / "properties.jsonl").read_text().splitlines():
        if line.strip():
            p = json.loads(line)
            out[p["id"]] = list(p["anchors"]["files"])
    return out


def current(repo: Path = REPO) -> dict[str, str | None]:
    files = sorted({f for fs in anchor_files().values() for f in fs})
    return {f: file_hash(repo / f) for f in files}


def changed_for(prop: str) -> list[str]:
    """anchored files of `prop` whose normalised AST differs from the committed table"""
    if not TABLE.exists():
        return []
    table = json.loads(TABLE.read_text())
    return [f for f in anchor_files().get(prop, []) if file_hash(REPO / f) != table.get(f)]


if __name__ == "__main__":
    TABLE.write_text(json.dumps(current(Path("/repo")), indent=1) + "\n")
    print("wrote", TABLE)
