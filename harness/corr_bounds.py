"""Correspondence stream `bounds` (C01, C02, C03, C04, C07, C08): bounds.py vs ICG.Model.Bounds.

A *case* is (n, true game v, knowledge set K, computer, stale pre-fill).  The real game object gets
adversarial stale bounds in every row, then the known values, then `compute_bounds()`; the model gets
the same operations through the line protocol.  Complete lower/upper vectors are compared after the
compute (stale rows between computes are not compared: no theorem depends on them).

Which relation is demanded, and which oracle is run on the REAL code, depends on the property:

  C01  relation: dominance (impl.lo ≤ model.lo, model.hi ≤ impl.hi, exact on known rows)
       oracle  : v(c) ∈ [lo, hi], lo ≤ hi, known rows exact                       (sa, sac)
  C02  relation: equality;  oracle: lo = best partition into known coalitions, hi = min over known
       supersets of v(T) − lo(T∖S)  (brute force, independent of both code and model)   (sa, sac)
  C03  relation: equality;  oracle: the two real computers agree bit for bit       (sa vs sac)
  C04  relation: equality;  oracle: sound, inside SA bounds, monotone in r, lower antitone, upper caps (sam:r)
  C07  relation: equality;  oracle: along every lattice edge K ⊂ K∪{c} intervals nest   (sa, sac, sam)
  C08  relation: equality;  oracle: equal knowledge ⇒ equal bounds whatever the history; idempotent; undo
"""
from __future__ import annotations

import itertools
from fractions import Fraction
from functools import partial

import numpy as np

import gen_games as G
from common import Budget, Script, StreamResult, err_kind, frac, nlist, rlist, rs

COMPUTERS = {}


def _computers():
    if not COMPUTERS:
        from incomplete_cooperative import bounds as B
        COMPUTERS["sa"] = B.compute_bounds_superadditive
        COMPUTERS["sac"] = B.compute_bounds_superadditive_cached
        COMPUTERS["sam"] = B.compute_bounds_superadditive_monotone_approx_cached
    return COMPUTERS


def computer(name: str):
    cs = _computers()
    if name.startswith("sam:"):
        return partial(cs["sam"], repetitions=int(name[4:]))
    return cs[name]


def real_bounds(n, v, K, comp, stale=None, registry=False):
    """Run the real computer on a fresh object; returns (known, lo, hi) as Fractions or an error kind."""
    from incomplete_cooperative.coalitions import Coalition
    from incomplete_cooperative.game import IncompleteCooperativeGame
    g = IncompleteCooperativeGame(n, computer(comp))
    N = 2 ** n
    if stale is not None:
        for c in range(N):
            g.set_lower_bound(float(stale[0][c]), Coalition(c))
            g.set_upper_bound(float(stale[1][c]), Coalition(c))
    for k in K:
        g.set_value(float(v[k]), Coalition(k))
    try:
        g.compute_bounds()
    except Exception as e:
        return err_kind(e)
    return ([bool(x) for x in g.are_values_known()], [frac(x) for x in g.get_lower_bounds()],
            [frac(x) for x in g.get_upper_bounds()])


def model_lines(name, n, v, K, comp, stale=None):
    ls = [f"tab new {name} {n}"]
    N = 2 ** n
    if stale is not None:
        ls.append(f"tab bounds {name} lo none {rlist(stale[0])}")
        ls.append(f"tab bounds {name} hi none {rlist(stale[1])}")
        # row 0 is known in a fresh table: the bulk setters skip it, the scalar ones do not
        ls.append(f"tab setlo {name} 0 {rs(stale[0][0])}")
        ls.append(f"tab sethi {name} 0 {rs(stale[1][0])}")
    ls.append(f"tab setvalues {name} {nlist(K)} {rlist([v[k] for k in K])}")
    ls.append(f"tab compute {name} {comp}")
    ls.append(f"tab dump {name}")
    ls.append(f"tab drop {name}")
    return ls


def parse_dump(s):
    parts = dict(p.split("=", 1) for p in s.split(" "))
    return ([ch == "1" for ch in parts["K"]], [Fraction(x) for x in parts["L"].split(",")],
            [Fraction(x) for x in parts["U"].split(",")])


# ---------------------------------------------------------------------------------------------
# independent brute-force characterisations (oracle for C02)

def tight_bounds(n, v, K):
    """lo = best partition of S into known coalitions; hi = min over known T ⊋ S of v(T) − lo(T∖S)."""
    N = 2 ** n
    Ks = set(K)
    lo = {}
    for c in sorted(range(N), key=G.popcount):
        if c in Ks:
            lo[c] = v[c]
            continue
        best = None
        # partitions into known parts: pick the part containing the lowest player
        low = c & -c

        def rec(rest, acc):
            nonlocal best
            if rest == 0:
                best = acc if best is None or acc > best else best
                return
            lw = rest & -rest
            for x in G.submasks(rest):
                if x & lw and x in Ks:
                    rec(rest ^ x, acc + v[x])
        rec(c, Fraction(0))
        lo[c] = best
    hi = {}
    for c in range(N):
        if c in Ks:
            hi[c] = v[c]
        else:
            hi[c] = min(v[T] - lo[T ^ c] for T in range(N) if T & c == c and T != c and T in Ks)
    return [lo[c] for c in range(N)], [hi[c] for c in range(N)]


# ---------------------------------------------------------------------------------------------

def gen_cases(tier, rnd, prop, budget):
    """yield (n, v, K, tag) — the (game, knowledge) part of the cases"""
    sam = prop == "C04"
    def game(n, i):
        if sam or (prop in ("C07", "C08") and i % 3 == 2):
            v_ = G.sam_game(n, rnd)
            tag_ = "sam"
            if i % 5 == 3:
                # a fixed cost at the empty coalition (v(∅) < 0): still superadditive and monotone non-increasing
                v_ = list(v_)
                v_[0] = Fraction(-rnd.randint(1, 3), rnd.choice([1, 4]))
                if G.is_sa(v_, n) and G.is_mono_dec(v_, n):
                    tag_ = "sam-v0"
                else:
                    v_[0] = Fraction(0)
            if i % 5 == 4:
                # tiny magnitude: the game times 2^-50 (exact): bounds are positively homogeneous, absolute tolerances are not
                v_ = [x * Fraction(1, 2 ** 50) for x in v_]
                tag_ = "sam-tiny"
            return v_, tag_
        if prop in ("C03", "C08") and i % 4 == 3:
            # games of ANY class: the computers are defined on every table with minimal information
            return (G.arbitrary_game(n, rnd), "arb") if i % 8 == 3 else (G.undervalued_game(n, rnd), "undervalued")
        if i % 7 == 6:
            # tiny magnitude (an integer game times 2^-50, exact in float64)
            return [x * Fraction(1, 2 ** 50) for x in G.sa_game(n, rnd, kind="int", neg_singletons=(i % 2 == 0))], "sa-tiny"
        kind = ["int", "dyadic", "offset", "big", "int", "offset"][i % 6]
        if prop in ("C07", "C08"):
            # positions 2 and 5 are SAM games here; the offset kind (huge stand-alone values, small increments: intervals that
            # are narrow relative to their magnitude, so a relative-tolerance "snap" of nearly closed intervals shows) comes first
            kind = ["offset", "dyadic", "int", "big", "offset", "int"][i % 6]
        if kind == "int" and i % 6 == 4 and prop in ("C01", "C02", "C03"):
            # worths of the order of 1e19 and more (small integers times 2^62: exact in float64) — beyond every integer sentinel
            v_ = G.sa_game(n, rnd, kind="int", neg_singletons=(i % 3 == 1))
            return [x * 2 ** 62 for x in v_], "sa-huge"
        return G.sa_game(n, rnd, kind=kind, neg_singletons=(i % 3 == 1),
                         v0=Fraction(-(i % 2) * rnd.randint(0, 3))), f"sa-{kind}"
    # n = 3: all K
    for i in range(8 if tier == "quick" else 16):
        v, tag = game(3, i)
        for K in G.knowledge_sets_all(3):
            yield 3, v, K, tag + ":allK"
    # n = 4: all 1024 K
    for i in ((0, 3) if tier == "quick" and prop in ("C03", "C08") else range(2 if tier == "quick" else 10)):
        v, tag = game(4, i)
        for K in G.knowledge_sets_all(4):
            if not budget.ok():
                return
            yield 4, v, K, tag + ":allK"
    # level-set knowledge: minimal information plus ALL coalitions of some sizes (n = 5, 6): structured knowledge that
    # Bernoulli sampling practically never produces (e.g. every triple known, every pair and quadruple unknown)
    for n in (5, 6):
        sizes = list(range(2, n))
        for i in range(4 if tier == "quick" else 12):
            v, tag = game(n, i if prop not in ("C03", "C08") else (3 if i % 2 else 7) + 8 * i)
            for r in range(1, len(sizes) + 1):
                for comb in itertools.combinations(sizes, r):
                    if n == 6 and tier == "quick" and len(comb) > 1:
                        continue
                    K = sorted(set(G.minimal_ids(n)) | {c for c in range(2 ** n) if G.popcount(c) in comb})
                    yield n, v, K, tag + ":levelK"
    # block-structured knowledge at n = 7, 8: minimal information plus a few DISJOINT blocks of 2-3 players with a bonus (and
    # sometimes the union of two of them): the best partition of the union of the blocks has >= 3 parts none of which is a single
    # player — the case in which "split off one player" and "split into two known parts" are both sub-optimal
    if prop in ("C02", "C03", "C01"):
        for i in range(6 if tier == "quick" else 60):
            n = 7 + i % 2
            players = list(range(n))
            rnd.shuffle(players)
            # three disjoint pairs (one or two players stay free, so the union of the pairs is NOT the grand coalition); every
            # third case a pair is replaced by a triple when the players suffice
            sizes_ = [2, 2, 2] if (i % 3 or n < 8) else [3, 2, 2]
            blocks, pos = [], 0
            for sz in sizes_:
                blocks.append(sum(1 << p_ for p_ in players[pos:pos + sz]))
                pos += sz
            bonus = {b: Fraction(rnd.randint(1, 5)) for b in blocks}
            v = [Fraction(G.popcount(c)) + sum((w_ for b, w_ in bonus.items() if c & b == b), Fraction(0)) for c in range(2 ** n)]
            K = set(G.minimal_ids(n)) | set(blocks)
            if i % 4 == 3:
                K.add(blocks[0] | blocks[1])
            yield n, v, sorted(K), "sa-blocks:blockK"
    # cost-sharing games at n = 7, 8 with SPARSE knowledge: every player costs 1 (value −1), a few possibly overlapping blocks earn a
    # bonus — often exactly the size of the block, so that known blocks are worth exactly 0 and best partition totals are exactly 0
    # (mixed signs, exact zeros, coalitions of 6 and more players; additive + non-negative unanimity games: convex, hence superadditive)
    if prop in ("C02", "C03", "C01"):
        for i in range(8 if tier == "quick" else 80):
            n = 7 + i % 2
            nb = rnd.randint(2, 4)
            blocks = []
            for _ in range(nb):
                sz = rnd.randint(2, 4)
                blocks.append(sum(1 << p_ for p_ in rnd.sample(range(n), sz)))
            blocks = sorted(set(blocks))
            bonus = {b: Fraction(G.popcount(b) if rnd.random() < 0.6 else rnd.randint(1, 6)) for b in blocks}
            cost = [Fraction(-1) if rnd.random() < 0.85 else Fraction(-2) for _ in range(n)]
            v = [sum((cost[p_] for p_ in range(n) if c >> p_ & 1), Fraction(0)) + sum((w_ for b, w_ in bonus.items() if c & b == b), Fraction(0))
                 for c in range(2 ** n)]
            K = set(G.minimal_ids(n)) | set(blocks)
            if i % 3 == 2:
                K.add(rnd.randrange(3, 2 ** n - 1))
            yield n, v, sorted(K), "sa-costblocks:sparseK"
    # SAM games at n = 6, 7 in which the REFINEMENT rounds of the approximate computer really change something (they almost never do on
    # random games: 0 of 900 random coverage / flower cases, ~26 % of these): a centre player and two "petals" {centre, a, b} are known;
    # the two outer players of a petal cover (nearly) the same items, the centre covers one of them, and one or two ballast players
    # with private items keep v(N) far below, so that the lower bound of the union of the petals is lifted only in round 1 — through a
    # split whose other part was itself lifted by the monotone pass of round 0
    if prop in ("C04", "C07", "C08"):
        for i in range((24 if tier == "quick" else 96) if prop == "C04" else (6 if tier == "quick" else 40)):
            n = 6 + i % 2
            players = list(range(n))
            rnd.shuffle(players)
            c_, a1, b1, a2, b2 = players[:5]
            ballast = players[5:]
            items = iter(range(1000))
            S1 = [next(items) for _ in range(rnd.randint(1, 3))]
            S2 = [next(items) for _ in range(rnd.randint(1, 3))]
            cover = {}
            for p_, S_ in ((a1, S1), (b1, S1), (a2, S2), (b2, S2)):
                cover[p_] = frozenset(S_ if rnd.random() < 0.7 else rnd.sample(S_, max(1, len(S_) - 1)))
            cover[c_] = frozenset(rnd.sample(S1 + S2, 1)) if rnd.random() < 0.8 else frozenset([next(items)])
            for p_ in ballast:
                cover[p_] = frozenset(next(items) for _ in range(rnd.randint(1, 3)))
            v = []
            for c in range(2 ** n):
                u = set()
                for p_ in range(n):
                    if c >> p_ & 1:
                        u |= cover[p_]
                v.append(Fraction(-len(u)))
            K = set(G.minimal_ids(n)) | {(1 << c_) | (1 << a1) | (1 << b1), (1 << c_) | (1 << a2) | (1 << b2)}
            if i % 4 == 3:
                K.add(rnd.randrange(3, 2 ** n - 1))
            yield n, v, sorted(K), "sam-coverage:petalsK"
    # nearly complete knowledge with the SAME few unknown ids for n = 6, 7, 8 in ascending order within one process (the end of an
    # episode): whatever is remembered per "set of unknown coalitions" must not be carried from one player count to another
    if prop in ("C03", "C01", "C02", "C08"):
        for rep_ in range(2 if tier == "quick" else 8):
            unknown_ids = sorted(rnd.sample([c for c in range(3, 64) if G.popcount(c) >= 2 and c != 63], rnd.randint(2, 4)))
            for n in (6, 7, 8):
                v = G.sa_game(n, rnd, kind="int", neg_singletons=False)
                K = [c for c in range(2 ** n) if c not in unknown_ids]
                yield n, v, K, "sa-int:nearlyfullK"
    # the SAME set of MANY unknown ids (all 25 non-minimal coalitions of five players, or 16–22 of them) in games of 5, 6 and 7 players,
    # ascending within one process: in the bigger games everything with a further player, and {0..4}, is known
    if prop in ("C03", "C01", "C02", "C08"):
        for rep_ in range(1 if tier == "quick" else 6):
            five = [c for c in range(3, 31) if G.popcount(c) >= 2]
            unknown_ids = five if rep_ % 2 == 0 else sorted(rnd.sample(five, rnd.randint(16, 22)))
            for n in (5, 6, 7):
                v = G.sa_game(n, rnd, kind="int", neg_singletons=(rep_ % 3 == 1))
                K = [c for c in range(2 ** n) if c not in unknown_ids]
                yield n, v, K, "sa-int:many-shared-unknown-ids"
    for n, cnt in ((5, 300 if tier == "quick" else 5000), (6, 40 if tier == "quick" else 500),
                   (7, 0 if tier == "quick" else 50), (2, 4)):
        for i in range(cnt):
            if not budget.ok():
                return
            v, tag = game(n, i)
            yield n, v, G.knowledge_random(n, rnd), tag + ":randK"


def large_n_oracles(prop, tier, rnd, res, budget):
    """n = 9 (thorough: 9, 10): coalition ids above 255. The model driver is not run here (its relation table is
    O(8^n)); the property's own oracle is applied to the real computers, which is what finds a failing input."""
    # every player count from 9 to 12 (the cached computer's structure has 4^n entries: 134 MB at n = 12), not a sample: a code path
    # that starts at some n has nowhere to hide; one cost game (negative values: v(S) = |S|² − 20|S|) per player count as well
    for n in (9, 10, 11, 12):
        N = 2 ** n
        for gi in range((2 if n <= 10 else 1) if tier == "quick" else (6 if n <= 10 else 3)):
            if budget.left() < 5:
                res.notes.append("large-n oracles: budget exhausted")
                return
            samg = (gi % 2 == 0 and n <= 10) or prop == "C04"
            if samg:
                v = G.sam_game(n, rnd)
            elif n >= 11:
                v = [Fraction(G.popcount(c) ** 2 - 20 * G.popcount(c)) for c in range(N)]       # convex, all values negative
            else:
                v = G.sa_game(n, rnd, kind="int", neg_singletons=True)
            K = G.knowledge_random(n, rnd, p=0.05)
            comps = ["sam:1"] if prop == "C04" else (["sa", "sac"] if prop in ("C01", "C02", "C03") else ["sac", "sam:1" if samg else "sac"])
            outs = {}
            for comp in dict.fromkeys(comps):
                o = real_bounds(n, v, K, comp)
                res.count(f"large-n:{n}:{comp}")
                res.evaluations += 1
                case = {"n": n, "v": [rs(x) for x in v], "K": K, "computer": comp, "tag": "large-n"}
                if isinstance(o, str):
                    res.violation(f"{comp} raised {o} on a {n}-player game with minimal information known", case, key=f"bounds:large-n:{comp}:raises")
                    continue
                outs[comp] = o
                Kn, L, U = o
                if prop in ("C01", "C04"):
                    for c in range(N):
                        if not (L[c] <= v[c] <= U[c]):
                            res.violation(f"true value outside [{rs(L[c])}, {rs(U[c])}] at coalition {c} (v={rs(v[c])}), {n} players",
                                          {**case, "coalition": c}, key="bounds:large-n:unsound")
                            break
                if prop in ("C07", "C08", "C01"):
                    # one reveal step on the SAME object (stale rows from the first computation) vs a fresh object
                    from incomplete_cooperative.coalitions import Coalition
                    from incomplete_cooperative.game import IncompleteCooperativeGame
                    g = IncompleteCooperativeGame(n, computer(comp))
                    for k in K:
                        g.set_value(float(v[k]), Coalition(k))
                    g.compute_bounds()
                    unknown = [c for c in range(N) if c not in set(K)]
                    c = rnd.choice(unknown)
                    g.reveal_value(float(v[c]), Coalition(c))
                    g.compute_bounds()
                    L2 = [frac(x) for x in g.get_lower_bounds()]
                    U2 = [frac(x) for x in g.get_upper_bounds()]
                    if prop == "C07" and any(L2[x] < L[x] or U2[x] > U[x] for x in range(N)):
                        res.violation(f"revealing coalition {c} widened an interval ({comp}, {n} players)", {**case, "reveal": c},
                                      key="bounds:large-n:widening")
                    fresh = real_bounds(n, v, sorted(set(K) | {c}), comp)
                    if prop in ("C08", "C01") and (isinstance(fresh, str) or fresh[1] != L2 or fresh[2] != U2):
                        res.violation(f"bounds after reveal+compute on a used object differ from a fresh object ({comp}, {n} players)",
                                      {**case, "reveal": c}, key="bounds:large-n:history-dependence")
            if prop == "C03" and "sa" in outs and "sac" in outs and (outs["sa"][1] != outs["sac"][1] or outs["sa"][2] != outs["sac"][2]):
                res.violation(f"reference and cached computers disagree on a {n}-player game", {"n": n, "v": [rs(x) for x in v], "K": K},
                              key="bounds:large-n:sa-vs-sac")
            if prop == "C02" and "sac" in outs and n <= 9:
                pass    # the brute-force partition oracle is exponential; tightness at n ≥ 9 is covered through C03 (sa = sac) only


def run(tier: str, budget: Budget, rnd, prop: str) -> StreamResult:
    res = StreamResult(f"bounds[{prop}]")
    if prop == "C04":
        # (thorough: three more repetition counts, not all of 4..10 — with eleven computers the model driver needed more than its
        # 600 s for the 180 000 cases on a loaded machine and the check ended as an infrastructure error; the theorems cover every r)
        comps = ["sam:0", "sam:1", "sam:2", "sam:3"] + (["sam:10"] if tier == "quick" else ["sam:5", "sam:7", "sam:10"])
    elif prop in ("C07", "C08"):
        comps = ["sa", "sac", "sam:1"]
    else:
        comps = ["sa", "sac"]
    script = Script()
    pending = []     # (dump line index, case dict)
    cache = {}       # (game id, computer) -> {K tuple: (lo, hi)}   for the edge oracle
    games = {}
    ncase = 0
    for n, v, K, tag in gen_cases(tier, rnd, prop, budget):
        N = 2 ** n
        gid = id(v)
        games[gid] = (n, v)
        is_sam_game = tag.startswith("sam")
        for comp in comps:
            if comp.startswith("sam") and not is_sam_game:
                continue
            if prop == "C04" and n > 5 and comp not in ("sam:0", "sam:1", "sam:2", "sam:3"):
                continue        # the refinement has converged after round 1 (C04.rep_mono + fixed point); the model's cost grows with r·3^n
            stale = None
            if rnd.random() < 0.5:
                stale = ([Fraction(rnd.randint(-1000, 1000)) for _ in range(N)],
                         [Fraction(rnd.randint(-1000, 1000)) for _ in range(N)])
            out = real_bounds(n, v, K, comp, stale)
            name = f"c{ncase}"
            ncase += 1
            ls = model_lines(name, n, v, K, comp, stale)
            for ln in ls[:-3]:
                script.add(ln, None)
            case = {"n": n, "v": [rs(x) for x in v], "K": K, "computer": comp, "tag": tag,
                    "stale": None if stale is None else [[rs(x) for x in s_] for s_ in stale]}
            if isinstance(out, str):
                script.add(ls[-3], out, case)
                script.add(ls[-2], None)
                script.add(ls[-1], None)
                res.count(f"err:{comp}:{out}")
                # every case here satisfies the minimal-information guard: a raise is outside the model's domain
                res.violation(f"{comp} raised {out} on a game with minimal information known", case) \
                    if prop in ("C01", "C03") else None
                continue
            script.add(ls[-3], "ok", case)
            script.add(ls[-2], None, case)
            pending.append((len(script) - 1, case, out))
            script.add(ls[-1], None)
            Kn, L, U = out
            res.evaluations += 1
            res.count(f"n={n}"); res.count(f"comp={comp}"); res.count(tag)
            widths = {U[c] - L[c] for c in range(N)}
            if len(K) < N and len(widths) >= 2 and G.asymmetric(v, n):
                res.nontrivial.add((gid, tuple(K), comp))
            if ncase % 997 == 1:
                res.sample(case)
            cache.setdefault((gid, comp), {})[tuple(K)] = (L, U)
            # ---------------- property oracles on the real code -------------------------------
            if prop == "C01" or (prop == "C04"):
                for c in range(N):
                    if not (L[c] <= v[c] <= U[c]) or L[c] > U[c] or (c in K and not (L[c] == U[c] == v[c])):
                        res.violation(f"true value outside [{rs(L[c])}, {rs(U[c])}] at coalition {c} (v={rs(v[c])})",
                                      {**case, "coalition": c, "lo": rs(L[c]), "hi": rs(U[c])})
                        break
                if Kn != [c in set(K) for c in range(N)]:
                    res.violation("compute_bounds changed the known flags", case)
            if prop == "C02" and (n <= 5 or tag.endswith(":blockK")):
                tl, tu = tight_bounds(n, v, K)
                for c in range(N):
                    if L[c] != tl[c] or U[c] != tu[c]:
                        res.violation(f"bound at coalition {c} is not the extreme over superadditive completions: "
                                      f"computed [{rs(L[c])},{rs(U[c])}], exact [{rs(tl[c])},{rs(tu[c])}]",
                                      {**case, "coalition": c})
                        break
            if prop == "C03" and comp == "sa":
                o2 = real_bounds(n, v, K, "sac", stale)
                if isinstance(o2, str) or o2[1] != L or o2[2] != U:
                    res.violation("reference and cached computers disagree", {**case, "sa": [[rs(x) for x in L], [rs(x) for x in U]],
                                                                             "sac": o2 if isinstance(o2, str) else [[rs(x) for x in o2[1]], [rs(x) for x in o2[2]]]})
            if prop == "C04":
                r = int(comp[4:])
                sab = real_bounds(n, v, K, "sac")
                if not isinstance(sab, str):
                    for c in range(N):
                        if L[c] < sab[1][c] or U[c] > sab[2][c]:
                            res.violation(f"sam:{r} looser than the superadditive bounds at {c}", {**case, "coalition": c})
                            break
                prev = cache.get((gid, f"sam:{r - 1}"), {}).get(tuple(K)) if r > 0 else None
                if prev is not None:
                    for c in range(N):
                        if L[c] < prev[0][c] or U[c] > prev[1][c]:
                            res.violation(f"raising repetitions {r-1}->{r} loosened the bounds at {c}", {**case, "coalition": c})
                            break
                Ks = set(K)
                for c in range(N):
                    bad = None
                    for x in G.submasks(c):
                        if L[x] < L[c]:
                            bad = f"lower bounds not monotone non-increasing: lo({x}) < lo({c})"
                        if x not in (0, c) and x in Ks and c not in Ks and U[c] > v[x]:
                            bad = f"upper({c}) exceeds the value of known sub-coalition {x}"
                    if c not in Ks:
                        for T in range(N):
                            if T & c == c and T != c and T in Ks and U[c] > v[T] - L[T ^ c]:
                                bad = f"upper({c}) exceeds v({T}) - lower({T ^ c})"
                    if bad:
                        res.violation(bad, {**case, "coalition": c})
                        break
    # ---------------- C08: stale rows = what ANOTHER registered computer leaves for the same knowledge ----------------
    # ("stale bounds left by earlier computations never influence later ones": the earlier computation may have been made by a
    # cheaper computer — fewer repetitions, the plain superadditive one — whose output is the most plausible thing to be mistaken
    # for "already converged").  Games of any class with many exact ties (small integers), where the sam repetitions matter.
    if prop == "C08":
        pairs = [("sam:0", "sam:1"), ("sam:0", "sam:2"), ("sam:1", "sam:10"), ("sac", "sam:1"), ("sam:1", "sac"), ("sa", "sac"),
                 ("sam:2", "sam:1")]
        for gi in range(40 if tier == "quick" else 400):
            if not budget.ok():
                break
            n = 5 if gi % 2 else 4
            N = 2 ** n
            v = [Fraction(0)] + [Fraction(-rnd.randint(1, 4)) for _ in range(N - 1)] if gi % 4 != 3 else G.sam_game(n, rnd)
            K = G.knowledge_random(n, rnd, p=rnd.choice([0.05, 0.15, 0.3]))
            for c1, c2 in pairs:
                first = real_bounds(n, v, K, c1)
                if isinstance(first, str):
                    continue
                stale = (first[1], first[2])
                used = real_bounds(n, v, K, c2, stale)
                fresh = real_bounds(n, v, K, c2)
                res.evaluations += 1
                res.count(f"stale-from-other-computer:{c1}->{c2}")
                case = {"n": n, "v": [rs(x) for x in v], "K": K, "computer": c2, "tag": "stale=output of " + c1,
                        "stale": [[rs(x) for x in s_] for s_ in stale]}
                if used != fresh:
                    res.violation(f"{c2} gives different bounds when the unknown rows hold what {c1} computed for the same knowledge "
                                  f"than on a fresh table", case, key="bounds:stale-from-other-computer")
                if not isinstance(used, str):
                    name = f"x{ncase}"
                    ncase += 1
                    ls = model_lines(name, n, v, K, c2, stale)
                    for ln in ls[:-3]:
                        script.add(ln, None)
                    script.add(ls[-3], "ok", case)
                    script.add(ls[-2], None, case)
                    pending.append((len(script) - 1, case, used))
                    script.add(ls[-1], None)
                    if used[1] != first[1] or used[2] != first[2]:
                        res.nontrivial.add(("stale-other", gi, c1, c2))
    # ---------------- large player counts: property oracles on the real code only (no model tie) ---------
    large_n_oracles(prop, tier, rnd, res, budget)
    # ---------------- C07: every lattice edge whose two ends were computed -----------------------
    if prop == "C07":
        for (gid, comp), table in cache.items():
            n, v = games[gid]
            for Kt, (L, U) in table.items():
                Ks = set(Kt)
                for c in range(2 ** n):
                    if c in Ks:
                        continue
                    K2 = tuple(sorted(Ks | {c}))
                    if K2 not in table:
                        continue
                    L2, U2 = table[K2]
                    res.count("edges")
                    if any(L2[x] < L[x] or U2[x] > U[x] for x in range(2 ** n)):
                        res.violation(f"revealing coalition {c} widened an interval ({comp})",
                                      {"n": n, "v": [rs(x) for x in v], "K": list(Kt), "reveal": c, "computer": comp})
    # ---------------- model side ------------------------------------------------------------------
    for b in script.diff():
        res.disagree("compute outcome", {k: b[k] for k in ("line", "impl", "model", "ctx")})
    for idx, case, (Kn, L, U) in pending:
        try:
            mK, mL, mU = parse_dump(script.outs[idx])
        except Exception:
            res.disagree("unparsable model dump", {"case": case, "model": script.outs[idx]})
            continue
        if prop == "C01":
            ok = mK == Kn and all(L[c] <= mL[c] and mU[c] <= U[c] for c in range(len(L))) and \
                all(L[c] == mL[c] and U[c] == mU[c] for c in case["K"])
        else:
            ok = (mK, mL, mU) == (Kn, L, U)
        if not ok:
            res.disagree("bounds after compute", {"case": case, "impl": {"L": [rs(x) for x in L], "U": [rs(x) for x in U]},
                                                  "model": script.outs[idx]})
            if len(res.disagreements) >= 20:
                break
    return res


def replay(prop: str, payload: dict):
    """re-run one recorded (game, knowledge, computer, stale pre-fill) case on the real computers and apply the oracle"""
    inp = payload["input"]
    n = inp["n"]
    v = [Fraction(x) for x in inp["v"]]
    K = inp["K"]
    comp = inp.get("computer", "sac")
    stale = None if not inp.get("stale") else [[Fraction(x) for x in s_] for s_ in inp["stale"]]
    if "reveal" in inp:
        a = real_bounds(n, v, K, comp)
        b = real_bounds(n, v, sorted(set(K) | {inp["reveal"]}), comp)
        wid = (not isinstance(a, str)) and (not isinstance(b, str)) and any(b[1][x] < a[1][x] or b[2][x] > a[2][x] for x in range(2 ** n))
        return wid, f"bounds before reveal: {a}\nbounds after revealing {inp['reveal']}: {b}\nwidened: {wid}"
    out = real_bounds(n, v, K, comp, stale)
    if isinstance(out, str):
        return True, f"{comp} raised {out}"
    Kn, L, U = out
    msgs = [f"computer {comp}: L={rlist(L)}", f"U={rlist(U)}"]
    bad = False
    if prop in ("C01", "C04"):
        for c in range(2 ** n):
            if not (L[c] <= v[c] <= U[c]):
                bad = True
                msgs.append(f"true value {rs(v[c])} of coalition {c} outside [{rs(L[c])}, {rs(U[c])}]")
    if prop == "C02" and n <= 5:
        tl, tu = tight_bounds(n, v, K)
        for c in range(2 ** n):
            if L[c] != tl[c] or U[c] != tu[c]:
                bad = True
                msgs.append(f"coalition {c}: computed [{rs(L[c])},{rs(U[c])}] exact [{rs(tl[c])},{rs(tu[c])}]")
    if prop == "C03":
        o2 = real_bounds(n, v, K, "sac" if comp == "sa" else "sa", stale)
        if isinstance(o2, str) or o2[1] != L or o2[2] != U:
            bad = True
            msgs.append(f"other computer: {o2}")
    if prop == "C08":
        o2 = real_bounds(n, v, K, comp, None)
        if isinstance(o2, str) or o2[1] != L or o2[2] != U:
            bad = True
            msgs.append(f"without the stale pre-fill: {o2}")
    return bad, "\n".join(msgs)
