"""Correspondence stream `regret` (C14): GameRegretMinimizer vs ICG.Model.Regret (exact `Rat`).

A *case* is (n, limit, plus, history); a history is a list of `regret_min_iteration` calls
(terminal losses, used_actions).  `used_actions` is what the only caller in the repository
(tests/test_regret.py) passes: every coalition set of size exactly min(limit, #viable), each as a list of
`Coalition`s, in an arbitrary order (here: shuffled; now and then a leaf is left out — its terminal value is
then 0 — or a singleton / the empty coalition is mixed in, which `get_metacoalition_id` drops).
Terminal losses are non-negative multiples of 1/8 (or sparse 0/1 vectors like the repository's tests).

What is compared with the model
  * exactly: construction outcome (ok / error kind), n, m, stored limit, plus, number of ranks, number
    of regret minimisers, table length, iteration counter, rank → id list and id → rank at those ids,
    the coalition → player-id map, `coalitions_up_to`, `get_metacoalition_id` (incl. malformed inputs),
    error kinds of every call, and the structural zeros (used coalitions, non-viable coalition ids);
  * float32 numbers (cumulative regret, cumulative strategy, current strategy, average strategy) against
    the exact rationals with tolerance 1e-5 · max(1, largest magnitude of the compared array).
    Regret matching is discontinuous where a cumulative regret changes sign: when the exact regret of an
    entry is within 1e-5 of zero and float32 landed on the other side (or the positive part sums to less
    than 1e-3), the history is *float-tied* from there on and its later numbers are not compared
    (counted in `float_tie_histories`; the oracle below still runs on it).
  The model is fed two numbers observed on the real object — the allocated length of `meta_id_to_rank`
  and the stored `limit_of_revealed` (after a failed constructor both are read from the constructor's
  frame) — because these are exactly the two places where the current tree and its one-line repairs
  differ (ICG.Model.Regret.Policy); everything else the model derives itself.

The property oracle (on the real object only, independent of the model), per clause of C14:
  constructible; ranking = bijection onto the masks of popcount ≤ min(limit, m), sorted by popcount, and
  `meta_id_to_rank` inverts it; before and after every iteration, at every node that has a regret
  minimiser and at every internal node: the current strategy is finite, ≥ 0, sums to 1 (1e-5), is 0 on the
  coalitions already revealed there; same for the average strategy over coalition ids (0 on non-viable
  ids too); plain: ⟨strategy played, regret added⟩ = 0 within 1e-4·scale and regret of revealed actions
  ≤ 0; plus: regret ≥ 0 and ⟨strategy, added⟩ ≥ −1e-4·scale; a saved-then-loaded minimiser has equal
  parameters and arrays and stays bit-identical over two further iterations.
  "Saved-then-loaded … continues identically" for every load of a checkpoint (`checkpoint_again`): the
  directory is loaded twice right away (A, and a sibling that is never iterated) and a third time (B) after A
  ran the further iterations next to the original.  The sibling still equals the deep copy of the state taken
  at save time (key `regret:checkpoint-aliasing`), B equals that copy and the saved params.json
  (`regret:checkpoint-rewritten`), B — with its own oracle and its own model instance — then retraces the
  original's further iterations bit for bit, and so does a twin that went through the same history without
  ever being saved (`regret:history-determinism`); iterating B leaves A and the sibling alone.  Only values
  are compared (not the array class or identity), so an eager, a copy-on-write-mapped … load are all fine.

Ensembles (`ensemble`, "all histories" of SEVERAL minimisers in one process): 2–4 minimisers (same n and
  limit plain next to plus, same n with different limits, different n, one configuration with two histories)
  plus minimisers loaded from checkpoints of them are alive together, and a random schedule interleaves their
  iterations with public `regret_matching_strategy` (id and coalition-list form) / `get_average_strategy`
  queries at all nodes, saves, and loads (a checkpoint is loaded right after the save, again later, and once
  more at the very end; a loaded minimiser retraces 0–2 of the saver's remaining iterations).  Each minimiser
  has its own model instance (all lines as above) and its own property oracle (orthogonality is checked
  against the strategies of its latest query whenever that query was made after its previous iteration).
  In addition its tables, iteration outcome, current and average strategies are compared bit for bit with a
  reference: the same configuration and history run alone before the ensemble exists (`solo_reference`,
  itself under the oracle) — the state of a minimiser is a function of its own history
  (`regret:instances-interfere`); every load is compared with the deep copy taken at its save
  (`regret:save-load` for the first load, `regret:checkpoint-rewritten` once a minimiser loaded earlier from
  the same directory has been iterated, `regret:checkpoint-aliasing` for a never-iterated loaded minimiser
  that changed).  Replay input of an ensemble violation: {"ensemble": {"members", "schedule"}}; of a
  checkpoint violation: n, limit, plus, history, saved_at.

Non-trivial case = constructed, ≥ 2 iterations, at least one node played a non-uniform strategy (positive
regret branch) and at least one node with revealed coalitions used the uniform fallback; distinct by
(n, limit, plus, history).  Keys of the two findings reproduced on the unchanged tree:
`regret:constructor-index-error`, `regret:nan-when-limit-exceeds-viable`.
"""
from __future__ import annotations

import itertools
import json
import shutil
import tempfile
import warnings
from fractions import Fraction
from pathlib import Path

import numpy as np

from common import Budget, Script, StreamResult, err_kind, nlist, rlist, rs

KEY_INDEX = "regret:constructor-index-error"
KEY_NAN = "regret:nan-when-limit-exceeds-viable"
RTOL = 1e-5


def popc(x: int) -> int:
    return bin(x).count("1")


def viable(n: int) -> list[int]:
    return [c for c in range(2 ** n) if popc(c) not in (0, 1, n)]


def bits(x: int) -> list[int]:
    return [i for i in range(x.bit_length()) if x >> i & 1]


# --------------------------------------------------------------------------------------------------
# the real object

def construct(n: int, limit: int, plus: bool):
    """-> (object | None, answer, observed table length | None, observed stored limit | None)"""
    from incomplete_cooperative.regret import GameRegretMinimizer
    try:
        with warnings.catch_warnings():
            warnings.simplefilter("ignore")
            rm = GameRegretMinimizer(n, limit, plus)
        return rm, "ok", len(rm.meta_id_to_rank), int(rm.limit_of_revealed)
    except Exception as e:  # noqa: BLE001
        tlen = stored = None
        tb = e.__traceback__
        while tb is not None:
            s = tb.tb_frame.f_locals.get("self")
            if isinstance(s, GameRegretMinimizer):
                if hasattr(s, "meta_id_to_rank"):
                    tlen = len(s.meta_id_to_rank)
                if hasattr(s, "limit_of_revealed"):
                    stored = int(s.limit_of_revealed)
            tb = tb.tb_next
        return None, err_kind(e), tlen, stored


def pol(tlen, stored) -> str:
    return f" {tlen} {stored}" if tlen is not None and stored is not None else ""


def all_leaves(n: int, limit: int) -> list[list[int]]:
    V = viable(n)
    k = min(limit, len(V))
    return [list(s) for s in itertools.combinations(V, k)]


def gen_history(rnd, n: int, limit: int, steps: int) -> list[dict]:
    hist = []
    for _ in range(steps):
        lv = all_leaves(n, limit)
        rnd.shuffle(lv)
        r = rnd.random()
        if r < 0.12 and len(lv) > 1:
            lv = lv[: rnd.randint(1, len(lv) - 1)]                 # some leaves never evaluated
        lv = [rnd.sample(x, len(x)) for x in lv]
        if r > 0.85:
            lv = [x + [rnd.choice([0] + [1 << i for i in range(n)])] for x in lv]   # dropped by the code
        if rnd.random() < 0.3:
            term = [Fraction(rnd.choice([0, 0, 1])) for _ in lv]
        else:
            term = [Fraction(rnd.randint(0, 64), 8) for _ in lv]
        hist.append({"terminal": [rs(x) for x in term], "used": lv})
    return hist


def used_str(lists: list[list[int]]) -> str:
    return ";".join(nlist(x) if x else "e" for x in lists) if lists else "-"


def finite(a) -> bool:
    return bool(np.all(np.isfinite(np.asarray(a, dtype=float))))


def vec_answer(f) -> tuple[str, np.ndarray | None]:
    """call f; -> (canonical error answer or 'num', array)"""
    try:
        with warnings.catch_warnings():
            warnings.simplefilter("ignore")
            a = np.asarray(f(), dtype=float)
    except Exception as e:  # noqa: BLE001
        return err_kind(e), None
    if not finite(a):
        return "err:nan", None
    return "num", a


# --------------------------------------------------------------------------------------------------
# the property oracle on the real object

class Oracle:
    def __init__(self, n: int, limit: int, plus: bool, hist_done: list[dict]):
        self.n, self.limit, self.plus = n, limit, plus
        self.V = viable(n)
        self.m = len(self.V)
        self.hist = hist_done
        self.found: list[tuple[str, dict, str]] = []
        self.nonuniform = False
        self.fallback_used = False
        self.nodes = 0

    def bad(self, what: str, key: str, **extra) -> None:
        if len(self.found) < 8:
            self.found.append((what, {"n": self.n, "limit": self.limit, "plus": self.plus,
                                       "history": [dict(h) for h in self.hist], **extra}, key))

    def nan_key(self, other: str) -> str:
        return KEY_NAN if self.limit > self.m else other

    def static(self, rm) -> None:
        m, k = self.m, min(self.limit, self.m)
        ids = [int(x) for x in rm.meta_rank_to_id]
        want = {x for x in range(2 ** m) if popc(x) <= k} if m <= 12 else None
        sizes = [popc(x) for x in ids]
        if len(set(ids)) != len(ids) or sizes != sorted(sizes) or (want is not None and set(ids) != want) \
                or (want is None and (any(x >= 2 ** m or popc(x) > k for x in ids)
                                      or len(ids) != sum(_binom(m, j) for j in range(k + 1)))):
            self.bad("ranking of coalition sets is not a bijection ordered by set size", "regret:ranking",
                     ids=ids[:64])
        try:
            inv = [int(rm.meta_id_to_rank[x]) for x in ids]
        except Exception as e:  # noqa: BLE001
            inv = None
            self.bad(f"id → rank table cannot be read at a ranked id ({type(e).__name__})", "regret:rank-inverse")
        if inv is not None and inv != list(range(len(ids))):
            self.bad("meta_id_to_rank does not invert meta_rank_to_id", "regret:rank-inverse")
        pm = [int(x) for x in rm.coalitions_to_player_ids]
        if pm != [self.V.index(c) if c in self.V else -1 for c in range(2 ** self.n)]:
            self.bad("coalition → player-id map is not the numbering of the viable coalitions", "regret:pidmap")

    def node_ids(self, rm) -> list[int]:
        """nodes that have a regret minimiser, and every internal node (size < min(limit, m))"""
        R = int(rm.number_of_regret_minimizers)
        ids = [int(x) for x in rm.meta_rank_to_id]
        k = min(self.limit, self.m)
        out = ids[:R]
        seen = set(out)
        out += [x for x in ids if popc(x) < k and x not in seen]
        return out

    def strategies(self, rm) -> dict[int, np.ndarray | None]:
        out = {}
        for mid in self.node_ids(rm):
            kind, a = vec_answer(lambda: rm.regret_matching_strategy(mid))
            out[mid] = a
            self.nodes += 1
            used = bits(mid)
            if a is None:
                if kind == "err:nan":
                    self.bad("current strategy is not finite (0/0) at a node", self.nan_key("regret:non-finite"),
                             node=mid, iteration=len(self.hist))
                else:
                    self.bad(f"regret_matching_strategy raises {kind} at a node", "regret:strategy-raises",
                             node=mid, iteration=len(self.hist))
                continue
            if a.shape != (self.m,) or np.any(a < 0) or abs(a.sum() - 1) > 1e-5:
                self.bad("current strategy is not a probability distribution", "regret:strategy-not-distribution",
                         node=mid, iteration=len(self.hist), strategy=a.tolist())
            elif np.any(a[used] != 0):
                self.bad("current strategy puts weight on an already revealed coalition", "regret:strategy-support",
                         node=mid, iteration=len(self.hist), strategy=a.tolist())
            free = [i for i in range(self.m) if i not in used]
            if len(free) > 1 and a.shape == (self.m,):
                if np.ptp(a[free]) > 1e-6:
                    self.nonuniform = True
                elif used:
                    self.fallback_used = True
        return out

    def averages(self, rm) -> dict[int, np.ndarray | None]:
        out = {}
        for mid in self.node_ids(rm):
            used = bits(mid)
            from incomplete_cooperative.coalitions import Coalition
            coals = [Coalition(self.V[i]) for i in used]
            # the parameter is an Iterable: a list, a tuple, or a one-shot iterator / generator (consumed once) all name the node
            form = (mid + len(self.hist)) % 4
            arg = coals if form == 0 else tuple(coals) if form == 1 else iter(coals) if form == 2 else (c_ for c_ in coals)
            kind, a = vec_answer(lambda: rm.get_average_strategy(arg))
            if kind == "num" and form >= 2:
                kind2, a2 = vec_answer(lambda: rm.regret_matching_strategy(iter(list(coals))))
                kind3, a3 = vec_answer(lambda: rm.regret_matching_strategy(mid))
                if a2 is None or a3 is None or not np.array_equal(a2, a3):
                    self.bad("regret_matching_strategy gives different answers for a node named by a one-shot iterator of its "
                             "coalitions and by its id", "regret:strategy-iterator-form", node=mid, iteration=len(self.hist))
            out[mid] = a
            if a is None:
                if kind == "err:nan":
                    self.bad("average strategy is not finite (0/0) at a node", self.nan_key("regret:non-finite"),
                             node=mid, iteration=len(self.hist))
                else:
                    self.bad(f"get_average_strategy raises {kind} at a node", "regret:average-raises",
                             node=mid, iteration=len(self.hist))
                continue
            zero = [c for c in range(2 ** self.n) if c not in self.V or self.V.index(c) in used]
            if a.shape != (2 ** self.n,) or np.any(a < 0) or abs(a.sum() - 1) > 1e-5:
                self.bad("average strategy is not a probability distribution over coalition ids",
                         "regret:average-not-distribution", node=mid, iteration=len(self.hist), average=a.tolist())
            elif np.any(a[zero] != 0):
                self.bad("average strategy puts weight on a non-viable or already revealed coalition",
                         "regret:average-support", node=mid, iteration=len(self.hist), average=a.tolist())
        return out

    def after_iteration(self, rm, before: np.ndarray, strat_before: dict) -> None:
        reg = np.asarray(rm.cumulative_regret, dtype=float)
        strat = np.asarray(rm.cumulative_strategy, dtype=float)
        if not (finite(reg) and finite(strat)):
            self.bad("cumulative regret / strategy is not finite after an iteration with non-negative terminal values",
                     self.nan_key("regret:non-finite"), iteration=len(self.hist))
            return
        if int(rm.iteration) != len(self.hist):
            self.bad("iteration counter is not the number of iterations", "regret:iteration-counter")
        scale = max(1.0, float(np.max(np.abs(reg))) if reg.size else 1.0)
        added = reg - before
        ids = [int(x) for x in rm.meta_rank_to_id]
        for r in range(reg.shape[0]):
            mid = ids[r]
            used = bits(mid)
            s = strat_before.get(mid)
            if s is not None and s.shape != added[r].shape:
                s = None                           # wrong length: reported by `strategies` when it was queried
            if self.plus:
                if np.any(reg[r] < 0):
                    self.bad("plus variant: cumulative regret is negative after an iteration", "regret:plus-negative",
                             node=mid, iteration=len(self.hist), regret=reg[r].tolist())
                if s is not None and float(np.dot(s, added[r])) < -1e-4 * scale:
                    self.bad("plus variant: ⟨strategy played, regret added⟩ < 0", "regret:orthogonality",
                             node=mid, iteration=len(self.hist))
            else:
                if s is not None and abs(float(np.dot(s, added[r]))) > 1e-4 * scale:
                    self.bad("regret added at a node is not orthogonal to the strategy played there",
                             "regret:orthogonality", node=mid, iteration=len(self.hist),
                             dot=float(np.dot(s, added[r])))
                if np.any(reg[r][used] > 1e-5 * scale):
                    self.bad("cumulative regret of an already revealed coalition is positive", "regret:used-positive",
                             node=mid, iteration=len(self.hist), regret=reg[r].tolist())
            if np.any(strat[r] < 0) or np.any(strat[r][used] != 0):
                self.bad("cumulative strategy is negative or non-zero on a revealed coalition",
                         "regret:cumulative-strategy-support", node=mid, iteration=len(self.hist))


def _binom(n: int, k: int) -> int:
    import math
    return math.comb(n, k)


def do_iteration(rm, step: dict) -> str:
    from incomplete_cooperative.coalitions import Coalition
    term = np.array([float(Fraction(x)) for x in step["terminal"]], dtype=np.float32)
    used = [[Coalition(c) for c in x] for x in step["used"]]
    try:
        with warnings.catch_warnings():
            warnings.simplefilter("ignore")
            rm.regret_min_iteration(term, used)
    except Exception as e:  # noqa: BLE001
        return err_kind(e)
    if not (finite(rm.cumulative_regret) and finite(rm.cumulative_strategy)):
        return "err:nan"
    return "ok"


# --------------------------------------------------------------------------------------------------
# one case on both sides

class Num:
    """a numeric model line to be compared with tolerance after the driver ran"""

    def __init__(self, case, t, what, impl, zeros=()):
        self.case, self.t, self.what, self.impl, self.zeros = case, t, what, impl, zeros


def rows_answer(a: np.ndarray) -> list[list[float]]:
    return [[float(x) for x in row] for row in a]


def drive(res, script, case_id, name, n, limit, plus, hist, rnd, tmp: Path | None, sample_nodes=24, after_load=2,
          more_steps: list[dict] | None = None):
    """Run one case on the real code (oracle) and, when `script` is given, emit the model lines.
    `more_steps`: the iterations made after the save point (replays); drawn from `rnd` when None."""
    from incomplete_cooperative.coalitions import Coalition
    from incomplete_cooperative.regret import GameRegretMinimizer
    done: list[dict] = []
    orc = Oracle(n, limit, plus, done)
    V = viable(n)
    m = len(V)

    def add(line, ans=None, ctx=None):
        if script is not None:
            script.add(line, ans, ctx)

    def numeric(line, t, what, f, zeros=()):
        kind, a = vec_answer(f)
        if kind == "num":
            add(line, None, Num(case_id, t, what, a, zeros))
        else:
            add(line, kind, {"case": case_id, "t": t})

    rm, ans, tlen, stored = construct(n, limit, plus)
    add(f"rgt new {name} {n} {limit} {int(plus)}{pol(tlen, stored)}", ans, {"case": case_id})
    res.count(f"construct:n{n}:{ans}")
    if rm is None:
        if ans == "err:index":
            orc.bad("GameRegretMinimizer(n, limit) raises IndexError (id → rank table indexed by raw mask ids)", KEY_INDEX)
        else:
            orc.bad(f"GameRegretMinimizer(n, limit) raises {ans}", f"regret:constructor-raises:{ans}")
        return orc, None
    R = int(rm.number_of_regret_minimizers)
    add(f"rgt info {name}", f"n={rm.number_of_players} m={rm.number_of_coalitions} limit={stored} plus={int(bool(rm.plus))} "
                            f"V={rm.viable_metacoalitions} R={R} tlen={tlen} it={rm.iteration}", {"case": case_id})
    ids = [int(x) for x in rm.meta_rank_to_id]
    try:
        inv = ",".join(str(int(rm.meta_id_to_rank[x])) for x in ids)
    except Exception:  # noqa: BLE001
        inv = "unreadable"
    add(f"rgt ranks {name}", f"ids={nlist(ids)} inv={inv}", {"case": case_id})
    if tuple(rm.cumulative_regret.shape) != (R, m) or tuple(rm.cumulative_strategy.shape) != (R, m):
        orc.bad("regret / strategy arrays are not (regret minimisers × viable coalitions)", "regret:shape")
    orc.static(rm)

    def node_lines(t):
        nodes = orc.node_ids(rm)
        if len(nodes) > sample_nodes:
            nodes = [nodes[0]] + rnd.sample(nodes[1:], sample_nodes - 1)
        for mid in nodes:
            used = bits(mid)
            numeric(f"rgt strategy {name} {mid}", t, "strategy", lambda: rm.regret_matching_strategy(mid), used)
            cs = [V[i] for i in used]
            rnd.shuffle(cs)
            zero = [c for c in range(2 ** n) if c not in V or V.index(c) in used]
            numeric(f"rgt avg {name} {nlist(cs)}", t, "average",
                    lambda: rm.get_average_strategy([Coalition(c) for c in cs]), zero)
        if nodes:
            mid = rnd.choice(nodes)
            cs = [V[i] for i in bits(mid)]
            numeric(f"rgt strategyc {name} {nlist(cs)}", t, "strategy",
                    lambda: rm.regret_matching_strategy([Coalition(c) for c in cs]), bits(mid))

    strat = orc.strategies(rm)
    orc.averages(rm)
    node_lines(0)
    # a few get_metacoalition_id calls, incl. malformed ones
    for _ in range(3):
        cs = [rnd.choice(V + [0, 1, 2 ** n - 1, 2 ** n + 1] + V) for _ in range(rnd.randint(0, 3))]
        try:
            a = str(int(rm.get_metacoalition_id([Coalition(c) for c in cs])))
        except Exception as e:  # noqa: BLE001
            a = err_kind(e)
        add(f"rgt metaid {name} {nlist(cs)}", a, {"case": case_id})
        res.count(f"metaid:{'err' if a.startswith('err') else 'ok'}")

    alive = True
    for t, step in enumerate(hist, start=1):
        before = np.asarray(rm.cumulative_regret, dtype=float).copy()
        a = do_iteration(rm, step)
        done.append(step)
        add(f"rgt iter {name} {','.join(step['terminal']) or '-'} {used_str(step['used'])}", a, {"case": case_id, "t": t})
        res.count(f"iter:{a}")
        if a != "ok":
            if a == "err:nan":
                orc.after_iteration(rm, before, strat)
            else:
                orc.bad(f"regret_min_iteration raises {a}", f"regret:iteration-raises:{a}", iteration=t)
            alive = False
            break
        orc.after_iteration(rm, before, strat)
        add(f"rgt regret {name}", None, Num(case_id, t, "regret", np.asarray(rm.cumulative_regret, dtype=float)))
        add(f"rgt cumstrat {name}", None, Num(case_id, t, "cumstrat", np.asarray(rm.cumulative_strategy, dtype=float)))
        strat = orc.strategies(rm)
        orc.averages(rm)
        node_lines(t)
    # save / load
    if alive and tmp is not None:
        d = tmp / f"{name}"
        snap = snapshot(rm)                       # deep copy of the state at save time
        T = len(hist)
        rm2 = rm3 = None
        try:
            try:
                rm.save(d)
                params = json.loads((d / "params.json").read_text())
                rm2 = GameRegretMinimizer.load(d)
            except Exception as e:  # noqa: BLE001
                orc.bad(f"save / load raises {type(e).__name__}", "regret:save-load")
                rm2 = None
            if rm2 is not None:
                same = (params == {"iteration": int(rm.iteration), "number_of_players": n,
                                   "limit_of_revealed": int(rm.limit_of_revealed), "plus": bool(plus)}
                        and rm2.iteration == rm.iteration and rm2.plus == rm.plus
                        and rm2.limit_of_revealed == rm.limit_of_revealed
                        and rm2.cumulative_regret.dtype == rm.cumulative_regret.dtype
                        and np.array_equal(rm2.cumulative_regret, rm.cumulative_regret)
                        and np.array_equal(rm2.cumulative_strategy, rm.cumulative_strategy)
                        and np.array_equal(rm2.meta_rank_to_id, rm.meta_rank_to_id)
                        and np.array_equal(rm2.meta_id_to_rank, rm.meta_id_to_rank))
                if not same:
                    orc.bad("a saved-then-loaded minimiser differs from the original", "regret:save-load")
                if not same_state(rm, snap) or not same_state(rm2, snap):
                    orc.bad("saving changed the minimiser, or the loaded minimiser is not the state at save time",
                            "regret:save-load", saved_at=T)
                try:                              # a sibling loaded from the same checkpoint, never iterated
                    rm3 = GameRegretMinimizer.load(d)
                except Exception as e:  # noqa: BLE001
                    orc.bad(f"loading one checkpoint twice raises {type(e).__name__}", "regret:save-load", saved_at=T)
                if rm3 is not None and not same_state(rm3, snap):
                    orc.bad("the second of two minimisers loaded from one checkpoint is not the saved state",
                            "regret:save-load", saved_at=T)
                n2, nB = name + "L", name + "B"
                pol2 = pol(len(rm2.meta_id_to_rank), int(rm2.limit_of_revealed))
                add(f"rgt saveload {name} {n2}{pol2}", "ok", {"case": case_id})
                # the model's checkpoint loaded once more (the real one is loaded again further down, after `n2` moved on)
                add(f"rgt saveload {name} {nB}{pol2}", None, {"case": case_id})
                add(f"rgt info {n2}", f"n={rm2.number_of_players} m={rm2.number_of_coalitions} limit={int(rm2.limit_of_revealed)} "
                                      f"plus={int(bool(rm2.plus))} V={rm2.viable_metacoalitions} R={int(rm2.number_of_regret_minimizers)} "
                                      f"tlen={len(rm2.meta_id_to_rank)} it={rm2.iteration}", {"case": case_id})
                more = [dict(x) for x in more_steps] if more_steps is not None else gen_history(rnd, n, limit, after_load)
                traj: list[dict] = []             # the original after each further iteration
                continued = False
                for j, step in enumerate(more, start=1):
                    a1, a2 = do_iteration(rm, step), do_iteration(rm2, step)
                    done.append(step)
                    line = f"{','.join(step['terminal']) or '-'} {used_str(step['used'])}"
                    add(f"rgt iter {name} {line}", a1, {"case": case_id, "t": T + j})
                    add(f"rgt iter {n2} {line}", a2, {"case": case_id, "t": T + j})
                    if a1 != a2 or a1 != "ok" or not (np.array_equal(rm.cumulative_regret, rm2.cumulative_regret)
                                                      and np.array_equal(rm.cumulative_strategy, rm2.cumulative_strategy)
                                                      and rm.iteration == rm2.iteration):
                        orc.bad("a saved-then-loaded minimiser does not continue identically", "regret:save-load",
                                iteration=T + j, saved_at=T)
                        break
                    traj.append(snapshot(rm))
                else:
                    continued = True
                    add(f"rgt regret {n2}", None, Num(case_id, T + len(more), "regret", np.asarray(rm2.cumulative_regret, dtype=float)))
                    add(f"rgt cumstrat {n2}", None, Num(case_id, T + len(more), "cumstrat", np.asarray(rm2.cumulative_strategy, dtype=float)))
                res.count("saveload")
                if continued:
                    checkpoint_again(res, add, orc, case_id, nB, n, limit, plus, hist, more, d, snap, params, traj, rm2, rm3)
                if continued and more:
                    # the usual checkpointing pattern: the same minimiser is saved AGAIN into the same directory, some
                    # iterations later, and loaded from it — the loaded one must be the state at the second save
                    snap2 = snapshot(rm)
                    T2 = T + len(more)
                    # the "best / latest" pattern first: the current state goes into ANOTHER directory, and only then, with no
                    # iteration in between, into the directory of the earlier checkpoint — which must then hold the current state
                    d2 = tmp / f"{name}_latest"
                    if (len(hist) + n) % 2 == 0:
                        try:
                            rm.save(d2)
                            res.count("checkpoint_other_directory_first")
                        except Exception as e:  # noqa: BLE001
                            orc.bad(f"saving into a second directory raises {type(e).__name__}", "regret:save-load", saved_at=T2, first_saved_at=T)
                    try:
                        rm.save(d)
                        params2 = json.loads((d / "params.json").read_text())
                        rmC = GameRegretMinimizer.load(d)
                    except Exception as e:  # noqa: BLE001
                        orc.bad(f"saving a minimiser again into the directory of its earlier checkpoint (or loading it) raises "
                                f"{type(e).__name__}", "regret:save-load", saved_at=T2, first_saved_at=T)
                    else:
                        if not same_state(rm, snap2) or not same_state(rmC, snap2) or params2.get("iteration") != snap2["it"] \
                                or bool(rmC.plus) != bool(plus) or int(rmC.limit_of_revealed) != int(rm.limit_of_revealed):
                            orc.bad("a minimiser saved a second time into the same directory and then loaded is not the state at "
                                    "the second save (stale checkpoint parts)", "regret:save-load", saved_at=T2, first_saved_at=T)
                        res.count("checkpoint_dir_reused")
                    # … and the "best / latest" pattern: the same state saved into ANOTHER directory and then once more into the
                    # first one, with no iteration in between — every directory must hold the state of its LAST save
                    try:
                        rm.save(d2)
                        rm.save(d)
                        rmD, rmE = GameRegretMinimizer.load(d), GameRegretMinimizer.load(d2)
                        if not same_state(rmD, snap2) or not same_state(rmE, snap2):
                            orc.bad("after save(A) … iterations … save(B), save(A): a directory does not hold the state of its last save",
                                    "regret:save-load", saved_at=T2, first_saved_at=T)
                        res.count("checkpoint_two_directories")
                    except Exception as e:  # noqa: BLE001
                        orc.bad(f"saving one state into two directories (or loading them) raises {type(e).__name__}", "regret:save-load",
                                saved_at=T2, first_saved_at=T)
                    finally:
                        shutil.rmtree(d2, ignore_errors=True)
        finally:
            shutil.rmtree(d, ignore_errors=True)
    return orc, rm


# --------------------------------------------------------------------------------------------------
# checkpoints loaded more than once; several minimisers alive at once

KEY_REWRITTEN = "regret:checkpoint-rewritten"
KEY_ALIAS = "regret:checkpoint-aliasing"
KEY_INTERFERE = "regret:instances-interfere"
KEY_DETERMINISM = "regret:history-determinism"


def snapshot(rm) -> dict:
    """deep copy of what an iteration changes"""
    return {"it": int(rm.iteration),
            "reg": np.array(rm.cumulative_regret, copy=True, subok=False),
            "str": np.array(rm.cumulative_strategy, copy=True, subok=False)}


def same_state(rm, snap: dict) -> bool:
    """bit-identical tables and the same iteration counter (values only: not the array class, not the identity)"""
    return (int(rm.iteration) == snap["it"]
            and np.array_equal(np.asarray(rm.cumulative_regret), snap["reg"], equal_nan=True)
            and np.array_equal(np.asarray(rm.cumulative_strategy), snap["str"], equal_nan=True))


def same_vecs(a: dict, b: dict) -> bool:
    return a.keys() == b.keys() and all((a[k] is None and b[k] is None) or
                                        (a[k] is not None and b[k] is not None and np.array_equal(a[k], b[k]))
                                        for k in a)


def info_answer(rm) -> str:
    return (f"n={rm.number_of_players} m={rm.number_of_coalitions} limit={int(rm.limit_of_revealed)} "
            f"plus={int(bool(rm.plus))} V={rm.viable_metacoalitions} R={int(rm.number_of_regret_minimizers)} "
            f"tlen={len(rm.meta_id_to_rank)} it={rm.iteration}")


def iter_line(step: dict) -> str:
    return f"{','.join(step['terminal']) or '-'} {used_str(step['used'])}"


def checkpoint_again(res, add, orc, case_id, nB, n, limit, plus, hist, more, d: Path, snap, params, traj, rm2, rm3) -> None:
    """The checkpoint in `d` was loaded (rm2, iterated `more` alongside the original, whose states are `traj`;
    rm3, never iterated).  Now: the sibling rm3 is unchanged; the same directory loaded once more (B) is the
    state that was saved (`snap`, the deep copy taken at save time) and continues like the original did and
    like a twin that went through the same history without ever being saved."""
    from incomplete_cooperative.regret import GameRegretMinimizer
    T = snap["it"]
    if rm3 is not None and not same_state(rm3, snap):
        orc.bad("two minimisers were loaded from one checkpoint and one of them was iterated: the other one changed",
                KEY_ALIAS, saved_at=T)
    try:
        paramsB = json.loads((d / "params.json").read_text())
        rmB = GameRegretMinimizer.load(d)
    except Exception as e:  # noqa: BLE001
        orc.bad(f"loading a checkpoint again raises {type(e).__name__}", "regret:save-load", saved_at=T)
        return
    if paramsB != params or not same_state(rmB, snap) or bool(rmB.plus) != bool(plus) \
            or int(rmB.limit_of_revealed) != int(rm2.limit_of_revealed):
        orc.bad("a checkpoint loaded again, after the minimiser loaded from it first was iterated, is not the state "
                "that was saved", KEY_REWRITTEN, saved_at=T)
    res.count("checkpoint_loaded_again")
    add(f"rgt info {nB}", info_answer(rmB), {"case": case_id})
    add(f"rgt regret {nB}", None, Num(case_id, T, "regret", np.asarray(rmB.cumulative_regret, dtype=float)))
    add(f"rgt cumstrat {nB}", None, Num(case_id, T, "cumstrat", np.asarray(rmB.cumulative_strategy, dtype=float)))
    # a twin that went through the same history and was never saved, stopped at the save point
    twin, _, _, _ = construct(n, limit, plus)
    if twin is not None:
        for step in hist:
            if do_iteration(twin, step) != "ok":
                twin = None
                break
    if twin is not None and not same_state(twin, snap):
        orc.bad("a second minimiser given the same history does not reach the same state", KEY_DETERMINISM, saved_at=T)
        twin = None
    doneB = [dict(h) for h in hist]
    orcB = Oracle(n, limit, plus, doneB)
    for j, step in enumerate(more, start=1):
        before = np.asarray(rmB.cumulative_regret, dtype=float).copy()
        sB = orcB.strategies(rmB)
        orcB.averages(rmB)
        aB = do_iteration(rmB, step)
        doneB.append(step)
        aT = do_iteration(twin, step) if twin is not None else "ok"
        add(f"rgt iter {nB} {iter_line(step)}", aB, {"case": case_id, "t": T + j})
        if aB != "ok" or not same_state(rmB, traj[j - 1]):
            orc.bad("a checkpoint loaded a second time does not continue identically to the original",
                    "regret:save-load" if same_state(rm2, traj[-1]) else KEY_ALIAS, iteration=T + j, saved_at=T)
            break
        if twin is not None and (aT != "ok" or not same_state(twin, traj[j - 1])):
            orc.bad("the saved minimiser and a never-saved twin with the same history continue differently",
                    KEY_DETERMINISM, iteration=T + j, saved_at=T)
            break
        orcB.after_iteration(rmB, before, sB)
    else:
        add(f"rgt regret {nB}", None, Num(case_id, T + len(more), "regret", np.asarray(rmB.cumulative_regret, dtype=float)))
        add(f"rgt cumstrat {nB}", None, Num(case_id, T + len(more), "cumstrat", np.asarray(rmB.cumulative_strategy, dtype=float)))
    orc.nodes += orcB.nodes
    for what, rp, key in orcB.found:
        if len(orc.found) < 8:
            orc.found.append((what + " (checkpoint loaded a second time)", {**rp, "saved_at": T}, key))
    # iterating B touched neither the untouched sibling nor the minimiser loaded first
    if rm3 is not None and not same_state(rm3, snap):
        orc.bad("iterating one minimiser loaded from a checkpoint changed another one loaded from the same checkpoint",
                KEY_ALIAS, saved_at=T)
    if traj and not same_state(rm2, traj[-1]):
        orc.bad("iterating a minimiser loaded from a checkpoint changed the one loaded from it before",
                KEY_ALIAS, saved_at=T)


class Member:
    """one minimiser of an ensemble (several alive in one process)"""

    def __init__(self, idx, name, n, limit, plus, steps, pos, end, root, ref, done):
        self.idx, self.name, self.n, self.limit, self.plus = idx, name, n, limit, plus
        self.steps, self.pos, self.end, self.root, self.ref = steps, pos, end, root, ref
        self.start = pos                      # iterations already in the checkpoint it was loaded from
        self.done = done
        self.orc = Oracle(n, limit, plus, done)
        self.rm = None
        self.strat: dict | None = None        # current strategies, valid until this member's next iteration
        self.dead = False
        self.diverged = False


def solo_reference(n: int, limit: int, plus: bool, steps: list[dict]):
    """What the minimiser does with this history when nothing else is alive: state, current and average
    strategies at every node before / after every iteration, and the outcome of every iteration.
    The run is itself checked by the property oracle.  -> (reference | None, oracle)"""
    done: list[dict] = []
    orc = Oracle(n, limit, plus, done)
    rm, _, _, _ = construct(n, limit, plus)
    if rm is None:
        return None, orc
    ref = {"states": [snapshot(rm)], "strats": [], "avgs": [], "answers": []}
    strat = orc.strategies(rm)
    ref["strats"].append(strat)
    ref["avgs"].append(orc.averages(rm))
    for step in steps:
        before = np.asarray(rm.cumulative_regret, dtype=float).copy()
        a = do_iteration(rm, step)
        done.append(step)
        ref["answers"].append(a)
        if a != "ok":
            if a == "err:nan":
                orc.after_iteration(rm, before, strat)
            else:
                orc.bad(f"regret_min_iteration raises {a}", f"regret:iteration-raises:{a}", iteration=len(done))
            break
        orc.after_iteration(rm, before, strat)
        ref["states"].append(snapshot(rm))
        strat = orc.strategies(rm)
        ref["strats"].append(strat)
        ref["avgs"].append(orc.averages(rm))
    del rm
    return ref, orc


def ens_templates(tier: str, rnd) -> list[list[tuple]]:
    """member configurations (n, limit, plus, iterations) of the ensembles"""
    out = [
        [(3, 2, False, 3), (3, 2, True, 3)],                          # same n and limit, plain next to plus
        [(3, 1, False, 3), (3, 3, False, 3), (3, 5, True, 3)],        # same n, different limits
        [(3, 2, False, 3), (4, 2, False, 2)],                         # different n
        [(4, 1, True, 2), (3, 3, True, 3), (4, 2, False, 2)],
        [(3, 4, True, 4), (3, 4, True, 4)],                           # one configuration, two histories
        [(4, 2, True, 2), (4, 2, False, 2), (3, 1, True, 2)],
    ]
    if tier != "quick":
        out += [[(5, 1, False, 2), (4, 2, True, 2), (5, 2, False, 1)], [(4, 3, False, 2), (3, 2, True, 4)],
                [(5, 2, True, 1), (3, 3, False, 4)]]
        for _ in range(21):
            k = rnd.choice([2, 2, 3, 3, 4])
            tpl = []
            for j in range(k):
                n = tpl[0][0] if j == 1 and rnd.random() < 0.5 else rnd.choice([3, 3, 3, 4, 4])
                L = rnd.randint(1, 6) if n == 3 else rnd.choice([1, 2, 2, 3])
                if j == 1 and n == tpl[0][0] and rnd.random() < 0.5:
                    L = tpl[0][1]
                tpl.append((n, L, rnd.random() < 0.5, rnd.randint(2, 5) if n == 3 else 2))
            out.append(tpl)
    return out


def gen_ensemble(rnd, template: list[tuple], max_members: int = 6) -> dict:
    """members (configuration + history) and a schedule of events
         ["iter", i]  ["strat", i]  ["avg", i]  ["save", i, slot]  ["load", slot, further iterations]
    in which iterations and public queries of the members are interleaved at random.  One member is saved
    at a drawn point and the checkpoint loaded right away; checkpoints are loaded again later (each load is a
    new member, numbered in the order of the load events, which retraces the saver's remaining history for
    1..2 iterations), and once more at the very end."""
    members = [{"n": n, "limit": L, "plus": bool(plus), "history": gen_history(rnd, n, L, steps)}
               for n, L, plus, steps in template]
    pos = [0] * len(members)
    total = [len(m["history"]) for m in members]
    end = list(total)
    slots: list[tuple[int, int]] = []
    sched: list[list] = []

    def load(slot: int, cont: int) -> None:
        saver, T = slots[slot]
        pos.append(T)
        total.append(total[saver])
        end.append(min(total[saver], T + cont))
        sched.append(["load", slot, cont])

    def save(i: int) -> None:
        slots.append((i, pos[i]))
        sched.append(["save", i, len(slots) - 1])

    ck_member = rnd.randrange(len(members))
    ck_at = rnd.randint(1, max(1, total[ck_member] - 1))
    guard = 0
    while any(p < e for p, e in zip(pos, end)) and guard < 300:
        guard += 1
        r = rnd.random()
        i = rnd.randrange(len(pos))
        if r < 0.30:
            i = rnd.choice([j for j in range(len(pos)) if pos[j] < end[j]])
            sched.append(["iter", i])
            pos[i] += 1
            if i == ck_member and pos[i] == ck_at and not slots:
                save(i)
                load(0, rnd.randint(1, 2))
        elif r < 0.60:
            sched.append(["strat", i])
        elif r < 0.72:
            sched.append(["avg", i])
        elif r < 0.80:
            if slots and len(slots) < 2 and 1 <= pos[i] < total[i]:
                save(i)
        elif slots and len(pos) < max_members:
            load(rnd.randrange(len(slots)), rnd.randint(1, 2))
    for slot in range(len(slots)):
        load(slot, 0)
    return {"members": members, "schedule": sched}


def ensemble(res, script, ens_id, spec: dict, rnd, tmp: Path, sample_nodes: int = 6):
    """Run an ensemble (see gen_ensemble) on the real code.  Every member has its own property oracle, its own
    model instance (when `script` is given) and is compared bit for bit with the reference of its own history
    run alone (solo_reference; a loaded member retraces its saver).  -> (found [(what, replay, key)], members)"""
    from incomplete_cooperative.coalitions import Coalition
    from incomplete_cooperative.regret import GameRegretMinimizer
    found: list[tuple[str, dict, str]] = []
    nmem = len(spec["members"])

    def bad(what: str, key: str, **extra) -> None:
        if len(found) < 8:
            found.append((what, {"ensemble": spec, **extra}, key))

    def add(line, ans=None, ctx=None):
        if script is not None:
            script.add(line, ans, ctx)

    def case_of(mb: Member):
        return ("ens", ens_id, mb.root)

    def numeric(mb: Member, line, what, f, zeros=()):
        kind, a = vec_answer(f)
        if kind == "num":
            add(line, None, Num(case_of(mb), mb.pos, what, a, zeros))
        else:
            add(line, kind, {"case": case_of(mb), "t": mb.pos})

    def check_state(mb: Member, k) -> None:
        ref = mb.ref
        if ref is None or mb.diverged or mb.pos >= len(ref["states"]):
            return
        if not same_state(mb.rm, ref["states"][mb.pos]):
            mb.diverged = True
            bad(f"{nmem} minimisers alive at once (and checkpoints of them): after {mb.pos} iterations the state of "
                f"minimiser {mb.idx} differs from the state its own history produces when it is run alone",
                KEY_INTERFERE, member=mb.idx, event=k, iteration=mb.pos)

    def check_vecs(mb: Member, k, got: dict, which: str) -> None:
        ref = mb.ref
        if ref is None or mb.diverged or mb.pos >= len(ref[which]):
            return
        if not same_vecs(got, ref[which][mb.pos]):
            mb.diverged = True
            fn = "regret_matching_strategy" if which == "strats" else "get_average_strategy"
            bad(f"{nmem} minimisers alive at once: {fn} of minimiser {mb.idx} after {mb.pos} iterations does not "
                f"return what the same minimiser returns when it is run alone with the same history",
                KEY_INTERFERE, member=mb.idx, event=k, iteration=mb.pos)

    def sample(mb: Member) -> list[int]:
        nodes = mb.orc.node_ids(mb.rm)
        if len(nodes) > sample_nodes:
            nodes = [nodes[0]] + rnd.sample(nodes[1:], sample_nodes - 1)
        return nodes

    def query_strat(mb: Member, k) -> None:
        V = viable(mb.n)
        s = mb.orc.strategies(mb.rm)
        mb.strat = s
        check_vecs(mb, k, s, "strats")
        check_state(mb, k)
        nodes = sample(mb)
        for mid in nodes:
            numeric(mb, f"rgt strategy {mb.name} {mid}", "strategy", lambda: mb.rm.regret_matching_strategy(mid), bits(mid))
        if nodes:
            mid = rnd.choice(nodes)
            cs = [V[i] for i in bits(mid)]
            rnd.shuffle(cs)
            numeric(mb, f"rgt strategyc {mb.name} {nlist(cs)}", "strategy",
                    lambda: mb.rm.regret_matching_strategy([Coalition(c) for c in cs]), bits(mid))

    def query_avg(mb: Member, k) -> None:
        V = viable(mb.n)
        a = mb.orc.averages(mb.rm)
        check_vecs(mb, k, a, "avgs")
        check_state(mb, k)
        for mid in sample(mb):
            used = bits(mid)
            cs = [V[i] for i in used]
            rnd.shuffle(cs)
            zero = [c for c in range(2 ** mb.n) if c not in V or V.index(c) in used]
            numeric(mb, f"rgt avg {mb.name} {nlist(cs)}", "average",
                    lambda: mb.rm.get_average_strategy([Coalition(c) for c in cs]), zero)

    # ---- what every member does alone (nothing else alive), before the ensemble exists
    refs = []
    for ms in spec["members"]:
        ref, orc0 = solo_reference(int(ms["n"]), int(ms["limit"]), bool(ms["plus"]), ms["history"])
        refs.append(ref)
        res.count("nodes_checked", orc0.nodes)
        for what, rp, key in orc0.found:
            if len(found) < 8:
                found.append((what, rp, key))
    members: list[Member] = []
    slots: dict[int, dict] = {}
    edir = tmp / f"ens{ens_id}"
    try:
        for i, ms in enumerate(spec["members"]):
            n, limit, plus = int(ms["n"]), int(ms["limit"]), bool(ms["plus"])
            mb = Member(i, f"e{ens_id}m{i}", n, limit, plus, ms["history"], 0, len(ms["history"]), i, refs[i], [])
            members.append(mb)
            rm, ans, tlen, stored = construct(n, limit, plus)
            add(f"rgt new {mb.name} {n} {limit} {int(plus)}{pol(tlen, stored)}", ans, {"case": case_of(mb)})
            res.count(f"ens:construct:{ans}")
            if rm is None:
                mb.dead = True                     # reported by the single-minimiser cases
                continue
            mb.rm = rm
            add(f"rgt info {mb.name}", info_answer(rm), {"case": case_of(mb)})
            check_state(mb, -1)
        for k, ev in enumerate(spec["schedule"]):
            kind = ev[0]
            res.count(f"ens:event:{kind}")
            if kind == "load":
                slot, cont = int(ev[1]), int(ev[2])
                sl = slots.get(slot)
                idx = len(members)
                if sl is None:
                    ph = Member(idx, f"e{ens_id}m{idx}", 3, 1, False, [], 0, 0, idx, None, [])
                    ph.dead = True
                    members.append(ph)
                    continue
                sv: Member = sl["saver"]
                mb = Member(idx, f"e{ens_id}m{idx}", sv.n, sv.limit, sv.plus, sv.steps, sl["T"],
                            min(len(sv.steps), sl["T"] + cont), sv.root, sv.ref, [dict(h) for h in sl["done"]])
                members.append(mb)
                try:
                    params = json.loads((sl["dir"] / "params.json").read_text())
                    mb.rm = GameRegretMinimizer.load(sl["dir"])
                except Exception as e:  # noqa: BLE001
                    bad(f"loading a checkpoint raises {type(e).__name__}", "regret:save-load", event=k)
                    mb.dead = True
                    continue
                moved = [x.idx for x in sl["loaded"] if x.pos > sl["T"]]
                if params != sl["params"] or not same_state(mb.rm, sl["snap"]) or bool(mb.rm.plus) != sv.plus \
                        or int(mb.rm.limit_of_revealed) != sl["stored"]:
                    mb.diverged = True
                    if moved:
                        bad(f"a checkpoint loaded again is not the state that was saved (the minimiser(s) {moved} loaded "
                            f"from it before have been iterated since)", KEY_REWRITTEN, event=k, member=idx)
                    else:
                        bad("a saved-then-loaded minimiser differs from the state at save time", "regret:save-load",
                            event=k, member=idx)
                sl["loaded"].append(mb)
                add(f"rgt saveload {sl['ck']} {mb.name}{pol(len(mb.rm.meta_id_to_rank), int(mb.rm.limit_of_revealed))}",
                    "ok", {"case": case_of(mb)})
                add(f"rgt info {mb.name}", info_answer(mb.rm), {"case": case_of(mb)})
                add(f"rgt regret {mb.name}", None, Num(case_of(mb), mb.pos, "regret", np.asarray(mb.rm.cumulative_regret, dtype=float)))
                add(f"rgt cumstrat {mb.name}", None, Num(case_of(mb), mb.pos, "cumstrat", np.asarray(mb.rm.cumulative_strategy, dtype=float)))
                continue
            mb = members[int(ev[1])] if int(ev[1]) < len(members) else None
            if mb is None or mb.dead or mb.rm is None:
                continue
            if kind == "iter":
                if mb.pos >= mb.end:
                    continue
                step = mb.steps[mb.pos]
                before = np.asarray(mb.rm.cumulative_regret, dtype=float).copy()
                played = mb.strat if mb.strat is not None else {}
                a = do_iteration(mb.rm, step)
                mb.done.append(step)
                mb.pos += 1
                mb.strat = None
                add(f"rgt iter {mb.name} {iter_line(step)}", a, {"case": case_of(mb), "t": mb.pos})
                res.count(f"ens:iter:{a}")
                ref = mb.ref
                if ref is not None and not mb.diverged and len(ref["answers"]) >= mb.pos and ref["answers"][mb.pos - 1] != a:
                    mb.diverged = True
                    bad(f"{nmem} minimisers alive at once: iteration {mb.pos} of minimiser {mb.idx} ends with {a}, with "
                        f"{ref['answers'][mb.pos - 1]} when it is run alone with the same history",
                        KEY_INTERFERE, member=mb.idx, event=k, iteration=mb.pos)
                if a != "ok":
                    if a == "err:nan":
                        mb.orc.after_iteration(mb.rm, before, played)
                    else:
                        mb.orc.bad(f"regret_min_iteration raises {a}", f"regret:iteration-raises:{a}", iteration=mb.pos)
                    mb.dead = True
                    continue
                mb.orc.after_iteration(mb.rm, before, played)
                add(f"rgt regret {mb.name}", None, Num(case_of(mb), mb.pos, "regret", np.asarray(mb.rm.cumulative_regret, dtype=float)))
                add(f"rgt cumstrat {mb.name}", None, Num(case_of(mb), mb.pos, "cumstrat", np.asarray(mb.rm.cumulative_strategy, dtype=float)))
                check_state(mb, k)
            elif kind == "strat":
                query_strat(mb, k)
            elif kind == "avg":
                query_avg(mb, k)
            elif kind == "save":
                slot = int(ev[2])
                d = edir / f"k{slot}"
                snap = snapshot(mb.rm)
                try:
                    mb.rm.save(d)
                    params = json.loads((d / "params.json").read_text())
                except Exception as e:  # noqa: BLE001
                    bad(f"save raises {type(e).__name__}", "regret:save-load", event=k)
                    continue
                if params != {"iteration": mb.pos, "number_of_players": mb.n,
                              "limit_of_revealed": int(mb.rm.limit_of_revealed), "plus": mb.plus}:
                    bad("params.json of a checkpoint is not the saved minimiser's parameters", "regret:save-load", event=k)
                ck = f"e{ens_id}k{slot}"
                slots[slot] = {"dir": d, "snap": snap, "saver": mb, "T": mb.pos, "done": [dict(h) for h in mb.done],
                               "loaded": [], "ck": ck, "params": params, "stored": int(mb.rm.limit_of_revealed)}
                add(f"rgt saveload {mb.name} {ck}{pol(len(mb.rm.meta_id_to_rank), int(mb.rm.limit_of_revealed))}", "ok",
                    {"case": case_of(mb)})
                check_state(mb, k)                 # saving does not change the saver
        # ---- at the end every member is still on its own trajectory (also those not touched for a while)
        for mb in members:
            if mb.dead or mb.rm is None:
                continue
            check_state(mb, "end")
            query_strat(mb, "end")
            query_avg(mb, "end")
        for sl in slots.values():                  # … and every loaded minimiser that was never iterated is still the checkpoint
            for mb in sl["loaded"]:
                if not mb.dead and mb.pos == sl["T"] and not same_state(mb.rm, sl["snap"]):
                    bad("a minimiser loaded from a checkpoint and never iterated is no longer the saved state (another "
                        "minimiser loaded from the same checkpoint was iterated)", KEY_ALIAS, member=mb.idx)
    finally:
        shutil.rmtree(edir, ignore_errors=True)
    for mb in members:
        res.count("nodes_checked", mb.orc.nodes)
        for what, rp, key in mb.orc.found:
            if len(found) < 12:
                found.append((f"{what} (minimiser {mb.idx}, {nmem} alive at once)",
                              {"ensemble": spec, "member": mb.idx,
                               **{a: b for a, b in rp.items() if a not in ("history", "n", "limit", "plus")}}, key))
    return found, members


# --------------------------------------------------------------------------------------------------

def parse_vec(s: str) -> list[Fraction]:
    return [] if s in ("-", "") else [Fraction(x) for x in s.split(",")]


def parse_rows(s: str) -> list[list[Fraction]]:
    return [] if s == "-" else [parse_vec(r) for r in s.split(";")]


def close(model: list[Fraction], impl: list[float]) -> bool:
    if len(model) != len(impl):
        return False
    if not impl:
        return True
    scale = max(1.0, max(abs(x) for x in impl), max(abs(float(x)) for x in model))
    return all(abs(float(a) - b) <= RTOL * scale for a, b in zip(model, impl))


def compare_numeric(res, script, nums: list[tuple[int, Num]]) -> None:
    import sys
    old = sys.get_int_max_str_digits()
    sys.set_int_max_str_digits(0)          # exact rationals after several iterations have thousands of digits
    try:
        _compare_numeric(res, script, nums)
    finally:
        sys.set_int_max_str_digits(old)


def _compare_numeric(res, script, nums: list[tuple[int, Num]]) -> None:
    tied: dict = {}
    for i, nm in nums:
        out = script.outs[i]
        if out == "bad-op":
            continue                       # already reported by Script.diff
        if nm.case in tied:
            # regrets after iteration t0 are sign-ambiguous in float32: strategies from t0 on, and arrays
            # after t0, are not determined up to tolerance any more
            t0 = tied[nm.case]
            if nm.t > t0 or (nm.t == t0 and nm.what in ("strategy", "average")):
                res.count("float_tie_lines_skipped")
                continue
        if out.startswith("err:"):
            res.disagree(f"{nm.what}: model raises, implementation returns numbers",
                         {"line": script.lines[i], "model": out, "impl": np.asarray(nm.impl).tolist()[:40], "case": nm.case})
            continue
        try:
            if nm.what in ("regret", "cumstrat"):
                rows = parse_rows(out)
                impl = rows_answer(nm.impl)
                ok = len(rows) == len(impl) and all(close(a, b) for a, b in zip(rows, impl))
                if ok and nm.what == "regret":
                    # discontinuity guard (see module docstring)
                    for a, b in zip(rows, impl):
                        pos = sum(x for x in a if x > 0)
                        if any(abs(float(x)) <= 1e-4 and ((x > 0) != (y > 0)) for x, y in zip(a, b)) \
                                or 0 < pos < Fraction(1, 1000):
                            tied[nm.case] = min(tied.get(nm.case, nm.t), nm.t)
                            res.count("float_tie_histories")
                            break
            else:
                vec = parse_vec(out)
                impl = [float(x) for x in nm.impl]
                ok = close(vec, impl) and all(vec[z] == 0 and impl[z] == 0 for z in nm.zeros if z < len(vec))
        except Exception as e:  # noqa: BLE001
            res.disagree("unparsable model answer", {"line": script.lines[i], "model": out[:200], "error": repr(e)})
            continue
        res.count(f"numeric:{nm.what}")
        if not ok:
            res.disagree(f"{nm.what} differs beyond float32 tolerance",
                         {"line": script.lines[i], "model": out[:400], "impl": np.asarray(nm.impl).tolist()[:40],
                          "case": nm.case, "iteration": nm.t})


def mem_available_gb() -> float:
    try:
        for ln in Path("/proc/meminfo").read_text().splitlines():
            if ln.startswith("MemAvailable"):
                return int(ln.split()[1]) / 1e6
    except Exception:  # noqa: BLE001
        pass
    return 0.0


def metamorphic_pairs(res, rnd, tier) -> None:
    """Two exact oracles on the real class that need no tolerance (so they also see what happens far below 1e-5):

    * scale equivariance — the same history with every terminal value multiplied by 2^-30 (exact in float32, far from the
      sub-normal range): every strategy (current, average) is bit for bit the one of the unscaled run, the cumulative regret is the
      unscaled one times 2^-30 exactly.  Regret matching has no absolute threshold: 'no positive regret' means none, not 'little'.
    * list identity — one minimiser gets ONE `used_actions` list object per history, re-ordered IN PLACE (same length) before every
      iteration with the terminal values re-ordered to match; its twin gets freshly built lists with the same content.  Both must stay
      bit-identical: what counts is what the list holds at the call, not which object it is."""
    from incomplete_cooperative.coalitions import Coalition
    confs = [(3, 2, False), (3, 3, True), (3, 2, True), (4, 2, False)] if tier == "quick" else \
        [(3, L, pl) for L in (1, 2, 3) for pl in (False, True)] * 3 + [(4, 2, False), (4, 2, True), (4, 3, False)]
    sc = np.float32(2.0 ** -30)
    for n, limit, plus in confs:
        for probe in ("scale", "list-identity", "subnormal"):
            a, ans_a, _, _ = construct(n, limit, plus)
            b, ans_b, _, _ = construct(n, limit, plus)
            if a is None or b is None:
                continue
            hist = gen_history(rnd, n, limit, 4)
            ctx = {"probe": probe, "n": n, "limit": limit, "plus": plus, "history": hist}
            shared_list = None
            ok = True
            for t, step in enumerate(hist):
                term = np.array([float(Fraction(x)) for x in step["terminal"]], dtype=np.float32)
                used = [[Coalition(c) for c in x] for x in step["used"]]
                try:
                    with warnings.catch_warnings():
                        warnings.simplefilter("ignore")
                        if probe == "subnormal":
                            # terminal values in float32's sub-normal range (~1e-42): strategies are still distributions
                            a.regret_min_iteration((term * np.float32(2.0 ** -70)) * np.float32(2.0 ** -70), used)
                        elif probe == "scale":
                            a.regret_min_iteration(term.copy(), used)
                            b.regret_min_iteration(term * sc, [[Coalition(c) for c in x] for x in step["used"]])
                        else:
                            if shared_list is None or len(shared_list) != len(used):
                                shared_list = list(used)
                            else:
                                shared_list[:] = used            # same object, same length, new order / content
                            a.regret_min_iteration(term.copy(), shared_list)
                            b.regret_min_iteration(term.copy(), [[Coalition(c) for c in x] for x in step["used"]])
                except Exception as e:      # noqa: BLE001
                    res.violation(f"regret_min_iteration raised {type(e).__name__} in a metamorphic pair", dict(ctx, iteration=t),
                                  key="regret:metamorphic:raised")
                    ok = False
                    break
                res.evaluations += 1
                res.count(f"metamorphic:{probe}")
                ra, rb = np.array(a.cumulative_regret), np.array(b.cumulative_regret)
                want = ra * sc if probe == "scale" else ra
                bad = None
                if probe == "subnormal":
                    if not finite(ra) or not finite(a.cumulative_strategy):
                        bad = "cumulative regret / strategy (not finite)"
                    else:
                        for mid in [int(x) for x in a.meta_rank_to_id][:40]:
                            for nm_, f_ in (("current", lambda: a.regret_matching_strategy(mid)), ("average", lambda: a.get_average_strategy(mid))):
                                k_, s_ = vec_answer(f_)
                                if k_ == "num" and s_.size and not (np.all(np.isfinite(s_)) and np.all(s_ >= 0) and abs(float(s_.sum()) - 1) < 1e-5):
                                    bad = f"{nm_} strategy at node {mid} is not a distribution: {s_.tolist()}"
                                    break
                            if bad:
                                break
                    if bad:
                        res.violation(f"terminal values of sub-normal float32 magnitude (~1e-42): {bad} after iteration {t + 1}",
                                      dict(ctx, iteration=t + 1), key="regret:metamorphic:subnormal")
                        ok = False
                        break
                    continue
                if not np.array_equal(rb, want):
                    bad = "cumulative regret"
                else:
                    for mid in [int(x) for x in a.meta_rank_to_id][:40]:
                        ka, sa_ = vec_answer(lambda: a.regret_matching_strategy(mid))
                        kb, sb_ = vec_answer(lambda: b.regret_matching_strategy(mid))
                        if ka != kb or (ka == "num" and not np.array_equal(sa_, sb_)):
                            bad = f"current strategy at node {mid}"
                            break
                    if bad is None:
                        ka, va = vec_answer(lambda: a.get_average_strategy(0))
                        kb, vb = vec_answer(lambda: b.get_average_strategy(0))
                        if ka != kb or (ka == "num" and not np.array_equal(va, vb)):
                            bad = "average strategy at the root"
                if bad:
                    what = ("the same history with all terminal values scaled by 2^-30 does not give the same strategies / the scaled regrets"
                            if probe == "scale" else
                            "a minimiser fed ONE used_actions list object, re-ordered in place between iterations, differs from its twin fed "
                            "fresh lists with the same content")
                    res.violation(f"{what}: {bad} differs after iteration {t + 1}", dict(ctx, iteration=t + 1),
                                  key=f"regret:metamorphic:{probe}")
                    ok = False
                    break
            if ok:
                res.nontrivial.add(("metamorphic", probe, n, limit, plus))


def plan(tier: str):
    """(n, limit, histories per plus-flag, iterations before save/load, iterations after it).
    Exact rationals grow quickly with the depth of the tree (a strategy is a quotient of sums), so the
    deep n = 4 trees get 3 iterations in all (4 in the thorough tier for the shallow ones)."""
    out = []
    if tier == "quick":
        out += [(3, L, 3, 4, 2) for L in range(1, 9)]
        out += [(4, L, 1, 2, 1) for L in (1, 2, 5, 9, 10, 12)]
    else:
        out += [(3, L, 12, 6, 2) for L in range(1, 9)]
        out += [(4, L, 3, 3 if L <= 4 else 2, 1) for L in range(1, 13)]
        out += [(5, L, 1, 1, 1) for L in (1, 2, 3)]
    return out


def run(tier: str, budget: Budget, rnd, arg) -> StreamResult:
    from incomplete_cooperative.regret import (coalitions_up_to, get_coalition_player_id_map,
                                               metacoalition_ids_by_coalition_size)
    res = StreamResult("regret")
    script = Script()
    # ---- module-level functions
    for n in (3, 4, 5):
        m = 2 ** n - n - 2
        for k in sorted({0, 1, 2, 3, min(m, 5), m - 1, m} if n < 5 else {0, 1, 2, 3, 4}):
            script.add(f"rgt cup {m} {k}", str(int(coalitions_up_to(m, k))), {"fn": "coalitions_up_to", "m": m, "k": k})
            if int(coalitions_up_to(m, k)) != sum(_binom(m, j) for j in range(k + 1)):
                res.violation("coalitions_up_to is not the number of coalition sets up to that size",
                              {"m": m, "k": k}, key="regret:coalitions-up-to")
        script.add(f"rgt pidmap {n}", ",".join(str(int(x)) for x in get_coalition_player_id_map(n)), {"fn": "pidmap", "n": n})
    for n, limits in ((3, range(0, 9)), (4, (0, 1, 2, 3, 5, 9, 10, 11, 40)), (5, (1, 2) if tier == "quick" else (1, 2, 3))):
        m = 2 ** n - n - 2
        for L in limits:
            ids = [int(x) for x in metacoalition_ids_by_coalition_size(n, L)]
            script.add(f"rgt metaids {n} {L}", nlist(ids), {"fn": "metaids", "n": n, "limit": L})
            k = min(L, m)
            sizes = [popc(x) for x in ids]
            if len(set(ids)) != len(ids) or sizes != sorted(sizes) or any(x >= 2 ** m for x in ids) or max(sizes) > k \
                    or len(ids) != sum(_binom(m, j) for j in range(k + 1)):
                res.violation("ranking of coalition sets is not a bijection ordered by set size",
                              {"n": n, "limit": L, "ids": ids[:64]}, key="regret:ranking")
            res.evaluations += 1
    # ---- outside the property's domain (n < 3), compared only: numpy rejects the negative shape for n < 2;
    #      n = 2 has no viable coalition and an empty strategy
    for n in (1, 2):
        for L in (1, 2):
            rm, ans, tlen, stored = construct(n, L, False)
            script.add(f"rgt new d{n}_{L} {n} {L} 0{pol(tlen, stored)}", ans, {"out_of_domain": (n, L)})
            res.count(f"out-of-domain:n{n}:{ans}")
            if rm is not None:
                kind, a = vec_answer(lambda: rm.regret_matching_strategy(0))
                script.add(f"rgt strategy d{n}_{L} 0", rlist(a) if kind == "num" else kind, {"out_of_domain": (n, L)})
    metamorphic_pairs(res, rnd, tier)
    # ---- objects
    tmp = Path(tempfile.mkdtemp(prefix="verif_rgt_", dir="/tmp"))
    nums_cases = 0
    try:
        case_no = 0
        reported: set = set()
        for n, L, reps, steps, after in plan(tier):
            if n == 5 and mem_available_gb() < 3.0:
                res.notes.append("n = 5 skipped: less than 3 GB of memory available")
                continue
            for plus in (False, True):
                for rep in range(reps):
                    if not budget.ok():
                        res.notes.append(f"budget exhausted at n={n} limit={L}")
                        break
                    case_no += 1
                    name = f"c{case_no}"
                    hist = gen_history(rnd, n, L, steps)
                    case_id = (n, L, plus, rep)
                    orc, rm = drive(res, script, case_id, name, n, L, plus, hist, rnd, tmp,
                                    sample_nodes=24 if n < 5 else 8, after_load=after)
                    res.evaluations += 1 + len(orc.hist)
                    res.count("nodes_checked", orc.nodes)
                    res.count(f"case:n{n}:{'constructed' if rm is not None else 'not-constructed'}")
                    for what, replay, key in orc.found:
                        sig = (key, n, L, plus)
                        if sig not in reported and sum(1 for x in reported if x[0] == key) < 12:
                            reported.add(sig)
                            res.violation(what, replay, key=key)
                    if rm is not None and len(orc.hist) >= 2 and orc.nonuniform and orc.fallback_used:
                        res.nontrivial.add((n, L, plus, json.dumps(hist, sort_keys=True)))
                    if rm is None:
                        break                      # the constructor does not depend on the history
                    res.sample({"n": n, "limit": L, "plus": plus, "first_step": hist[0] if hist and n == 3 else "…",
                                "R": int(rm.number_of_regret_minimizers)}, limit=3)
                    del rm
        # ---- several minimisers alive at once, operations interleaved, checkpoints loaded more than once
        for e, tpl in enumerate(ens_templates(tier, rnd), start=1):
            if not budget.ok():
                res.notes.append(f"budget exhausted at ensemble {e}")
                break
            if any(t[0] == 5 for t in tpl) and mem_available_gb() < 3.0:
                continue
            spec = gen_ensemble(rnd, tpl)
            found, members = ensemble(res, script, e, spec, rnd, tmp)
            res.count("ensembles")
            res.count(f"ens:members:{len(members)}")
            res.count(f"ens:sizes:{'+'.join(sorted({str(t[0]) for t in tpl}))}")
            for mb in members:
                if mb.rm is None:
                    continue
                res.evaluations += 1 + (mb.pos - mb.start)
                if mb.idx < len(tpl) and len(mb.done) >= 2 and mb.orc.nonuniform and mb.orc.fallback_used:
                    res.nontrivial.add((mb.n, mb.limit, mb.plus, json.dumps(mb.steps, sort_keys=True)))
            for what, rp, key in found:
                sig = (key, "ens", e)
                if sig not in reported and sum(1 for x in reported if x[0] == key) < 12:
                    reported.add(sig)
                    res.violation(what, rp, key=key)
            res.sample({"ensemble": [list(t) for t in tpl], "schedule": spec["schedule"][:24]}, limit=4)
            del members
    finally:
        shutil.rmtree(tmp, ignore_errors=True)
    # ---- model side
    for b in script.diff():
        res.disagree("regret op answer", {k: (b[k] if k != "ctx" or not isinstance(b[k], Num) else
                                               {"case": b[k].case, "t": b[k].t}) for k in ("line", "impl", "model", "ctx")})
    nums = [(i, c) for i, c in enumerate(script.ctx) if isinstance(c, Num)]
    compare_numeric(res, script, nums)
    res.count("numeric_lines", len(nums))
    return res


def search(tier: str, budget: Budget, rnd, arg, disagreements) -> list[dict]:
    """oracle-only sweep on the real code: more histories, no model."""
    res = StreamResult("regret-search")
    found = []
    for n, L, reps, steps, after in plan("thorough"):
        if n == 5:
            continue
        for plus in (False, True):
            for rep in range(reps):
                if not budget.ok() or len(found) >= 5:
                    return found
                orc, rm = drive(res, None, (n, L, plus, rep), "s", n, L, plus, gen_history(rnd, n, L, steps), rnd, None)
                for what, replay, key in orc.found[:1]:
                    found.append({"what": what, "replay": replay, "key": key})
                if rm is None:
                    break
    tmp = Path(tempfile.mkdtemp(prefix="verif_rgt_", dir="/tmp"))
    try:
        for e, tpl in enumerate(ens_templates("thorough", rnd), start=1):
            if not budget.ok() or len(found) >= 5:
                break
            if any(t[0] == 5 for t in tpl):
                continue
            got, _ = ensemble(res, None, e, gen_ensemble(rnd, tpl), rnd, tmp)
            for what, rp, key in got[:1]:
                found.append({"what": what, "replay": rp, "key": key})
    finally:
        shutil.rmtree(tmp, ignore_errors=True)
    return found


def replay(prop: str, payload: dict):
    """re-run a replay file's input on the real code with the property oracle."""
    import random
    inp = payload["input"]
    res = StreamResult("regret-replay")
    tmp = Path(tempfile.mkdtemp(prefix="verif_rgt_", dir="/tmp"))
    try:
        if "ensemble" in inp:                      # several minimisers alive at once: members + schedule of events
            found, _ = ensemble(res, None, 0, inp["ensemble"], random.Random(0), tmp)
        else:
            hist = inp.get("history", [])
            at = inp.get("saved_at")               # the history was saved (and loaded) after this many iterations
            if at is not None and 0 <= int(at) <= len(hist):
                orc, _ = drive(res, None, "replay", "r", int(inp["n"]), int(inp["limit"]), bool(inp["plus"]),
                               hist[:int(at)], random.Random(0), tmp, more_steps=hist[int(at):])
            else:
                orc, _ = drive(res, None, "replay", "r", int(inp["n"]), int(inp["limit"]), bool(inp["plus"]),
                               hist, random.Random(0), tmp)
            found = orc.found
    finally:
        shutil.rmtree(tmp, ignore_errors=True)
    if found:
        what, _, key = found[0]
        return True, f"violated: {what} (key {key})"
    return False, "the replayed input no longer violates C14"
