"""Correspondence stream `table` (C17): IncompleteCooperativeGame vs ICG.Model.Table.

Random histories of public value operations on several live objects (copies / negations alias probes).
After every operation every live object is dumped on both sides.  Known flags and the rows the property
determines are compared exactly; the bounds of an unknown row are compared only from an explicit bound
write to that row until it next becomes known, is unset, or the table is reset (DESIGN 5/C17).

The property oracle (run on the real object, independent of the Lean model) keeps the abstract spec
"coalition ↦ value for every coalition set or revealed and not since unset or bulk-reset".
"""
from __future__ import annotations

import math
from fractions import Fraction

import numpy as np

from common import Budget, Script, StreamResult, err_kind, frac, nlist, rlist, rs

OPS = ["set", "unset", "reveal", "unreveal", "setvalues", "setvalues_all", "setknown", "setknown_all",
       "bounds_hi", "bounds_lo", "bounds_hi_all", "bounds_lo_all", "setlo", "sethi", "copy", "neg", "get", "transfer", "snapshot"]


class Obj:
    """a live implementation object + what the harness knows about it"""

    def __init__(self, name, game, spec, det):
        self.name = name
        self.game = game
        self.spec = spec          # abstract spec: {coalition: value} of known coalitions
        self.det = det            # rows whose bounds the property determines although unknown: {c: [lo?, hi?]}


def as_iterable(rnd, xs):
    """the same coalitions as a list / tuple / one-shot generator / map / iterator (the API takes `Iterable`)"""
    k = rnd.randrange(5)
    if k == 0:
        return list(xs)
    if k == 1:
        return tuple(xs)
    if k == 2:
        return (x for x in xs)
    if k == 3:
        return map(lambda x: x, xs)
    return iter(list(xs))


def same_list(o, rnd, xs):
    """the caller's ONE list object, edited in place to hold `xs` and passed again (lengths permitting) — what a call means is
    what the list holds now, never which object it is; otherwise any iterable form"""
    sh = getattr(o, "shared", None)
    if sh is not None and len(sh) == len(xs) and xs and rnd.random() < 0.8:
        sh[:] = list(xs)
        return sh
    if rnd.random() < 0.5:
        o.shared = list(xs)
        return o.shared
    return as_iterable(rnd, xs)


def dump_impl(g) -> tuple[list[bool], list[Fraction], list[Fraction]]:
    return ([bool(x) for x in g.are_values_known()], [frac(x) for x in g.get_lower_bounds()],
            [frac(x) for x in g.get_upper_bounds()])


def parse_dump(s: str):
    parts = dict(p.split("=", 1) for p in s.split(" "))
    K = [ch == "1" for ch in parts["K"]]
    L = [Fraction(x) for x in parts["L"].split(",")] if parts["L"] != "-" else []
    U = [Fraction(x) for x in parts["U"].split(",")] if parts["U"] != "-" else []
    return K, L, U


def run(tier: str, budget: Budget, rnd, repo_mod) -> StreamResult:
    from incomplete_cooperative.coalitions import Coalition
    from incomplete_cooperative.game import IncompleteCooperativeGame

    res = StreamResult("table")
    histories = 400 if tier == "quick" else 5000
    steps = 40
    script = Script()
    checks = []     # (line_no of dump, obj det snapshot, history id)
    for h in range(histories):
        if not budget.ok():
            res.notes.append(f"budget exhausted after {h} histories")
            break
        n = rnd.randint(1, 5)
        N = 2 ** n
        o0 = Obj(f"h{h}o0", IncompleteCooperativeGame(n), {0: Fraction(0)}, {})
        script.add(f"tab new {o0.name} {n}", "ok")
        objs = [o0]
        hist = []
        sig = set()
        shared: dict = {}
        for step in range(steps):
            o = rnd.choice(objs)
            g = o.game
            op = rnd.choice(OPS)
            c = rnd.randrange(N) if rnd.random() < 0.95 else rnd.randrange(N, 2 * N)
            v = Fraction(rnd.randint(-64, 64), rnd.choice([1, 1, 2, 8]))
            k = rnd.randint(0, 5)
            cs = [rnd.randrange(N) for _ in range(k)]
            if cs and rnd.random() < 0.05:
                cs[rnd.randrange(len(cs))] = N + rnd.randrange(N)
            dl = rnd.choice([0, 0, 0, 0, -1, 1])
            vals = [Fraction(rnd.randint(-64, 64), rnd.choice([1, 4])) for _ in range(max(0, len(cs) + dl))]
            allvals = [Fraction(rnd.randint(-64, 64)) for _ in range(rnd.choice([N, N, N, 1, N + 1, max(0, N - 1)]))]
            fvals = np.array([float(x) for x in vals], dtype=float)
            fall = np.array([float(x) for x in allvals], dtype=float)
            coal = [Coalition(x) for x in cs]
            line = None
            ans = "ok"
            known_before = dict(o.spec)
            det_before = {k_: list(v_) for k_, v_ in o.det.items()}
            try:
                if op == "set":
                    line = f"tab set {o.name} {c} {rs(v)}"
                    g.set_value(float(v), Coalition(c))
                    o.spec[c] = v; o.det.pop(c, None)
                elif op == "unset":
                    line = f"tab unset {o.name} {c}"
                    g.unset_value(Coalition(c))
                    o.spec.pop(c, None); o.det.pop(c, None)
                elif op == "reveal":
                    line = f"tab reveal {o.name} {c} {rs(v)}"
                    g.reveal_value(float(v), Coalition(c))
                    o.spec[c] = v; o.det.pop(c, None)
                elif op == "unreveal":
                    line = f"tab unreveal {o.name} {c}"
                    g.unreveal_value(Coalition(c))
                    o.spec.pop(c, None); o.det.pop(c, None)
                elif op == "setvalues":
                    line = f"tab setvalues {o.name} {nlist(cs)} {rlist(vals)}"
                    g.set_values(fvals, same_list(o, rnd, coal))
                    for cc, vv in zip(cs[:len(vals)], vals):
                        o.spec[cc] = vv; o.det.pop(cc, None)
                elif op == "setvalues_all":
                    line = f"tab setvalues {o.name} none {rlist(allvals)}"
                    g.set_values(fall)
                    for cc in range(N):
                        o.spec[cc] = allvals[cc] if len(allvals) == N else allvals[0]
                    o.det.clear()
                elif op == "setknown":
                    line = f"tab setknown {o.name} {nlist(cs)} {rlist(vals)}"
                    o.spec.clear(); o.spec[0] = Fraction(0); o.det.clear()      # the reset happens first
                    g.set_known_values(as_iterable(rnd, [float(x) for x in vals]), same_list(o, rnd, coal))
                    for cc, vv in zip(cs[:len(vals)], vals):
                        o.spec[cc] = vv
                elif op == "setknown_all":
                    line = f"tab setknown {o.name} none {rlist(allvals)}"
                    o.spec.clear(); o.spec[0] = Fraction(0); o.det.clear()
                    g.set_known_values([float(x) for x in allvals])
                    for cc in range(N):
                        o.spec[cc] = allvals[cc] if len(allvals) == N else allvals[0]
                elif op in ("bounds_hi", "bounds_lo"):
                    w = 1 if op == "bounds_hi" else 0
                    line = f"tab bounds {o.name} {'hi' if w else 'lo'} {nlist(cs)} {rlist(vals)}"
                    (g.set_upper_bounds if w else g.set_lower_bounds)(fvals, same_list(o, rnd, coal))
                    for cc in cs[:len(vals)]:
                        if cc not in o.spec:
                            o.det.setdefault(cc, [False, False])[w] = True
                elif op in ("bounds_hi_all", "bounds_lo_all"):
                    w = 1 if op == "bounds_hi_all" else 0
                    # one float64 array object per history, handed to the bulk bound setters of EVERY live object again and again
                    # (a caller's pre-allocated "no information" vector): the setter must read it, never write it
                    if len(allvals) == N and rnd.random() < 0.5:
                        if shared.get("n") != N:
                            shared.update(n=N, arr=fall.copy(), vals=list(allvals))
                        fall, allvals = shared["arr"], shared["vals"]
                        res.count("bulk-bounds:shared-array")
                    line = f"tab bounds {o.name} {'hi' if w else 'lo'} none {rlist(allvals)}"
                    arg_before = fall.copy()
                    (g.set_upper_bounds if w else g.set_lower_bounds)(fall)
                    if not np.array_equal(fall, arg_before):
                        res.violation("a bulk bound setter modified the array it was given (the caller's vector now holds other numbers, "
                                      "which the next game it is handed to will receive as bounds)",
                                      {"n": n, "history": hist + [line], "argument_before": [float(x) for x in arg_before],
                                       "argument_after": [float(x) for x in fall]}, key="table:bulk-setter-writes-argument")
                        shared.clear()
                    for cc in range(N):
                        if cc not in o.spec:
                            o.det.setdefault(cc, [False, False])[w] = True
                elif op in ("setlo", "sethi"):
                    w = 1 if op == "sethi" else 0
                    if c in o.spec and c < N:
                        continue       # scalar bound write to a known row breaks `Inv`; not a public-value op history
                    line = f"tab {op} {o.name} {c} {rs(v)}"
                    (g.set_upper_bound if w else g.set_lower_bound)(float(v), Coalition(c))
                    o.det.setdefault(c, [False, False])[w] = True
                elif op == "copy":
                    nm = f"h{h}o{len(objs)}"
                    line = f"tab copy {o.name} {nm}"
                    objs.append(Obj(nm, g.copy(), dict(o.spec), {k_: list(v_) for k_, v_ in o.det.items()}))
                elif op == "neg":
                    nm = f"h{h}o{len(objs)}"
                    line = f"tab neg {o.name} {nm}"
                    ng = -g
                    objs.append(Obj(nm, ng, {k_: -v_ for k_, v_ in o.spec.items()},
                                    {k_: [v_[1], v_[0]] for k_, v_ in o.det.items()}))
                    # oracle: negation swaps and negates, keeps knowledge, involution
                    K0, L0, U0 = dump_impl(g); K1, L1, U1 = dump_impl(ng); K2, L2, U2 = dump_impl(-ng)
                    if K1 != K0 or L1 != [-x for x in U0] or U1 != [-x for x in L0] or (K2, L2, U2) != (K0, L0, U0):
                        res.violation("negation does not swap-and-negate / is not an involution",
                                      {"n": n, "history": hist + [line]})
                elif op == "transfer":
                    # the game goes through a pickle round trip (what a Pool does to it) or copy.deepcopy: the object that comes out is
                    # the same map coalition -> (known?, lower, upper), and the history continues with it
                    import copy as _copy
                    import pickle as _pickle
                    how = rnd.choice(["pickle", "pickle", "deepcopy"])
                    before_t = dump_impl(g)
                    g2 = _pickle.loads(_pickle.dumps(g)) if how == "pickle" else _copy.deepcopy(g)
                    res.count(f"op:transfer:{how}")
                    if dump_impl(g2) != before_t:
                        K0_, L0_, U0_ = before_t
                        K1_, L1_, U1_ = dump_impl(g2)
                        bad_c = next(x for x in range(len(K0_)) if (K0_[x], L0_[x], U0_[x]) != (K1_[x], L1_[x], U1_[x]))
                        res.violation(f"a game that went through a {how} round trip is not the same map: coalition {bad_c} was "
                                      f"(known={K0_[bad_c]}, {rs(L0_[bad_c])}, {rs(U0_[bad_c])}) and comes back as (known={K1_[bad_c]}, "
                                      f"{rs(L1_[bad_c])}, {rs(U1_[bad_c])})", {"n": n, "history": hist + [f"tab transfer {o.name} ({how})"]},
                                      key="table:transfer")
                    o.game = g = g2
                    o.kept = []
                    hist.append(f"tab transfer {o.name} ({how})")
                    continue
                elif op == "snapshot":
                    # what get_known_values() returned is the caller's: it shows the values known WHEN it was returned (NaN elsewhere),
                    # whatever happens to the game afterwards, and writing into it does not reach the game
                    kept = getattr(o, "kept", [])
                    for arr, cp in kept[-4:]:
                        if not np.array_equal(arr, cp, equal_nan=True):
                            res.violation("the array an earlier get_known_values() returned changed after later operations on the game "
                                          "(a live view of the table was handed out)", {"n": n, "history": hist + ["tab snapshot-check"]},
                                          key="table:known-values-view")
                            kept = []
                            break
                    arr = g.get_known_values()
                    before_s = dump_impl(g)
                    kept = kept + [(arr, np.array(arr, copy=True))]
                    if rnd.random() < 0.3 and isinstance(arr, np.ndarray) and arr.size:
                        scratch = g.get_known_values()
                        try:
                            scratch[...] = -12345.0
                        except Exception:      # noqa: BLE001      a read-only result is fine
                            pass
                        if dump_impl(g) != before_s:
                            res.violation("writing into the array returned by get_known_values() changed the game",
                                          {"n": n, "history": hist + ["tab snapshot-write"]}, key="table:known-values-view")
                    o.kept = kept
                    res.count("op:snapshot")
                    continue
                elif op == "get":
                    # getters of unknown rows never return a number (oracle on the real code + model lines)
                    ok_c = c < N
                    try:
                        a = g.get_known_value(Coalition(c))
                        script.add(f"tab getknown {o.name} {c}", "none" if a is None else rs(a))
                        if ok_c and ((a is None) != (c not in o.spec) or (a is not None and frac(a) != o.spec[c])):
                            res.violation("get_known_value disagrees with the set/reveal history", {"n": n, "history": hist, "c": c})
                    except Exception as e:
                        script.add(f"tab getknown {o.name} {c}", err_kind(e))
                    try:
                        a = g.get_value(Coalition(c))
                        script.add(f"tab getvalue {o.name} {c}", rs(a))
                        if ok_c and (c not in o.spec or frac(a) != o.spec[c]):
                            res.violation("get_value returned a number for an unknown coalition / wrong value", {"n": n, "history": hist, "c": c})
                    except Exception as e:
                        script.add(f"tab getvalue {o.name} {c}", err_kind(e))
                        if ok_c and c in o.spec:
                            res.violation("get_value raised for a known coalition", {"n": n, "history": hist, "c": c})
                    try:
                        a = g.get_values(same_list(o, rnd, coal))
                        script.add(f"tab getvalues {o.name} {nlist(cs)}", rlist(a))
                        if all(x < N for x in cs) and not all(x in o.spec for x in cs):
                            res.violation("get_values returned numbers for unknown coalitions", {"n": n, "history": hist, "cs": cs})
                    except Exception as e:
                        script.add(f"tab getvalues {o.name} {nlist(cs)}", err_kind(e))
                    # subset getters must agree with the full columns (any iterable form)
                    if all(x < N for x in cs):
                        K_, L_, U_ = dump_impl(g)
                        sub = {
                            "get_upper_bounds": ([frac(x) for x in g.get_upper_bounds(as_iterable(rnd, coal))], [U_[x] for x in cs]),
                            "get_lower_bounds": ([frac(x) for x in g.get_lower_bounds(as_iterable(rnd, coal))], [L_[x] for x in cs]),
                            "are_values_known": ([bool(x) for x in g.are_values_known(as_iterable(rnd, coal))], [K_[x] for x in cs]),
                            "get_intervals": ([[frac(y) for y in x] for x in g.get_intervals(as_iterable(rnd, coal))], [[L_[x], U_[x]] for x in cs]),
                        }
                        kvs = g.get_known_values(as_iterable(rnd, coal))
                        sub["get_known_values"] = ([None if math.isnan(x) else frac(x) for x in kvs],
                                                   [U_[x] if K_[x] else None for x in cs])
                        for nm_, (got_, want_) in sub.items():
                            if got_ != want_:
                                res.violation(f"{nm_}(coalitions) disagrees with the table", {"n": n, "history": hist, "cs": cs},
                                              key=f"table:{nm_}")
                        if c < N:
                            one = (frac(g.get_lower_bound(Coalition(c))), frac(g.get_upper_bound(Coalition(c))),
                                   [frac(y) for y in g.get_interval(Coalition(c))], bool(g.is_value_known(Coalition(c))))
                            if one != (L_[c], U_[c], [L_[c], U_[c]], K_[c]):
                                res.violation("scalar getters disagree with the table", {"n": n, "history": hist, "c": c}, key="table:scalar-getters")
                    kv = g.get_known_values()
                    script.add(f"tab getknowns {o.name}", ",".join("none" if math.isnan(x) else rs(x) for x in kv))
                    for x in range(N):
                        if (x in o.spec) == math.isnan(kv[x]):
                            res.violation("get_known_values NaN pattern ≠ knowledge", {"n": n, "history": hist, "c": x})
                    script.add(f"tab full {o.name}", "1" if g.full else "0")
                    res.count("op:get")
                    continue
            except Exception as e:
                ans = err_kind(e)
                if not op.startswith("setknown"):
                    # a failed call leaves everything as it was (set_known_values has already reset)
                    o.spec.clear(); o.spec.update(known_before)
                    o.det.clear(); o.det.update(det_before)
                res.count(f"err:{op}:{ans}")
            if line is None:
                continue
            hist.append(line)
            script.add(line, ans, {"n": n, "history": list(hist)})
            res.count(f"op:{op}")
            res.evaluations += 1
            sig.add((op, ans))
            # dump every live object on both sides; oracle on the real objects
            for ob in objs:
                K, L, U = dump_impl(ob.game)
                script.add(f"tab dump {ob.name}", None, {"n": n, "history": list(hist), "impl": (K, L, U),
                                                         "det": {k_: list(v_) for k_, v_ in ob.det.items()}, "obj": ob.name})
                checks.append(len(script) - 1)
                Nn = 2 ** ob.game.number_of_players
                for x in range(Nn):
                    if K[x] != (x in ob.spec):
                        res.violation("known flag ≠ (set or revealed and not since unset / bulk reset)",
                                      {"n": n, "history": list(hist), "object": ob.name, "coalition": x})
                        break
                    if K[x] and not (L[x] == U[x] == ob.spec[x]):
                        res.violation("known coalition does not have lower = upper = its value",
                                      {"n": n, "history": list(hist), "object": ob.name, "coalition": x})
                        break
        if len(sig) >= 6:
            res.nontrivial.add(h)
        if h < 2:
            res.sample({"n": n, "history": hist[:12]})
    # ---------------------------------------------------------------- algebra sub-stream: __add__ and __eq__
    # Objects are built so that EVERY row is determined (known, or both bounds written explicitly): `==` looks at
    # all three columns, and stale bounds of unknown rows are not specified by anything.
    pairs = 150 if tier == "quick" else 2000
    for j in range(pairs):
        if not budget.ok():
            break
        na = rnd.randint(0, 4)
        nb = na if rnd.random() < 0.8 else rnd.randint(0, 4)
        made = []
        for tag, nn in (("a", na), ("b", nb)):
            NN = 2 ** nn
            g = IncompleteCooperativeGame(nn)
            nm = f"alg{j}{tag}"
            script.add(f"tab new {nm} {nn}", "ok")
            mode = rnd.choice(["full", "full", "partial", "same"])
            if mode == "same" and made and made[0][2] == nn:
                src = made[0]
                g = src[1].copy()
                script.add(f"tab copy {src[0]} {nm}", "ok")
                if rnd.random() < 0.5 and NN > 1:
                    cc = rnd.randrange(1, NN)
                    vv = Fraction(rnd.randint(-9, 9))
                    g.set_value(float(vv), Coalition(cc))
                    script.add(f"tab set {nm} {cc} {rs(vv)}", "ok")
            else:
                for cc in range(NN):
                    if mode != "partial" or rnd.random() < 0.6 or cc == 0:
                        vv = Fraction(rnd.randint(-20, 20), rnd.choice([1, 1, 2]))
                        g.set_value(float(vv), Coalition(cc))
                        script.add(f"tab set {nm} {cc} {rs(vv)}", "ok")
                    else:
                        lo_, hi_ = Fraction(rnd.randint(-20, 0)), Fraction(rnd.randint(0, 20))
                        g.set_lower_bound(float(lo_), Coalition(cc)); g.set_upper_bound(float(hi_), Coalition(cc))
                        script.add(f"tab setlo {nm} {cc} {rs(lo_)}", "ok")
                        script.add(f"tab sethi {nm} {cc} {rs(hi_)}", "ok")
            made.append((nm, g, nn))
        (an, ga, _), (bn, gb, _) = made
        ctx = {"algebra": j, "na": na, "nb": nb, "a": [[bool(x) for x in ga.are_values_known()], [rs(x) for x in ga.get_lower_bounds()], [rs(x) for x in ga.get_upper_bounds()]],
               "b": [[bool(x) for x in gb.are_values_known()], [rs(x) for x in gb.get_lower_bounds()], [rs(x) for x in gb.get_upper_bounds()]]}
        for x, y, xn, yn in ((ga, gb, an, bn), (gb, ga, bn, an), (ga, ga.copy(), an, an)):
            try:
                r = x == y
                ans = "1" if r else "0"
            except Exception as e:      # noqa: BLE001
                ans = err_kind(e)
            script.add(f"tab eq {xn} {yn}", ans, ctx)
            res.count(f"alg:eq:{ans}")
            if x is ga and y is not gb and ans != "1":
                res.violation("a copy does not compare equal to its original", ctx, key="table:eq-copy")
        Ka, La, Ua = dump_impl(ga)
        Kb, Lb, Ub = dump_impl(gb)
        try:
            gs = ga + gb
            ans = "ok"
        except Exception as e:          # noqa: BLE001
            gs, ans = None, err_kind(e)
        script.add(f"tab add {an} {bn} alg{j}s", ans, ctx)
        res.count(f"alg:add:{ans}")
        res.evaluations += 1
        if ans == "ok":
            Ks, Ls, Us = dump_impl(gs)
            script.add(f"tab dump alg{j}s", f"K={''.join('1' if x else '0' for x in Ks)} L={rlist(Ls)} U={rlist(Us)}", ctx)
            # oracle on the real code: defined only for two full games of one size; pointwise sum; operands untouched
            if not (all(Ka) and all(Kb) and na == nb):
                res.violation("__add__ accepted games that are not both fully known / of one size", ctx, key="table:add-domain")
            elif not all(Ks) or Ls != [x + y for x, y in zip(La, Lb)] or Us != [x + y for x, y in zip(Ua, Ub)]:
                res.violation("__add__ is not the pointwise sum of two fully known games", ctx, key="table:add-sum")
            if dump_impl(ga) != (Ka, La, Ua) or dump_impl(gb) != (Kb, Lb, Ub):
                res.violation("__add__ changed one of its operands", ctx, key="table:add-alias")
            gs.set_value(123.0, Coalition(0))
            if dump_impl(ga) != (Ka, La, Ua):
                res.violation("the sum shares its table with an operand", ctx, key="table:add-alias")
            if na == nb and all(Ka) and all(Kb) and rnd.random() < 0.5:
                res.nontrivial.add(("alg", j))
        elif all(Ka) and all(Kb) and na == nb:
            res.violation("__add__ raised for two fully known games of one size", ctx, key="table:add-domain")
    # fresh table knows exactly ∅ ↦ 0
    for n in range(1, 6):
        g = IncompleteCooperativeGame(n)
        K, L, U = dump_impl(g)
        if K != [True] + [False] * (2 ** n - 1) or L[0] != 0 or U[0] != 0:
            res.violation("fresh table does not know exactly the empty coalition with value 0", {"n": n})
    # model side
    outs_bad = script.diff()
    for b in outs_bad:
        res.disagree("table op answer", {k: b[k] for k in ("line", "impl", "model", "ctx")})
    if checks:
        outs = script.outs
        for i in checks:
            ctx = script.ctx[i]
            K, L, U = ctx["impl"]
            try:
                mK, mL, mU = parse_dump(outs[i])
            except Exception:
                res.disagree("unparsable model dump", {"line": script.lines[i], "model": outs[i]})
                continue
            ok = mK == K
            if ok:
                for x in range(len(K)):
                    d = ctx["det"].get(x, [False, False]) if not K[x] else [True, True]
                    if d[0] and mL[x] != L[x]:
                        ok = False
                    if d[1] and mU[x] != U[x]:
                        ok = False
            if not ok:
                res.disagree("table state", {"history": ctx["history"], "n": ctx["n"], "object": ctx["obj"],
                                             "impl": {"K": K, "L": [rs(x) for x in L], "U": [rs(x) for x in U]},
                                             "model": outs[i]})
                if len(res.disagreements) > 5:
                    break
    nonfinite_cases(res, rnd, tier)
    same_list_probe(res, rnd)
    from common import optimized_probe
    optimized_probe(res, "game", rnd.randrange(10 ** 6), "table:interpreter-flag")
    return res


def nonfinite_run(n: int, seed: int):
    """Oracle on the real code only (the model's values are rationals): the clauses of C17 on a game whose BOUNDS of unknown
    coalitions are ±inf (`set_upper_bounds(np.full(N, inf))` is the natural 'nothing known yet' initialisation) or of the
    largest finite magnitude.  → list of failed clauses"""
    import random
    from incomplete_cooperative.coalitions import Coalition
    from incomplete_cooperative.game import IncompleteCooperativeGame
    r = random.Random(seed)
    N = 2 ** n
    g = IncompleteCooperativeGame(n)
    known = {0: 0.0}
    for c in r.sample(range(1, N), r.randint(1, N - 1)):
        known[c] = float(r.randint(-20, 20))
        (g.set_value if r.random() < 0.5 else g.reveal_value)(known[c], Coalition(c))
    big = r.choice([float("inf"), float("inf"), 1.7e308])
    how = r.choice(["bulk", "bulk", "single", "subset"])
    unknown = [c for c in range(N) if c not in known]
    if how == "bulk":
        g.set_upper_bounds(np.full(N, big)); g.set_lower_bounds(np.full(N, -big))
    elif how == "single":
        for c in unknown:
            g.set_upper_bound(big, Coalition(c)); g.set_lower_bound(-big if r.random() < 0.7 else 0.0, Coalition(c))
    else:
        cs = r.sample(range(N), r.randint(1, N))
        g.set_upper_bounds(np.full(len(cs), big), [Coalition(c) for c in cs])
    bad = []

    def state(x):
        return (np.array(x.are_values_known(), dtype=bool), np.array(x.get_lower_bounds(), dtype=float), np.array(x.get_upper_bounds(), dtype=float))
    K0, L0, U0 = state(g)
    if [bool(k) for k in K0] != [c in known for c in range(N)]:
        bad.append("bound setters changed which coalitions are known")
    for c, v in known.items():
        if L0[c] != v or U0[c] != v:
            bad.append(f"bound setters altered the known coalition {c}")
            break
    ng = -g
    K1, L1, U1 = state(ng)
    if not np.array_equal(K1, K0):
        bad.append("negation changed which coalitions are known")
    if not (np.array_equal(L1, -U0, equal_nan=False) and np.array_equal(U1, -L0, equal_nan=False)):
        bad.append("negation does not swap and negate the bounds")
    K2, L2, U2 = state(-ng)
    if not (np.array_equal(K2, K0) and np.array_equal(L2, L0) and np.array_equal(U2, U0)):
        bad.append("negation is not an involution")
    for x, nm in ((g, "game"), (ng, "negated game")):
        for c in range(N):
            k = bool(x.is_value_known(Coalition(c)))
            if k != (c in known):
                bad.append(f"{nm}: is_value_known({c}) = {k} but the coalition was {'set' if c in known else 'never set'}")
                break
            got = x.get_known_value(Coalition(c))
            if (got is None) != (c not in known):
                bad.append(f"{nm}: get_known_value({c}) returned {got!r} for {'a known' if c in known else 'an unknown'} coalition")
                break
            if c not in known:
                try:
                    val = x.get_value(Coalition(c))
                    bad.append(f"{nm}: get_value({c}) returned {val!r} for an unknown coalition")
                    break
                except Exception:       # noqa: BLE001
                    pass
        kv = np.array(x.get_known_values(), dtype=float)
        if [bool(np.isnan(kv[c])) for c in range(N)] != [c not in known for c in range(N)]:
            bad.append(f"{nm}: get_known_values() is not NaN exactly at the unknown coalitions")
    return bad


def same_list_probe(res, rnd) -> None:
    """deterministic version of what the histories do at random: ONE list object handed to every list getter of one game twice in a row,
    edited in place (same length) in between — each answer is for what the list holds at the call"""
    from incomplete_cooperative.coalitions import Coalition
    from incomplete_cooperative.game import IncompleteCooperativeGame
    for n in (3, 4):
        N = 2 ** n
        g = IncompleteCooperativeGame(n)
        vals = {c: float(rnd.randint(-9, 9)) for c in rnd.sample(range(1, N), N // 2)}
        for c, x in vals.items():
            g.set_value(x, Coalition(c))
        g.set_upper_bounds(np.arange(N, dtype=float) + 100.0)
        g.set_lower_bounds(-np.arange(N, dtype=float) - 100.0)
        K_, L_, U_ = dump_impl(g)
        work = [Coalition(c) for c in rnd.sample(range(N), 3)]
        for edit in range(4):
            ids = [c.id for c in work]
            got = {"are_values_known": [bool(x) for x in g.are_values_known(work)], "get_upper_bounds": [frac(x) for x in g.get_upper_bounds(work)],
                   "get_lower_bounds": [frac(x) for x in g.get_lower_bounds(work)],
                   "get_known_values": [None if np.isnan(x) else frac(x) for x in g.get_known_values(work)]}
            want = {"are_values_known": [K_[c] for c in ids], "get_upper_bounds": [U_[c] for c in ids], "get_lower_bounds": [L_[c] for c in ids],
                    "get_known_values": [U_[c] if K_[c] else None for c in ids]}
            res.evaluations += 1
            res.count("same-list-probe")
            bad = [k for k in got if got[k] != want[k]]
            if bad:
                res.violation(f"list getters {bad} handed the SAME list object again after it was edited in place (same length) answer for what the "
                              f"list held before, not for {ids}", {"n": n, "list_now": ids, "edits": edit, "getters": bad}, key="table:same-list-object")
                return
            work[rnd.randrange(3)] = Coalition(rnd.choice([c for c in range(N) if c not in ids]))
            if edit == 2:
                work.reverse()


def nonfinite_cases(res, rnd, tier) -> None:
    for _ in range(40 if tier == "quick" else 600):
        n, seed = rnd.randint(1, 4), rnd.randrange(10 ** 9)
        try:
            bad = nonfinite_run(n, seed)
        except Exception as e:      # noqa: BLE001
            bad = [f"a public operation raised {type(e).__name__}: {e}"]
        res.evaluations += 1
        res.count("nonfinite-bounds")
        if bad:
            res.violation("infinite / largest-finite bounds on unknown coalitions: " + "; ".join(bad[:3]),
                          {"kind": "nonfinite", "n": n, "seed": seed, "failed": bad[:6],
                           "how": "harness/corr_table.py nonfinite_run(n, seed) on the real IncompleteCooperativeGame"}, key="table:nonfinite-bounds")
            return


# ---------------------------------------------------------------------------------------------------------------
# replay: re-execute a recorded history (protocol lines without the object name) on a fresh real object

ARG_WRITTEN: list = []      # bulk bound setters that wrote into the array they were given (filled by apply_line)


def apply_line(g, words: list[str]):
    """execute one `tab …` operation (object name already removed) on a real game; returns the canonical answer"""
    import numpy as np
    from incomplete_cooperative.coalitions import Coalition
    from common import parse_nlist, parse_rlist
    op = words[0]
    C = lambda x: Coalition(int(x))                       # noqa: E731
    cs = lambda s_: None if s_ == "none" else [Coalition(c) for c in parse_nlist(s_)]   # noqa: E731
    fv = lambda s_: np.array([float(x) for x in parse_rlist(s_)], dtype=float)           # noqa: E731
    try:
        if op == "set":
            g.set_value(float(Fraction(words[2])), C(words[1]))
        elif op == "unset":
            g.unset_value(C(words[1]))
        elif op == "reveal":
            g.reveal_value(float(Fraction(words[2])), C(words[1]))
        elif op == "unreveal":
            g.unreveal_value(C(words[1]))
        elif op == "setlo":
            g.set_lower_bound(float(Fraction(words[2])), C(words[1]))
        elif op == "sethi":
            g.set_upper_bound(float(Fraction(words[2])), C(words[1]))
        elif op == "setvalues":
            g.set_values(fv(words[2]), cs(words[1])) if words[1] != "none" else g.set_values(fv(words[2]))
        elif op == "setknown":
            g.set_known_values([float(x) for x in parse_rlist(words[2])], cs(words[1]))
        elif op == "bounds":
            f = g.set_upper_bounds if words[1] == "hi" else g.set_lower_bounds
            arg = fv(words[3])
            arg0 = arg.copy()
            f(arg, cs(words[2])) if words[2] != "none" else f(arg)
            if not np.array_equal(arg, arg0):
                ARG_WRITTEN.append((" ".join(words[:3]), arg0.tolist(), arg.tolist()))
        elif op == "compute":
            g.compute_bounds()
        else:
            return "unsupported"
        return "ok"
    except Exception as e:      # noqa: BLE001
        return err_kind(e)


def replay(prop: str, payload: dict):
    """C17 replay: the recorded history is run again on a fresh real object; the known flags and the known rows are
    checked against the abstract spec (set / revealed and not since unset / reset) recomputed from the history."""
    from incomplete_cooperative.game import IncompleteCooperativeGame
    inp = payload["input"]
    if inp.get("kind") == "nonfinite":
        bad = nonfinite_run(inp["n"], inp["seed"])
        return bool(bad), ("reproduced on the real code: " + "; ".join(bad[:4])) if bad else "the stored case no longer fails"
    n, hist = inp["n"], inp["history"]
    objs = {}
    msgs = []
    del ARG_WRITTEN[:]
    for line in hist:
        w = line.split()
        if w[0] == "tab":
            w = w[1:]
        if w[0] in ("copy", "neg"):
            src, dst = w[1], w[2]
            if src not in objs:
                objs[src] = IncompleteCooperativeGame(n)
            objs[dst] = objs[src].copy() if w[0] == "copy" else -objs[src]
            continue
        name = w[1]
        if name not in objs:
            objs[name] = IncompleteCooperativeGame(n)
        ans = apply_line(objs[name], [w[0]] + w[2:])
        msgs.append(f"{line} -> {ans}")
    bad = [f"`{w_}` wrote into the array it was given: {a0} -> {a1}" for w_, a0, a1 in ARG_WRITTEN]
    for name, g in objs.items():
        K, L, U = dump_impl(g)
        for c in range(len(K)):
            if K[c] and L[c] != U[c]:
                bad.append(f"{name}: known coalition {c} has lower {L[c]} ≠ upper {U[c]}")
    out = "\n".join(msgs[-12:] + [f"final {k}: K={''.join('1' if x else '0' for x in dump_impl(v)[0])} L={rlist(dump_impl(v)[1])} U={rlist(dump_impl(v)[2])}" for k, v in objs.items()])
    return bool(bad), out + ("\n" + "\n".join(bad) if bad else "\n(replayed on the real class; compare with the expected state recorded in the replay file)")
