"""Input generators shared by the correspondence streams (DESIGN.md 3.8).

All values are exact (`Fraction`), representable in float64, so that every `+ - max min` the code
performs on them is exact and implementation and `Rat` model must agree as strings.
"""
from __future__ import annotations

import itertools
import random
from fractions import Fraction


def popcount(x: int) -> int:
    return bin(x).count("1")


def submasks(c: int):
    """all sub-masks of c (including 0 and c), decreasing"""
    x = c
    while True:
        yield x
        if x == 0:
            return
        x = (x - 1) & c


def proper_splits(c: int):
    for x in submasks(c):
        if x != 0 and x != c:
            yield x, c ^ x


def minimal_ids(n: int) -> list[int]:
    return [0, 2 ** n - 1] + [1 << i for i in range(n)]


def value_kind(rnd: random.Random, kind: str) -> Fraction:
    if kind == "int":
        return Fraction(rnd.randint(0, 6))
    if kind == "dyadic":
        return Fraction(rnd.randint(0, 40), 8)
    if kind == "big":
        return Fraction(rnd.randint(0, 2 ** 30))
    if kind == "offset":           # increments of the closure construction stay small …
        return Fraction(rnd.randint(0, 6))
    raise ValueError(kind)


def sa_game(n: int, rnd: random.Random, kind: str = "int", neg_singletons: bool = False,
            v0: Fraction = Fraction(0)) -> list[Fraction]:
    """Superadditive game by closure: process coalitions by size; value = best split + increment ≥ 0.

    `v0` ≠ 0 gives a non-zero-normalised game (v(∅) = v0 ≤ 0 keeps superadditivity with ∅: v(S)+v(∅) ≤ v(S)).
    """
    N = 2 ** n
    v = [Fraction(0)] * N
    v[0] = v0
    for c in sorted(range(1, N), key=popcount):
        if popcount(c) == 1:
            v[c] = value_kind(rnd, kind) - (value_kind(rnd, kind) * 2 if neg_singletons else 0)
            if kind == "offset":   # … while the stand-alone values are huge: intervals narrow relative to their magnitude
                v[c] += Fraction(rnd.choice([2 ** 20, 2 ** 24, 10 ** 6, -(2 ** 22)]))
        else:
            best = max(v[a] + v[b] for a, b in proper_splits(c))
            inc = value_kind(rnd, kind) if rnd.random() < 0.7 else Fraction(0)
            v[c] = best + inc
    return v


def arbitrary_game(n: int, rnd: random.Random) -> list[Fraction]:
    """any values at all (not superadditive in general): the computers are defined on every table with minimal
    information, and C03 / C08 quantify over games of any class"""
    v = [Fraction(rnd.randint(-12, 12), rnd.choice([1, 1, 2, 4])) for _ in range(2 ** n)]
    v[0] = Fraction(0) if rnd.random() < 0.7 else v[0]
    return v


def undervalued_game(n: int, rnd: random.Random) -> list[Fraction]:
    """superadditive except that all coalitions of one middle size are under-valued (a congestion-like game): the best
    split of a larger coalition then has two parts that are both worth revealing"""
    size_val = [Fraction(0)] + [Fraction(rnd.randint(3, 6))]
    for s_ in range(2, n + 1):
        size_val.append(size_val[-1] + size_val[1] + Fraction(rnd.randint(0, 3)))
    k = rnd.randint(2, max(2, n - 1))
    size_val[k] = size_val[k] - Fraction(rnd.randint(4, 9))
    return [size_val[popcount(c)] + (Fraction(rnd.randint(0, 1)) if popcount(c) not in (0, 1, k) else 0) for c in range(2 ** n)]


def additive_game(n: int, rnd: random.Random, kind: str = "int") -> list[Fraction]:
    w = [value_kind(rnd, kind) for _ in range(n)]
    return [sum((w[i] for i in range(n) if c >> i & 1), Fraction(0)) for c in range(2 ** n)]


def convex_power_game(n: int, q: int = 2) -> list[Fraction]:
    return [Fraction(popcount(c) ** q) for c in range(2 ** n)]


def sam_coverage_game(n: int, rnd: random.Random) -> list[Fraction]:
    """negated weighted coverage: superadditive and monotone non-increasing"""
    m = 2 * n
    sets = [frozenset(rnd.sample(range(m), rnd.randint(1, min(4, m)))) for _ in range(n)]
    w = {e: rnd.randint(1, 4) for e in range(m)}
    out = []
    for c in range(2 ** n):
        u = set()
        for i in range(n):
            if c >> i & 1:
                u |= sets[i]
        out.append(Fraction(-sum(w[e] for e in u)))
    return out


def sam_budget_game(n: int, rnd: random.Random) -> list[Fraction]:
    k = rnd.randint(1, max(1, n - 1))
    return [Fraction(-min(k, popcount(c))) for c in range(2 ** n)]


def sam_xos_game(n: int, rnd: random.Random) -> list[Fraction]:
    """negated max of additive games with dyadic weights"""
    adds = [[Fraction(rnd.randint(0, 16), 4) for _ in range(n)] for _ in range(rnd.randint(2, 4))]
    return [-max(sum((a[i] for i in range(n) if c >> i & 1), Fraction(0)) for a in adds)
            for c in range(2 ** n)]


def sam_game(n: int, rnd: random.Random) -> list[Fraction]:
    return rnd.choice([sam_coverage_game, sam_budget_game, sam_xos_game])(n, rnd)


def is_sa(v: list, n: int) -> bool:
    N = 2 ** n
    for a in range(N):
        rest = (N - 1) ^ a
        for b in submasks(rest):
            if v[a] + v[b] > v[a | b]:
                return False
    return True


def is_mono_dec(v: list, n: int) -> bool:
    N = 2 ** n
    return all(v[x] >= v[c] for c in range(N) for x in submasks(c))


def knowledge_sets_all(n: int):
    """every K ⊇ minimal information, as sorted lists of ids"""
    mn = minimal_ids(n)
    others = [c for c in range(2 ** n) if c not in set(mn)]
    for r in range(len(others) + 1):
        for comb in itertools.combinations(others, r):
            yield sorted(set(mn) | set(comb))


def knowledge_random(n: int, rnd: random.Random, p: float | None = None) -> list[int]:
    if p is None:
        p = rnd.choice([0.1, 0.5, 0.9])
    mn = set(minimal_ids(n))
    return sorted(mn | {c for c in range(2 ** n) if rnd.random() < p})


def asymmetric(v: list, n: int) -> bool:
    """not invariant under any transposition of two players"""
    def swap(c, i, j):
        bi, bj = c >> i & 1, c >> j & 1
        if bi != bj:
            c ^= (1 << i) | (1 << j)
        return c
    for i in range(n):
        for j in range(i + 1, n):
            if all(v[c] == v[swap(c, i, j)] for c in range(2 ** n)):
                return False
    return True
