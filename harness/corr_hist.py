"""Correspondence stream `hist` (C01 histories, C03 interleaving, C08): operation histories with stale state.

Several live game objects (different player counts, different computers) share one interpreter; a random
walk of set / unset / reveal / un-reveal / bulk reset / stale scalar and bulk bound writes / compute is
applied to them in an interleaved order, on the real objects and on the model.  After every `compute` on a
table whose knowledge contains the minimal information the complete bound vectors are compared.

Oracles on the REAL code:
  C08  a fresh object given the same knowledge computes identical bounds; recomputing changes nothing;
       reveal+compute+un-reveal+compute restores every row (known flags included)
  C01  the true value lies in every interval after every such compute (all values written are the true game's)
  C03  the reference and the cached computer agree on a fresh copy of the same knowledge; the memoised
       per-n coalition structure is not modified by any compute (digest before / after)
Non-trivial history: ≥ 3 computes, ≥ 1 un-reveal or unset, ≥ 1 stale write, asymmetric game.
"""
from __future__ import annotations

import hashlib
from fractions import Fraction

import gen_games as G
from common import Budget, Script, StreamResult, err_kind, frac, nlist, rlist, rs
from corr_bounds import computer, parse_dump, real_bounds


def dump_impl(g):
    return ([bool(x) for x in g.are_values_known()], [frac(x) for x in g.get_lower_bounds()],
            [frac(x) for x in g.get_upper_bounds()])


def struct_digest(n):
    from incomplete_cooperative.bounds import _get_sub_super_coalition_structure
    a, b, c = _get_sub_super_coalition_structure(n)
    h = hashlib.sha256()
    for arr in (a, b, c):
        h.update(arr.tobytes())
    # `all_sorted` may legitimately be any size-sorted order; the digest only has to be stable within a run
    return h.hexdigest()


def run(tier: str, budget: Budget, rnd, prop: str) -> StreamResult:
    from incomplete_cooperative.coalitions import Coalition
    from incomplete_cooperative.game import IncompleteCooperativeGame

    res = StreamResult(f"hist[{prop}]")
    trials = 400 if tier == "quick" else 4000
    script = Script()
    pending = []
    for trial in range(trials):
        if not budget.ok():
            res.notes.append(f"budget exhausted after {trial} histories")
            break
        nobj = rnd.randint(2, 4) if prop == "C03" else rnd.randint(1, 2)
        objs = []
        for j in range(nobj):
            n = rnd.choice([2, 3, 3, 4, 4, 5])
            samg = (rnd.random() < 0.25 and prop not in ("C03", "C01", "C02")) or prop == "C04"
            v = G.sam_game(n, rnd) if samg else G.sa_game(n, rnd, kind=rnd.choice(["int", "dyadic"]),
                                                           neg_singletons=rnd.random() < 0.3)
            comp = rnd.choice(["sam:0", "sam:1", "sam:2", "sam:3"] if prop == "C04" else ["sam:1", "sam:2"]) if samg else rnd.choice(["sa", "sac"])
            name = f"t{trial}o{j}"
            g = IncompleteCooperativeGame(n, computer(comp))
            script.add(f"tab new {name} {n}", "ok")
            K0 = G.knowledge_random(n, rnd)
            g.set_known_values([float(v[k]) for k in K0], [Coalition(k) for k in K0])
            script.add(f"tab setknown {name} {nlist(K0)} {rlist([v[k] for k in K0])}", "ok")
            objs.append({"name": name, "n": n, "v": v, "comp": comp, "g": g, "K": set(K0) | {0},
                         "hist": [f"new {n} {comp}", f"setknown {nlist(K0)} {rlist([v[k] for k in K0])}"],
                         "digest": struct_digest(n), "stats": {"compute": 0, "undo": 0, "stale": 0}})
        for step in range(rnd.randint(15, 40)):
            o = rnd.choice(objs)
            g, n, v, name = o["g"], o["n"], o["v"], o["name"]
            N = 2 ** n
            mn = set(G.minimal_ids(n))
            op = rnd.choice(["setknown", "reveal", "reveal", "unreveal", "set", "unset", "stale", "stale_bulk", "setvalues",
                             "compute", "compute", "compute", "undo", "copy", "transfer"])
            if op == "transfer":
                # the game crosses a process boundary (pickled into a Pool worker, as gameplay.py / evaluation.py do) or is
                # deep-copied: the object that comes out is the same game, and it is the one the history continues with
                import copy as _copy
                import pickle as _pickle
                how = rnd.choice(["pickle", "pickle", "deepcopy"])
                try:
                    o["g"] = _pickle.loads(_pickle.dumps(g)) if how == "pickle" else _copy.deepcopy(g)
                except Exception as e:      # noqa: BLE001
                    res.disagree(f"{how} of a game raised", {"error": err_kind(e), "history": list(o["hist"])})
                    break
                o["hist"].append(f"{how} round trip (the history continues with the resulting object)")
                res.count(f"op:transfer:{how}")
                continue
            if op == "copy":
                # a copy taken in the middle of a history (after computes): from here on original and copy are two games that
                # share nothing — un-revealing in one must not reach the other (copy() is what MetaGame and the solvers use)
                if len(objs) >= 4:
                    continue
                cname = f"{name}c{len(objs)}"
                try:
                    cg = g.copy()
                except Exception as e:      # noqa: BLE001
                    res.disagree("copy() raised", {"error": err_kind(e), "history": list(o["hist"])})
                    break
                script.add(f"tab copy {name} {cname}", "ok", {"history": list(o["hist"]), "n": n})
                objs.append({"name": cname, "n": n, "v": v, "comp": o["comp"], "g": cg, "K": set(o["K"]),
                             "hist": list(o["hist"]) + [f"copy -> {cname} (this object is the copy)"],
                             "digest": o["digest"], "stats": dict(o["stats"])})
                o["hist"].append(f"copy -> {cname}")
                res.count("op:copy")
                continue
            try:
                if op == "setknown":
                    lst = o.get("shared")
                    if lst is not None and rnd.random() < 0.5:
                        # the caller keeps ONE list object, edits it in place (same length) and passes it again: what counts is
                        # what the list holds now, not which object it is
                        idxs = [i_ for i_, c_ in enumerate(lst) if c_.id not in mn]
                        others = [c_ for c_ in range(N) if c_ not in {x_.id for x_ in lst}]
                        if idxs and others:
                            lst[rnd.choice(idxs)] = Coalition(rnd.choice(others))
                        K = [c_.id for c_ in lst]
                        res.count("setknown:same-list-object-edited-in-place")
                    else:
                        K = G.knowledge_random(n, rnd)
                        if rnd.random() < 0.2:
                            # nearly everything known: all but one or two coalitions
                            K = [c_ for c_ in range(N) if c_ not in set(rnd.sample([x_ for x_ in range(N) if x_ not in mn] or [0], k=min(rnd.randint(1, 2), max(1, N - len(mn)))))]
                            res.count("setknown:all-but-one-or-two")
                        rnd.shuffle(K)
                        if rnd.random() < 0.3 and K:
                            # a coalition named twice (e.g. minimal coalitions + chosen ones that include a singleton): legal, same value
                            for _ in range(rnd.randint(1, 2)):
                                K.insert(rnd.randrange(len(K) + 1), rnd.choice(K))
                            res.count("setknown:repeated-coalition")
                        lst = o["shared"] = [Coalition(k) for k in K]
                    g.set_known_values([float(v[k]) for k in K], lst)
                    ln = f"tab setknown {name} {nlist(K)} {rlist([v[k] for k in K])}"
                    o["K"] = set(K) | {0}
                elif op == "setvalues":
                    # batch set WITHOUT a reset (set_values(values, coalitions)): knowledge grows by several coalitions at once
                    import numpy as np
                    cs = rnd.sample(range(N), rnd.randint(1, min(4, N)))
                    if rnd.random() < 0.3:
                        cs.insert(rnd.randrange(len(cs) + 1), rnd.choice(cs))      # a coalition named twice
                        res.count("setvalues:repeated-coalition")
                    g.set_values(np.array([float(v[c]) for c in cs]), [Coalition(c) for c in cs])
                    ln = f"tab setvalues {name} {nlist(cs)} {rlist([v[c] for c in cs])}"
                    o["K"] |= set(cs)
                elif op in ("reveal", "set"):
                    cand = [c for c in range(N) if c not in o["K"]] if op == "reveal" else list(range(N))
                    if not cand:
                        continue
                    c = rnd.choice(cand)
                    if op == "reveal":
                        g.reveal_value(float(v[c]), Coalition(c))
                        ln = f"tab reveal {name} {c} {rs(v[c])}"
                    else:
                        g.set_value(float(v[c]), Coalition(c))
                        ln = f"tab set {name} {c} {rs(v[c])}"
                    o["K"].add(c)
                elif op in ("unreveal", "unset"):
                    cand = sorted(c for c in o["K"] if c not in mn or rnd.random() < 0.05)
                    if not cand:
                        continue
                    c = rnd.choice(cand)
                    if op == "unreveal":
                        g.unreveal_value(Coalition(c))
                    else:
                        g.unset_value(Coalition(c))
                    ln = f"tab {op} {name} {c}"
                    o["K"].discard(c)
                    o["stats"]["undo"] += 1
                elif op == "stale":
                    cand = [c for c in range(N) if c not in o["K"]]
                    if not cand:
                        continue
                    c = rnd.choice(cand)
                    x = Fraction(rnd.randint(-1000, 1000))
                    w = rnd.choice(["setlo", "sethi"])
                    (g.set_lower_bound if w == "setlo" else g.set_upper_bound)(float(x), Coalition(c))
                    ln = f"tab {w} {name} {c} {rs(x)}"
                    o["stats"]["stale"] += 1
                elif op == "stale_bulk":
                    import numpy as np
                    xs = [Fraction(rnd.randint(-1000, 1000)) for _ in range(N)]
                    w = rnd.choice(["lo", "hi"])
                    (g.set_lower_bounds if w == "lo" else g.set_upper_bounds)(np.array([float(x) for x in xs]))
                    ln = f"tab bounds {name} {w} none {rlist(xs)}"
                    o["stats"]["stale"] += 1
                elif op == "undo":
                    # reveal + compute + un-reveal + compute must restore everything (needs fresh bounds first)
                    if not mn <= o["K"]:
                        continue
                    cand = [c for c in range(N) if c not in o["K"]]
                    if not cand:
                        continue
                    g.compute_bounds()
                    before = dump_impl(g)
                    c = rnd.choice(cand)
                    g.reveal_value(float(v[c]), Coalition(c)); g.compute_bounds()
                    g.unreveal_value(Coalition(c)); g.compute_bounds()
                    after = dump_impl(g)
                    for l_ in (f"tab compute {name} {o['comp']}", f"tab reveal {name} {c} {rs(v[c])}",
                               f"tab compute {name} {o['comp']}", f"tab unreveal {name} {c}", f"tab compute {name} {o['comp']}"):
                        script.add(l_, "ok", {"history": list(o["hist"])})
                        o["hist"].append(l_[4:].replace(name + " ", "", 1))
                    res.count("op:undo")
                    if prop == "C08" and before != after:
                        res.violation(f"reveal+compute+un-reveal+compute of coalition {c} did not restore the bounds",
                                      {"n": n, "v": [rs(x) for x in v], "computer": o["comp"], "history": list(o["hist"])},
                                      key="bounds:undo")
                    continue
                else:  # compute
                    if not mn <= o["K"]:
                        # outside the guard: both sides must raise; kinds may differ between computers (DESIGN C03)
                        try:
                            g.compute_bounds()
                            ans = "ok"
                        except Exception as e:
                            ans = err_kind(e)
                        # the table is left in an unspecified partial state by a raising compute: resynchronise
                        K = sorted(o["K"])
                        g.set_known_values([float(v[k]) for k in K], [Coalition(k) for k in K])
                        o["K"] = set(K) | {0}          # the bulk reset always re-knows the empty coalition
                        script.add(f"tab compute {name} {o['comp']}", ans, {"history": list(o["hist"]), "n": n})
                        script.add(f"tab setknown {name} {nlist(K)} {rlist([v[k] for k in K])}", "ok")
                        res.count(f"compute-outside-guard:{ans}")
                        o["hist"].append(f"compute {o['comp']} -> {ans}; setknown {nlist(K)}")
                        continue
                    g.compute_bounds()
                    ln = f"tab compute {name} {o['comp']}"
                    o["stats"]["compute"] += 1
            except Exception as e:  # an operation the walk believed valid raised: report as disagreement material
                res.disagree("operation raised unexpectedly", {"op": op, "error": err_kind(e), "history": list(o["hist"])})
                break
            o["hist"].append(ln[4:].replace(name + " ", "", 1))
            script.add(ln, "ok", {"history": list(o["hist"]), "n": n})
            res.count(f"op:{op}")
            if op != "compute":
                continue
            res.evaluations += 1
            Kn, L, U = dump_impl(g)
            case = {"n": n, "v": [rs(x) for x in v], "computer": o["comp"], "history": list(o["hist"]), "K": sorted(o["K"])}
            script.add(f"tab dump {name}", None, case)
            pending.append((len(script) - 1, case, (Kn, L, U)))
            if o["stats"]["compute"] >= 3 and o["stats"]["undo"] and o["stats"]["stale"] and G.asymmetric(v, n):
                res.nontrivial.add(name)
            if trial < 2 and len(res.samples) < 2:
                res.sample(case)
            # -------- oracles on the real code
            fresh = real_bounds(n, v, sorted(o["K"]), o["comp"])
            if prop == "C08":
                if isinstance(fresh, str) or fresh[1] != L or fresh[2] != U or fresh[0] != Kn:
                    res.violation("bounds after a history differ from the bounds of a fresh game with the same knowledge",
                                  case, key="bounds:history-dependence")
                g.compute_bounds()
                if dump_impl(g) != (Kn, L, U):
                    res.violation("recomputing bounds changed them (not idempotent)", case, key="bounds:idempotence")
            if prop == "C01" and o["comp"] in ("sa", "sac"):
                for c in range(N):
                    if not (L[c] <= v[c] <= U[c]) or (c in o["K"] and not (L[c] == U[c] == v[c])):
                        res.violation(f"true value outside the interval of coalition {c} after a history", {**case, "coalition": c},
                                      key="bounds:unsound-after-history")
                        break
            if prop == "C02" and o["comp"] in ("sa", "sac") and n <= 4:
                from corr_bounds import tight_bounds
                tl, tu = tight_bounds(n, v, sorted(o["K"]))
                for c in range(N):
                    if L[c] != tl[c] or U[c] != tu[c]:
                        res.violation(f"after a history the bound at coalition {c} is not the extreme over superadditive completions: "
                                      f"computed [{rs(L[c])},{rs(U[c])}], exact [{rs(tl[c])},{rs(tu[c])}]", {**case, "coalition": c},
                                      key="bounds:not-tight-after-history")
                        break
            if prop == "C04":
                Ks = o["K"]
                bad = None
                for c in range(N):
                    if not (L[c] <= v[c] <= U[c]):
                        bad = f"true value outside [{rs(L[c])}, {rs(U[c])}] at coalition {c} after a history"
                        break
                    for x in G.submasks(c):
                        if L[x] < L[c]:
                            bad = f"lower bounds not monotone non-increasing after a history: lo({x}) < lo({c})"
                        if x not in (0, c) and x in Ks and c not in Ks and U[c] > v[x]:
                            bad = f"upper({c}) exceeds the value of known sub-coalition {x} after a history"
                    if c not in Ks and not bad:
                        for T in range(N):
                            if T & c == c and T != c and T in Ks and U[c] > v[T] - L[T ^ c]:
                                bad = f"upper({c}) exceeds v({T}) - lower({T ^ c}) after a history"
                    if bad:
                        break
                if bad:
                    res.violation(bad, case, key="bounds:sam-after-history")
            if prop == "C03":
                other = "sac" if o["comp"] == "sa" else "sa"
                ob = real_bounds(n, v, sorted(o["K"]), other)
                if isinstance(ob, str) or ob[1] != L or ob[2] != U:
                    res.violation(f"{o['comp']} (after a history, interleaved with other player counts) and a fresh {other} disagree",
                                  case, key="bounds:sa-vs-sac")
                if struct_digest(n) != o["digest"]:
                    res.violation("the memoised coalition structure was modified by a compute", case, key="bounds:cache-mutated")
    for b in script.diff():
        res.disagree("history op", {k: b[k] for k in ("line", "impl", "model", "ctx")})
    for idx, case, (Kn, L, U) in pending:
        try:
            mK, mL, mU = parse_dump(script.outs[idx])
        except Exception:
            res.disagree("unparsable model dump", {"case": case, "model": script.outs[idx]})
            continue
        if prop == "C01":
            ok = mK == Kn and all(L[c] <= mL[c] and mU[c] <= U[c] for c in range(len(L))) and \
                all(L[c] == mL[c] and U[c] == mU[c] for c in case["K"])
        else:
            ok = (mK, mL, mU) == (Kn, L, U)
        if not ok:
            res.disagree("bounds after a history", {"case": case, "impl": {"L": [rs(x) for x in L], "U": [rs(x) for x in U]},
                                                   "model": script.outs[idx]})
            if len(res.disagreements) >= 10:
                break
    if prop in ("C08", "C03"):
        hash_twin_cases(res, rnd, prop)
    if prop == "C08":
        nonfinite_knowledge_cases(res, rnd, tier)
    if prop == "C01":
        from common import optimized_probe
        optimized_probe(res, "game", rnd.randrange(10 ** 6), "bounds:interpreter-flag")
    return res


def hash_twin_cases(res, rnd, prop) -> None:
    """Oracle on the real code.  Knowledge states on the SAME known set whose values differ only in numbers that Python hashes alike
    (hash(-1.0) == hash(-2.0); hash(2.0**61) == hash(1.0); 0.0 / -0.0): the value of one known coalition is switched between such twins
    on one game object, recomputing each time — the bounds must be those of a fresh game with the current values every time."""
    import numpy as np
    from incomplete_cooperative.coalitions import Coalition
    from incomplete_cooperative.game import IncompleteCooperativeGame
    twins = [(-1.0, -2.0), (1.0, 2.0 ** 61), (0.0, -0.0)]
    for comp in ("sa", "sac", "sam:1"):
        for n in (3, 4):
            N = 2 ** n
            K = sorted(set(G.minimal_ids(n)) | {3})
            for a, b in twins:
                for where in (1, 3, N - 1):
                    base = {k: float(-(G.popcount(k) ** 2)) if comp.startswith("sam") else float(G.popcount(k) ** 2) for k in K}
                    g = IncompleteCooperativeGame(n, computer(comp))
                    for val in (a, b, a):
                        vals = dict(base)
                        vals[where] = val
                        try:
                            g.set_known_values([vals[k] for k in K], [Coalition(k) for k in K])
                            g.compute_bounds()
                            # the reference: a fresh game — computed by the OTHER superadditive computer where there is one (C03:
                            # they agree), so that a per-process memo of one computer cannot serve both sides of the comparison
                            other = {"sa": "sac", "sac": "sa"}.get(comp, comp)
                            fresh = IncompleteCooperativeGame(n, computer(other))
                            fresh.set_known_values([vals[k] for k in K], [Coalition(k) for k in K])
                            fresh.compute_bounds()
                        except Exception:       # noqa: BLE001    such values may be outside a computer's domain: no verdict
                            res.count("hash-twins:raised")
                            break
                        res.evaluations += 1
                        res.count("hash-twins")
                        same = np.array_equal(np.array(g.get_lower_bounds()), np.array(fresh.get_lower_bounds()), equal_nan=True) and \
                            np.array_equal(np.array(g.get_upper_bounds()), np.array(fresh.get_upper_bounds()), equal_nan=True)
                        if not same:
                            res.violation(f"{comp}: after the value of known coalition {where} was switched to {val!r} (from its hash twin) on one game "
                                          "object and the bounds recomputed, they are not those of a fresh game with the current values",
                                          {"n": n, "computer": comp, "K": K, "values": {str(k): vals[k] for k in K}, "twins": [a, b], "coalition": where},
                                          key="bounds:hash-twins")
                            return


def nonfinite_knowledge_cases(res, rnd, tier) -> None:
    """Oracle on the real code only (the model's values are rationals).  Knowledge that holds INFINITE values (coalitions marked
    infeasible with −inf): some fresh bounds then evaluate to −inf − (−inf) = NaN.  Whatever a computer makes of that, it is a
    function of the current knowledge: two histories ending in the same knowledge give the same bound vectors (NaN = NaN here), and
    recomputing changes nothing."""
    import warnings

    import numpy as np
    from incomplete_cooperative.coalitions import Coalition
    from incomplete_cooperative.game import IncompleteCooperativeGame
    for ci in range(9 if tier == "quick" else 90):
        n = 4 + ci % 2
        N = 2 ** n
        comp = ["sa", "sac", "sam:1"][ci % 3]
        v = [float(x) for x in (G.sam_game(n, rnd) if comp.startswith("sam") else G.sa_game(n, rnd, "int"))]
        players = rnd.sample(range(n), 4)
        A = (1 << players[0]) | (1 << players[1])
        B = A | (1 << players[2]) | (1 << players[3])
        if B == N - 1:
            B = A | (1 << players[2])
        v[A] = v[B] = float("-inf")
        K = sorted(set(G.minimal_ids(n)) | {A, B} | set(rnd.sample(range(1, N - 1), 2)))

        def bounds_after(history):
            g = IncompleteCooperativeGame(n, computer(comp))
            with warnings.catch_warnings(), np.errstate(all="ignore"):
                warnings.simplefilter("ignore")
                for step in history:
                    if step[0] == "setknown":
                        g.set_known_values([v[k] for k in step[1]], [Coalition(k) for k in step[1]])
                    elif step[0] == "reveal":
                        g.reveal_value(v[step[1]], Coalition(step[1]))
                    else:
                        g.compute_bounds()
            return np.array(g.get_lower_bounds(), dtype=float), np.array(g.get_upper_bounds(), dtype=float)
        hists = {"bulk": [("setknown", K), ("compute",)],
                 "reveal-last": [("setknown", [k for k in K if k != B]), ("compute",), ("reveal", B), ("compute",)],
                 "bulk-twice": [("setknown", K), ("compute",), ("compute",)]}
        try:
            outs = {name: bounds_after(h) for name, h in hists.items()}
        except Exception as e:      # noqa: BLE001
            res.count(f"nonfinite-knowledge:raised:{type(e).__name__}")      # a computer may refuse such knowledge: no verdict
            continue
        res.evaluations += 1
        res.count("nonfinite-knowledge")
        ref = outs["bulk"]
        for name, (lo, hi) in outs.items():
            if not (np.array_equal(lo, ref[0], equal_nan=True) and np.array_equal(hi, ref[1], equal_nan=True)):
                c = int(np.flatnonzero(~((lo == ref[0]) | (np.isnan(lo) & np.isnan(ref[0]))) | ~((hi == ref[1]) | (np.isnan(hi) & np.isnan(ref[1]))))[0])
                res.violation(f"knowledge with −inf values: the history '{name}' and the bulk history end in the same knowledge but give "
                              f"different bounds (coalition {c}: [{lo[c]}, {hi[c]}] vs [{ref[0][c]}, {ref[1][c]}])",
                              {"n": n, "computer": comp, "values": [repr(x) for x in v], "K": K, "minus_inf": [A, B], "history": name},
                              key="bounds:nonfinite-knowledge")
                return
