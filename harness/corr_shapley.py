"""Correspondence stream `shapley` (C05, C06, gap part of C07): shapley.py / exploitability.py / norms.py
vs ICG.Model.Shapley.

`arg` selects the property:

  C05  cases = (n, known flags, lower vector, upper vector).  Real entry point `compute_exploitability`
       on (a) a real `IncompleteCooperativeGame` whose rows were written with `set_value` /
       `set_lower_bounds` / `set_upper_bounds` (+ scalar bound writes for the ill-formed rows) and (b) a
       plain-Python stub implementing the `IncompleteGame` methods the function uses; also
       `MaxGainGame(i).get_values()`.  Compared with the model as exact rationals.
       Oracle on the real code: reported value = Σ_c (hi c − lo c)/C(n,|c|) − hi(∅) in exact Fractions
       (= the stated weighted-gap form when hi(∅)=0), = Σ_i φ_i(maxgain_i) − v(N) with φ computed by an
       independent n!-free Fraction formula; ≥ 0 when lo ≤ hi; zero iff every interval is degenerate;
       domination: for random completions (interior points and vertices of the box) the REAL
       `compute_shapley_value_for_player(i, completion)` ≤ the REAL per-player maximum.
       Malformed sub-stream: grand coalition unknown → `err:value` on both sides.
  C06  cases = (n, complete game).  Real entry points `compute_shapley_value`,
       `compute_shapley_value_for_player` on the real class and on a plain-Python `Game` stub.
       Oracle on the real code: φ = average marginal contribution over all n! orderings
       (itertools.permutations, n ≤ 6 quick / n ≤ 7 thorough), efficiency, symmetry under a random
       relabelling, null players get 0, linearity, both entry points return the same numbers.
       Malformed sub-stream: a game with an unknown coalition → `err:value`.
  C07  cases = chains of row-wise nested tables T0 ⊇ T1 ⊇ … ⊇ degenerate.  Real `l1_norm`, `l2_norm`,
       `linf_norm`, `compute_exploitability` on real objects.  Oracle: every gap is non-increasing
       along the chain, never negative, zero on the degenerate table, and each norm IS the named norm
       of the width vector (exact Fractions; l2 within 1 ulp of the correctly rounded square root).

Exactness: every entry is an integer multiple of n!·2^-k (k ≤ 4) of moderate size, so every float64
intermediate (`coef·(with − without)`, the running sums, the final `/ n!`, `abs`, `x·x`) is exact and the
real result is compared AS AN EXACT RATIONAL with the Rat model.  `l2_norm` is compared with
`math.sqrt(float(l2sq_model))` and a slack of 1 ulp (IEEE sqrt is correctly rounded; the slack only
guards against a differently rounded `dot`).  A separate float sub-stream (arbitrary doubles, keys
`float:*`) compares with relative tolerance 1e-9 of the input magnitude; its results are counted apart.

"Non-trivial" (`res.nontrivial`): C05 — at least one non-degenerate row, ≥ 2 distinct non-zero widths, and
(lo, hi) not invariant under any transposition of two players; C06 — the game is not invariant under any
transposition of two players (so all mutations that confuse players or sizes change the answer);
C07 — a chain with ≥ 2 strictly shrinking steps and ≥ 2 distinct widths at its start.
"""
from __future__ import annotations

import itertools
import math
from fractions import Fraction
from math import comb, factorial

import numpy as np

from common import Budget, Script, StreamResult, err_kind, frac, rlist, rs


def popc(x: int) -> int:
    return bin(x).count("1")


def swap_bits(c: int, a: int, b: int) -> int:
    ba, bb = (c >> a) & 1, (c >> b) & 1
    if ba != bb:
        c ^= (1 << a) | (1 << b)
    return c


def perm_mask(c: int, perm) -> int:
    """relabel player j as perm[j]"""
    r = 0
    j = 0
    while c:
        if c & 1:
            r |= 1 << perm[j]
        c >>= 1
        j += 1
    return r


def asymmetric(n: int, *vecs) -> bool:
    """no transposition of two players leaves all the vectors unchanged"""
    N = 2 ** n
    for a in range(n):
        for b in range(a + 1, n):
            if all(all(v[swap_bits(c, a, b)] == v[c] for c in range(N)) for v in vecs):
                return False
    return True


def shapley_exact(n: int, v) -> list[Fraction]:
    """independent reference: φ_i = Σ_{S∌i} (v(S∪i) − v(S)) / (n·C(n−1,|S|)) — no factorials"""
    out = []
    for i in range(n):
        b = 1 << i
        s = Fraction(0)
        for c in range(2 ** n):
            if not c & b:
                s += Fraction(v[c | b] - v[c], n * comb(n - 1, popc(c)))
        out.append(s)
    return out


def shapley_orderings(n: int, v) -> list[Fraction]:
    acc = [Fraction(0)] * n
    for perm in itertools.permutations(range(n)):
        b = 0
        for p in perm:
            acc[p] += v[b | (1 << p)] - v[b]
            b |= 1 << p
    nf = factorial(n)
    return [x / nf for x in acc]


def rand_val(rnd, n: int, spread: int = 24) -> Fraction:
    """a multiple of n!·2^-k"""
    return Fraction(rnd.randint(-spread, spread) * factorial(n), rnd.choice([1, 1, 2, 4, 16]))


def rand_width(rnd, n: int) -> Fraction:
    return Fraction(rnd.choice([0, 0, 1, 2, 3, 5, 7, 11, 13]) * factorial(n), rnd.choice([1, 1, 2, 4, 16]))


# ------------------------------------------------------------------------------------------------
# implementation objects

def make_stubs():
    from incomplete_cooperative.coalitions import Coalition  # noqa: F401

    class StubGame:
        """plain-Python `Game`: exactly the protocol members (isinstance(…, Game) must hold)"""

        def __init__(self, n, vals):
            self._n = n
            self._v = np.array([float(x) for x in vals], dtype=float)

        @property
        def number_of_players(self):
            return self._n

        def get_values(self, coalitions=None):
            return self._v.copy() if coalitions is None else self._v[[c.id for c in coalitions]]

        def get_value(self, coalition):
            return self._v[coalition.id]

        def copy(self):
            return StubGame(self._n, self._v)

        def __add__(self, other):
            return StubGame(self._n, self._v + other._v)

    class StubIncomplete(StubGame):
        """plain-Python `IncompleteGame` as far as exploitability.py / norms.py read it"""

        def __init__(self, n, known, lo, hi):
            super().__init__(n, hi)
            self._k = list(known)
            self._lo = np.array([float(x) for x in lo], dtype=float)
            self._hi = np.array([float(x) for x in hi], dtype=float)

        def get_value(self, coalition):
            if not self._k[coalition.id]:
                raise ValueError("Value is not known.")
            return self._lo[coalition.id]

        def is_value_known(self, coalition):
            return bool(self._k[coalition.id])

        def get_upper_bounds(self, coalitions=None):
            return self._hi.copy() if coalitions is None else self._hi[[c.id for c in coalitions]]

        def get_lower_bounds(self, coalitions=None):
            return self._lo.copy() if coalitions is None else self._lo[[c.id for c in coalitions]]

        def get_upper_bound(self, coalition):
            return self._hi[coalition.id]

        def get_lower_bound(self, coalition):
            return self._lo[coalition.id]

    return StubGame, StubIncomplete


def real_table(n, known, lo, hi):
    """a real IncompleteCooperativeGame holding exactly (known, lo, hi)"""
    from incomplete_cooperative.coalitions import Coalition
    from incomplete_cooperative.game import IncompleteCooperativeGame
    g = IncompleteCooperativeGame(n)
    N = 2 ** n
    if not known[0]:
        g.unset_value(Coalition(0))
    # bulk writes reach the unknown rows only; known rows: set_value (+ scalar writes when lo ≠ hi)
    for c in range(N):
        if known[c]:
            g.set_value(float(lo[c]), Coalition(c))
    g.set_lower_bounds(np.array([float(x) for x in lo], dtype=float))
    g.set_upper_bounds(np.array([float(x) for x in hi], dtype=float))
    for c in range(N):
        if known[c] and hi[c] != lo[c]:
            g.set_upper_bound(float(hi[c]), Coalition(c))
    assert [bool(x) for x in g.are_values_known()] == [bool(x) for x in known]
    assert [frac(x) for x in g.get_lower_bounds()] == list(lo) and [frac(x) for x in g.get_upper_bounds()] == list(hi)
    return g


def real_complete(n, v):
    from incomplete_cooperative.game import IncompleteCooperativeGame
    g = IncompleteCooperativeGame(n)
    g.set_values(np.array([float(x) for x in v], dtype=float))
    return g


def call(f, *a):
    """('ok', value) or ('err', kind)"""
    try:
        return ("ok", f(*a))
    except Exception as e:  # noqa: BLE001
        return ("err", err_kind(e))


def ans_num(r) -> str:
    return rs(r[1]) if r[0] == "ok" else r[1]


def ans_list(r) -> str:
    return rlist(r[1]) if r[0] == "ok" else r[1]


def kbits(known) -> str:
    return "".join("1" if k else "0" for k in known)


def expl_closed(n, lo, hi) -> Fraction:
    return sum((Fraction(hi[c] - lo[c], comb(n, popc(c))) for c in range(2 ** n)), Fraction(0)) - hi[0]


# ------------------------------------------------------------------------------------------------
# C05

def gen_table(rnd, n, style):
    """(known, lo, hi): `wf` = what the package builds (∅ known 0, known ⇒ lo = hi, lo ≤ hi);
    `raw` = arbitrary vectors (∅ any, known rows with lo ≠ hi, crossing bounds)."""
    N = 2 ** n
    p = rnd.choice([0.1, 0.5, 0.9])
    known = [rnd.random() < p for _ in range(N)]
    lo = [rand_val(rnd, n) for _ in range(N)]
    if style == "wf":
        hi = [lo[c] if known[c] else lo[c] + rand_width(rnd, n) for c in range(N)]
        known[0] = True
        lo[0] = hi[0] = Fraction(0)
    else:
        hi = [lo[c] + rnd.choice([-1, 1, 1, 1]) * rand_width(rnd, n) for c in range(N)]
    known[N - 1] = True
    if style == "wf":
        hi[N - 1] = lo[N - 1]
    return known, lo, hi


def wide_game_case(res, rnd, prop: str, n: int = 17):
    """One game with more than 16 players (coalition ids beyond two bytes), real code only: v(S) = Σ_{i∈S} w_i + |S|² has the
    closed-form Shapley value φ_i = w_i + n; two single-player calls (lowest and highest player) are compared with it."""
    import numpy as np
    from incomplete_cooperative.game import IncompleteCooperativeGame
    from incomplete_cooperative.shapley import compute_shapley_value_for_player
    w = [rnd.randint(-5, 5) for _ in range(n)]
    ids = np.arange(2 ** n)
    vals = np.zeros(2 ** n)
    size = np.zeros(2 ** n)
    for i in range(n):
        bit = (ids >> i) & 1
        vals += bit * w[i]
        size += bit
    vals += size ** 2
    g = IncompleteCooperativeGame(n)
    g.set_values(vals)
    for i in (0, n - 1):
        r = call(compute_shapley_value_for_player, i, g)
        res.evaluations += 1
        res.count(f"{prop}:n={n}(closed form)")
        if r[0] != "ok" or abs(float(r[1]) - (w[i] + n)) > 1e-6 * n:
            res.violation(f"Shapley value of player {i} in a {n}-player game (v = Σ w_i + |S|², φ_i = w_i + n) is wrong beyond float rounding",
                          {"n": n, "weights": w, "game": "v(S) = sum of w_i over S + |S|^2", "player": i,
                           "reported": repr(r[1]) if r[0] == "ok" else r[0], "expected": w[i] + n}, key=f"{prop}:wide-game")


def every_n_shapley(res, rnd, ns) -> None:
    """EVERY player count of a range (not a sample): the single-player entry point on a game with a closed-form Shapley value —
    v = Σ_i a_i·[i ∈ S] + Σ_T c_T·[T ⊆ S] (a few unanimity games) has φ_i = a_i + Σ_{T∋i} c_T/|T| — for player 0, the last player
    and one in between; small integers, relative tolerance 1e-9.  A fault tied to one particular n (a coefficient table that is
    off at n = 12 only, a run boundary at 2^12 ids) has nowhere to hide."""
    from incomplete_cooperative.shapley import compute_shapley_value_for_player
    import numpy as _np
    from incomplete_cooperative.game import IncompleteCooperativeGame as _ICG
    for n in ns:
        N = 2 ** n
        a = [rnd.randint(-5, 5) for _ in range(n)]
        Ts = [sum(1 << i for i in rnd.sample(range(n), rnd.randint(2, n))) for _ in range(3)] + [N - 1, (1 << (n - 1)) | (1 << (n - 2))]
        cT = [rnd.randint(1, 6) for _ in Ts]
        ids = _np.arange(N)
        vals = _np.zeros(N)
        for i in range(n):
            vals += a[i] * ((ids >> i) & 1)
        for T, c in zip(Ts, cT):
            vals += c * ((ids & T) == T)
        g = _ICG(n)
        g.set_values(vals.astype(float))
        for i in sorted({0, n - 1, n // 2, n - 2}):
            want = Fraction(a[i]) + sum(Fraction(c, popc(T)) for T, c in zip(Ts, cT) if T >> i & 1)
            r = call(compute_shapley_value_for_player, i, g)
            res.evaluations += 1
            res.count(f"C06:every-n={n}")
            if r[0] != "ok" or abs(Fraction(float(r[1])) - want) > Fraction(1, 10 ** 9) * max(1, abs(want)):
                res.violation(f"Shapley value of player {i} in a {n}-player game (additive + unanimity games, closed form) ≠ the average "
                              "marginal contribution beyond float rounding",
                              {"n": n, "player": i, "additive": a, "unanimity": [[T, c] for T, c in zip(Ts, cT)],
                               "reported": repr(r[1]) if r[0] == "ok" else r[1], "expected": float(want)}, key="C06:every-n")
                return


def shapley_special_probes(res, rnd, prop: str) -> None:
    """Three probes on the real code with exact oracles (closed-form Shapley values of additive + unanimity games; the binomially
    weighted gap for exploitability):

    * tiny magnitude — the same game times 2^-40 (exact): values are positively homogeneous, there is no absolute threshold below which
      a Shapley value 'is' zero;
    * re-entrancy — a game whose get_values itself computes Shapley values of ANOTHER game with the same number of players (what
      MetaGame with the exploitability gap does) before answering;
    * threads — two threads evaluate different games of the same size at the same time (switch interval 1e-6 s): every result is the
      one of its own game."""
    import sys
    import threading
    from incomplete_cooperative.coalitions import Coalition
    from incomplete_cooperative.exploitability import compute_exploitability
    from incomplete_cooperative.game import IncompleteCooperativeGame as _ICG
    from incomplete_cooperative.shapley import compute_shapley_value, compute_shapley_value_for_player
    from math import comb as _comb

    def closed_game(n):
        N = 2 ** n
        a = [rnd.randint(-5, 5) for _ in range(n)]
        Ts = [sum(1 << i for i in rnd.sample(range(n), rnd.randint(2, n))) for _ in range(3)]
        cT = [rnd.randint(1, 6) for _ in Ts]
        vals = [float(sum(a[i] for i in range(n) if c >> i & 1) + sum(c_ for T, c_ in zip(Ts, cT) if c & T == T)) for c in range(N)]
        phi = [Fraction(a[i]) + sum(Fraction(c_, popc(T)) for T, c_ in zip(Ts, cT) if T >> i & 1) for i in range(n)]
        return vals, phi

    def full(n, vals):
        g = _ICG(n)
        g.set_values(np.array(vals, dtype=float))
        return g

    def close(x, want, scale=1):
        return abs(Fraction(float(x)) - want * scale) <= Fraction(1, 10 ** 9) * max(abs(want * scale), Fraction(scale) if want == 0 else 0) \
            or Fraction(float(x)) == want * scale

    # ---- tiny magnitude
    for n in (3, 5):
        vals, phi = closed_game(n)
        sc = Fraction(1, 2 ** 40)
        g = full(n, [v * float(sc) for v in vals])
        got = call(lambda: [float(x) for x in compute_shapley_value(g)])
        res.evaluations += 1
        res.count(f"{prop}:tiny-magnitude")
        if got[0] != "ok" or any(not close(x, w, sc) for x, w in zip(got[1], phi)):
            res.violation("Shapley values of a game times 2^-40 are not 2^-40 times the Shapley values (closed form) beyond float rounding",
                          {"n": n, "values_times_2^40": vals, "reported": got[1] if got[0] == "ok" else got[1],
                           "expected_times_2^40": [float(x) for x in phi]}, key=f"{prop}:tiny-magnitude")
            return
    # ---- re-entrancy
    n = 3
    vals, phi = closed_game(n)
    other_vals, _ = closed_game(n)
    other = full(n, other_vals)

    class Reentrant:
        number_of_players = n

        def __init__(self):
            self.inner = full(n, vals)

        def get_values(self, coalitions=None):
            list(compute_shapley_value(other))                 # answers only after a Shapley computation on another game of this size
            return self.inner.get_values(coalitions)

        def get_value(self, coalition):
            return self.inner.get_value(coalition)

        def copy(self):                      # the `Game` protocol is checked structurally (isinstance(…, Game))
            return Reentrant()

        def __add__(self, other_):
            raise NotImplementedError
    got = call(lambda: [float(x) for x in compute_shapley_value(Reentrant())])
    res.evaluations += 1
    res.count(f"{prop}:re-entrant-game")
    if got[0] != "ok" or any(not close(x, w) for x, w in zip(got[1], phi)):
        res.violation("Shapley values of a game whose get_values itself runs a Shapley computation on another game of the same size are "
                      "not the average marginal contributions", {"n": n, "values": vals, "other_game": other_vals,
                                                                 "reported": got[1], "expected": [float(x) for x in phi]}, key=f"{prop}:re-entrancy")
        return
    # ---- threads
    n = 6
    games = [closed_game(n) for _ in range(2)]
    lohi = []
    for vals, _ in games:
        lo = np.array(vals) - np.array([rnd.randint(0, 3) for _ in vals], dtype=float)
        hi = np.array(vals) + np.array([rnd.randint(0, 3) for _ in vals], dtype=float)
        lo[0] = hi[0] = 0.0
        lo[-1] = hi[-1] = vals[-1]
        g = _ICG(n)
        g.set_value(float(vals[-1]), Coalition(2 ** n - 1))
        g.set_lower_bounds(lo)
        g.set_upper_bounds(hi)
        sizes = [popc(c) for c in range(2 ** n)]
        want = float(sum((hi[c] - lo[c]) / _comb(n, sizes[c]) for c in range(2 ** n)))
        lohi.append((g, want))
    out = [[], []]

    def work(k):
        for _ in range(25):
            out[k].append((float(compute_exploitability(lohi[k][0])), float(compute_shapley_value_for_player(0, full(n, games[k][0])))))
    old_si = sys.getswitchinterval()
    sys.setswitchinterval(1e-6)
    try:
        ths = [threading.Thread(target=work, args=(k,)) for k in (0, 1)]
        [t.start() for t in ths]
        [t.join() for t in ths]
    finally:
        sys.setswitchinterval(old_si)
    res.evaluations += 1
    res.count(f"{prop}:two-threads")
    for k in (0, 1):
        want_e, want_s = lohi[k][1], games[k][1][0]
        bad = [(e, s_) for e, s_ in out[k] if abs(e - want_e) > 1e-9 * max(1.0, abs(want_e)) or not close(s_, want_s)]
        if bad:
            res.violation(f"two threads evaluating different {n}-player games at the same time: {len(bad)} of {len(out[k])} results of thread "
                          f"{k} are not those of its own game (exploitability {bad[0][0]} vs {want_e}, Shapley {bad[0][1]} vs {float(want_s)})",
                          {"n": n, "thread": k, "wrong": len(bad)}, key=f"{prop}:threads")
            return


def run_c05(tier, budget, rnd, res, script, post):
    from incomplete_cooperative.coalitions import Coalition
    from incomplete_cooperative.exploitability import MaxGainGame, compute_exploitability
    from incomplete_cooperative.shapley import compute_shapley_value_for_player
    StubGame, StubIncomplete = make_stubs()
    shapley_special_probes(res, rnd, "C05")
    wide_game_case(res, rnd, "C05")          # the per-player Shapley values are the building block of exploitability
    # large player counts in ASCENDING order within one process (per-process tables that grow with n; coalition ids beyond 2^13):
    # integer bounds, real code only, oracle = the binomially weighted gap (relative tolerance 1e-9)
    import numpy as _np
    # BEFORE anything else, for every player count used below: one exploitability call on a game whose unknown coalitions still carry
    # the "nothing known" bounds −inf / +inf (no bound computation has run yet).  Its result (inf / nan) is not judged; what is judged
    # is every ordinary game evaluated AFTER it in this process — per-process state must not remember the earlier game.
    from incomplete_cooperative.game import IncompleteCooperativeGame as _ICG
    def nonfinite_precall(n_p):
        gp = _ICG(n_p)
        gp.set_value(float(rnd.randint(1, 9)), Coalition(2 ** n_p - 1))
        gp.set_upper_bounds(_np.full(2 ** n_p, _np.inf))
        if n_p % 2:
            gp.set_lower_bounds(_np.full(2 ** n_p, -_np.inf))
        with _np.errstate(all="ignore"):
            call(compute_exploitability, gp)
            call(lambda: MaxGainGame(gp, 0).get_values())
        res.count("C05:nonfinite-precall")
    for n_p in range(2, 7):
        nonfinite_precall(n_p)
    # every player count from 7 to 14 (thorough: 16), ascending: a fault that needs one particular n has nowhere to hide
    # (strictly ascending, the non-finite call of each player count right before its judged game: tables that grow with n must grow
    # step by step here — the descending order is the business of the C06 stream)
    for n_big in (range(7, 15) if tier == "quick" else range(7, 17)):
        if n_big <= 14:
            nonfinite_precall(n_big)
        if budget.left() < 20:
            res.notes.append("C05: large-n exploitability cases skipped (budget)")
            break
        Nb = 2 ** n_big
        lo_b = _np.array([rnd.randint(-9, 9) for _ in range(Nb)], dtype=float)
        hi_b = lo_b + _np.array([rnd.randint(0, 5) for _ in range(Nb)], dtype=float)
        lo_b[0] = hi_b[0] = 0.0
        hi_b[Nb - 1] = lo_b[Nb - 1]
        sizes_b = _np.array([popc(c) for c in range(Nb)])
        from math import comb as _comb
        want_b = float(_np.sum((hi_b - lo_b) / _np.array([_comb(n_big, int(k_)) for k_ in sizes_b], dtype=float)))
        gb = real_table(n_big, [True] + [False] * (Nb - 2) + [True], [Fraction(int(x)) for x in lo_b], [Fraction(int(x)) for x in hi_b])
        rb = call(compute_exploitability, gb)
        res.evaluations += 1
        res.count(f"C05:large-n={n_big}")
        if rb[0] != "ok" or abs(float(rb[1]) - want_b) > 1e-9 * max(1.0, abs(want_b)):
            res.violation(f"exploitability of a {n_big}-player game ≠ Σ (hi−lo)/C(n,|S|) beyond float rounding (computed after smaller games in "
                          f"the same process)", {"n": n_big, "lo": [int(x) for x in lo_b], "hi": [int(x) for x in hi_b],
                                                 "reported": repr(rb[1]) if rb[0] == "ok" else rb[1], "expected": want_b,
                                                 "order_in_process": "ascending from 7, after one call per player count on a game with infinite bounds"}, key="C05:large-n")
    nmax = 6 if tier == "quick" else 8
    per_n = 150 if tier == "quick" else 1200
    for n in range(1, nmax + 1):
        N = 2 ** n
        for t in range(per_n if n <= 5 else (per_n // 3 if n == 6 else per_n // 12)):
            if not budget.ok():
                res.notes.append(f"C05: budget exhausted at n={n} case {t}")
                return
            style = "wf" if rnd.random() < 0.7 else "raw"
            known, lo, hi = gen_table(rnd, n, style)
            if style == "wf" and rnd.random() < 0.12:     # degenerate table
                hi = list(lo)
            malformed = rnd.random() < 0.1
            if malformed:
                known[N - 1] = False
            replay = {"n": n, "known": kbits(known), "lo": [rs(x) for x in lo], "hi": [rs(x) for x in hi]}
            g = real_table(n, known, lo, hi)
            stub = StubIncomplete(n, known, lo, hi)
            r_real = call(compute_exploitability, g)
            r_stub = call(compute_exploitability, stub)
            line = f"shp expl {n} {kbits(known)} {rlist(lo)} {rlist(hi)}"
            script.add(line, ans_num(r_real), {"case": replay, "entry": "compute_exploitability(real class)"})
            script.add(line, ans_num(r_stub), {"case": replay, "entry": "compute_exploitability(stub)"})
            res.evaluations += 2
            res.count(f"C05:n={n}")
            res.count(f"C05:{style}{':malformed' if malformed else ''}")
            res.count(f"C05:outcome:{r_real[1] if r_real[0] == 'err' else 'ok'}")
            i = rnd.randrange(n)
            mg = call(lambda: MaxGainGame(g, i).get_values())
            script.add(f"shp maxgain {n} {i} {rlist(lo)} {rlist(hi)}", ans_list(mg), {"case": replay, "player": i})
            # the three entry points of the max-gain game agree: get_values(), get_values(coalitions), get_value(coalition)
            # — "upper bound on coalitions containing the player, lower bound elsewhere"
            if mg[0] == "ok":
                from incomplete_cooperative.coalitions import Coalition as _C
                mgg = MaxGainGame(g, i)
                want = [hi[c] if c >> i & 1 else lo[c] for c in range(N)]
                sub = [rnd.randrange(N) for _ in range(3)]
                try:
                    one = [frac(mgg.get_value(_C(c))) for c in range(N)]
                    some = [frac(x) for x in mgg.get_values([_C(c) for c in sub])]
                except Exception as ex:      # noqa: BLE001
                    one, some = f"raised {type(ex).__name__}", None
                # the max-gain game of player i is a game like any other: BOTH Shapley entry points, for EVERY player (not only i)
                if n <= 5:
                    from incomplete_cooperative.shapley import compute_shapley_value as _csv
                    phi_want = shapley_exact(n, want)
                    try:
                        singles = [frac(compute_shapley_value_for_player(p_, mgg)) for p_ in range(n)]
                        alls = [frac(x) for x in _csv(mgg)]
                    except Exception as ex:      # noqa: BLE001
                        singles, alls = f"raised {type(ex).__name__}", None
                    tol_ = lambda a_, b_: abs(a_ - b_) <= Fraction(1, 10 ** 9) * max(1, abs(b_))      # noqa: E731
                    if not (isinstance(singles, list) and all(tol_(a_, b_) for a_, b_ in zip(singles, phi_want))
                            and all(tol_(a_, b_) for a_, b_ in zip(alls, phi_want))):
                        res.violation("Shapley value of the max-gain game of player i, asked for another player through the single-player / "
                                      "all-players entry, is not the average marginal contribution in that game",
                                      dict(replay, maxgain_player=i, single=repr(singles)[:300], all=repr(alls)[:300],
                                           expected=[rs(x) for x in phi_want]), key="C05:maxgain-other-player")
                if [frac(x) for x in mg[1]] != want or one != want or some != [want[c] for c in sub]:
                    res.violation("the max-gain game of a player is not 'upper bound on coalitions containing the player, lower "
                                  "bound elsewhere' at every entry point (get_values / get_values(coalitions) / get_value)",
                                  dict(replay, player=i, get_value=repr(one)[:300]), key="C05:maxgain")
            # ---- oracle on the real code
            if malformed:
                if r_real != ("err", "err:value") or r_stub != ("err", "err:value"):
                    res.violation("exploitability defined although the grand coalition is unknown",
                                  dict(replay, real=repr(r_real), stub=repr(r_stub)), key="C05:defined")
                continue
            if r_real[0] != "ok" or r_stub[0] != "ok":
                res.violation("compute_exploitability raised although the grand coalition is known",
                              dict(replay, real=repr(r_real), stub=repr(r_stub)), key="C05:defined")
                continue
            e = frac(r_real[1])
            if frac(r_stub[1]) != e:
                res.violation("real class and protocol stub disagree", dict(replay, real=rs(e), stub=rs(r_stub[1])),
                              key="C05:stub")
            ident = expl_closed(n, lo, hi)
            if e != ident:
                res.violation("exploitability ≠ Σ (hi−lo)/C(n,|S|) − hi(∅)", dict(replay, reported=rs(e), expected=rs(ident)),
                              key="C05:identity")
            # per-player maxima, independently: Shapley of the max-gain game by the factorial-free formula
            maxphi = []
            for p in range(n):
                b = 1 << p
                mgv = [hi[c] if c & b else lo[c] for c in range(N)]
                maxphi.append(shapley_exact(n, mgv)[p])
            if e != sum(maxphi) - lo[N - 1]:
                res.violation("exploitability ≠ Σ_i max-Shapley_i − v(N)", dict(replay, reported=rs(e),
                              expected=rs(sum(maxphi) - lo[N - 1])), key="C05:maxsum")
            wf = style == "wf"
            if wf:
                if e < 0:
                    res.violation("negative exploitability with lower ≤ upper", dict(replay, reported=rs(e)), key="C05:nonneg")
                degenerate = all(lo[c] == hi[c] for c in range(N))
                if (e == 0) != degenerate:
                    res.violation("exploitability zero ⇎ all intervals degenerate", dict(replay, reported=rs(e)), key="C05:zero")
                if degenerate:
                    res.count("C05:degenerate")
                # domination on the real code: random completions inside the box
                for k in range(2 if n <= 6 else 1):
                    kind = rnd.choice(["vertex", "interior", "maxgain"])
                    p = rnd.randrange(n)
                    if kind == "vertex":
                        w = [rnd.choice([lo[c], hi[c]]) for c in range(N)]
                    elif kind == "interior":
                        w = [lo[c] + (hi[c] - lo[c]) * Fraction(rnd.randint(0, 4), 4) for c in range(N)]
                    else:
                        w = [hi[c] if c & (1 << p) else lo[c] for c in range(N)]
                    phi_w = frac(compute_shapley_value_for_player(p, StubGame(n, w)))
                    phi_max = frac(compute_shapley_value_for_player(p, MaxGainGame(g, p)))
                    res.evaluations += 1
                    if phi_max != maxphi[p]:
                        res.violation("per-player maximum ≠ Shapley value of the max-gain game",
                                      dict(replay, player=p, reported=rs(phi_max), expected=rs(maxphi[p])), key="C05:maxphi")
                    if phi_w > phi_max or (kind == "maxgain" and phi_w != phi_max):
                        res.violation("a completion inside the bounds beats the per-player maximum",
                                      dict(replay, player=p, completion=[rs(x) for x in w], phi=rs(phi_w), maximum=rs(phi_max)),
                                      key="C05:dominates")
                    script.add(f"shp shapley1 {n} {p} {rlist(w)}", rs(phi_w), {"case": replay, "completion": [rs(x) for x in w]})
            widths = {hi[c] - lo[c] for c in range(N)} - {0}
            if len(widths) >= 2 and asymmetric(n, lo, hi):
                res.nontrivial.add(("C05", n, tuple(lo), tuple(hi), tuple(known)))
            if t < 1 and n == 3:
                res.sample({"C05": replay, "exploitability": rs(e)})
    # float sub-stream (tolerance), kept apart
    for t in range(30 if tier == "quick" else 300):
        if not budget.ok():
            break
        n = rnd.randint(2, 6)
        N = 2 ** n
        lo = [Fraction(rnd.uniform(-10, 10)) for _ in range(N)]
        hi = [Fraction(float(lo[c]) + rnd.uniform(0, 5)) for c in range(N)]
        lo[0] = hi[0] = Fraction(0)
        hi[N - 1] = lo[N - 1]
        known = [c in (0, N - 1) for c in range(N)]
        g = real_table(n, known, lo, hi)
        r = call(compute_exploitability, g)
        res.count("float:C05")
        script.add(f"shp expl {n} {kbits(known)} {rlist(lo)} {rlist(hi)}", None)
        scale = float(sum(abs(x) for x in lo) + sum(abs(x) for x in hi)) + 1.0
        post.append((len(script) - 1, "float:C05 exploitability", r, 1e-9 * scale, {"n": n, "lo": [rs(x) for x in lo], "hi": [rs(x) for x in hi]}))


# ------------------------------------------------------------------------------------------------
# C06

def gen_game(rnd, n, kind):
    N = 2 ** n
    if kind == "random":
        v = [rand_val(rnd, n) for _ in range(N)]
    elif kind == "null":
        i = rnd.randrange(n)
        v = [None] * N
        for c in range(N):
            if not c & (1 << i):
                v[c] = rand_val(rnd, n)
        for c in range(N):
            if c & (1 << i):
                v[c] = v[c ^ (1 << i)]
    elif kind == "additive":
        w = [rand_val(rnd, n, 6) for _ in range(n)]
        v = [sum((w[j] for j in range(n) if c >> j & 1), Fraction(0)) for c in range(N)]
    elif kind == "unit":
        T = rnd.randrange(1, N)
        v = [Fraction(factorial(n)) if c == T else Fraction(0) for c in range(N)]
    else:  # unanimity
        T = rnd.randrange(1, N)
        v = [Fraction(factorial(n)) if c & T == T else Fraction(0) for c in range(N)]
    v[0] = Fraction(0)
    if kind == "null":
        v[1 << i] = Fraction(0)
    return v


def run_c06(tier, budget, rnd, res, script, post):
    from incomplete_cooperative.coalitions import Coalition
    from incomplete_cooperative.game import IncompleteCooperativeGame
    from incomplete_cooperative.shapley import compute_shapley_value, compute_shapley_value_for_player
    StubGame, _ = make_stubs()
    nmax = 6 if tier == "quick" else 8
    ord_max = 6 if tier == "quick" else 7
    per_n = 150 if tier == "quick" else 1200
    kinds = ["random", "random", "random", "null", "additive", "unit", "unanimity"]
    # a large player count comes FIRST and out of ascending order (12 before the small ones; thorough also 10 → 13 → 11):
    # per-process tables that grow with n (factorials, memoised structures) are then extended by several entries at once
    big = [12] if tier == "quick" else [12, 10, 13, 11]
    wide_game_case(res, rnd, "C06", 17)
    if tier != "quick":
        wide_game_case(res, rnd, "C06", 18)
    for n in big + list(range(1, nmax + 1)):
        N = 2 ** n
        count = (1 if tier == "quick" else 3) if n > nmax else (per_n if n <= 5 else (per_n // 4 if n == 6 else per_n // 20))
        for t in range(count):
            if not budget.ok():
                res.notes.append(f"C06: budget exhausted at n={n} case {t}")
                return
            kind = rnd.choice(kinds)
            if n > nmax:
                # beyond the exact range float64 cannot hold every intermediate (coefficients up to (n−1)!): small integer
                # values, the real code only, exact-Fraction oracle with relative tolerance 1e-9 (no model line)
                v = [Fraction(0)] + [Fraction(rnd.randint(-8, 8)) for _ in range(N - 1)]
                replay = {"n": n, "values": [rs(x) for x in v], "note": "large-n tolerance case"}
                r_all = call(lambda: list(compute_shapley_value(real_complete(n, v))))
                res.evaluations += 1
                res.count(f"C06:n={n}(tolerance)")
                if r_all[0] != "ok":
                    res.violation("Shapley value raised on a complete game", dict(replay, outcome=repr(r_all)), key="C06:defined")
                    continue
                ex = shapley_exact(n, v)
                got = [frac(x) for x in r_all[1]]
                scale = max(1, max(abs(x) for x in ex))
                if len(got) != n or any(abs(a - b) > Fraction(1, 10 ** 9) * scale for a, b in zip(got, ex)):
                    res.violation("Shapley value ≠ Σ_S (v(S∪i) − v(S)) / (n·C(n−1,|S|)) beyond float rounding (large player count)",
                                  dict(replay, reported=[float(x) for x in got], expected=[float(x) for x in ex]), key="C06:orderings")
                continue
            v = gen_game(rnd, n, kind)
            replay = {"n": n, "values": [rs(x) for x in v]}
            g = real_complete(n, v)
            stub = StubGame(n, v)
            r_all = call(lambda: list(compute_shapley_value(g)))
            r_all_stub = call(lambda: list(compute_shapley_value(stub)))
            r_one = [call(compute_shapley_value_for_player, i, g) for i in range(n)]
            script.add(f"shp shapley {n} {rlist(v)}", ans_list(r_all), {"case": replay, "entry": "compute_shapley_value(real class)"})
            script.add(f"shp shapley {n} {rlist(v)}", ans_list(r_all_stub), {"case": replay, "entry": "compute_shapley_value(stub)"})
            script.add(f"shp tshapley {n} {'1' * N} {rlist(v)}", ans_list(r_all), {"case": replay, "entry": "compute_shapley_value(real class) vs table model"})
            i = rnd.randrange(n)
            script.add(f"shp shapley1 {n} {i} {rlist(v)}", ans_num(r_one[i]), {"case": replay, "player": i})
            res.evaluations += 4
            res.count(f"C06:n={n}")
            res.count(f"C06:kind:{kind}")
            if r_all[0] != "ok" or r_all_stub[0] != "ok" or any(r[0] != "ok" for r in r_one):
                res.violation("Shapley value raised on a complete game", dict(replay, outcome=repr(r_all)), key="C06:defined")
                continue
            phi = [frac(x) for x in r_all[1]]
            if len(phi) != n:
                res.violation("wrong number of Shapley values", dict(replay, got=len(phi)), key="C06:length")
                continue
            if [frac(r[1]) for r in r_one] != phi or [frac(x) for x in r_all_stub[1]] != phi:
                res.violation("entry points / game classes return different numbers",
                              dict(replay, all=[rs(x) for x in phi], single=[rs(r[1]) for r in r_one],
                                   stub=[rs(x) for x in r_all_stub[1]]), key="C06:entry_points")
            if n <= ord_max and (n <= 5 or t % 4 == 0):
                ords = shapley_orderings(n, v)
                res.count("C06:orderings-oracle")
                if ords != phi:
                    res.violation("Shapley value ≠ average marginal contribution over all orderings",
                                  dict(replay, reported=[rs(x) for x in phi], expected=[rs(x) for x in ords]), key="C06:orderings")
            else:
                ex = shapley_exact(n, v)
                if ex != phi:
                    res.violation("Shapley value ≠ Σ_S (v(S∪i) − v(S)) / (n·C(n−1,|S|))",
                                  dict(replay, reported=[rs(x) for x in phi], expected=[rs(x) for x in ex]), key="C06:orderings")
            if sum(phi) != v[N - 1] - v[0]:
                res.violation("Shapley values do not sum to v(N)", dict(replay, reported=[rs(x) for x in phi]), key="C06:efficiency")
            for p in range(n):
                if all(v[c | (1 << p)] == v[c] for c in range(N)) and phi[p] != 0:
                    res.violation("null player with non-zero Shapley value", dict(replay, player=p, value=rs(phi[p])), key="C06:null")
                if all(v[c | (1 << p)] == v[c] for c in range(N)):
                    res.count("C06:null-player-present")
            # symmetry: relabel j ↦ perm[j]
            perm = list(range(n))
            rnd.shuffle(perm)
            vp = [None] * N
            for c in range(N):
                vp[perm_mask(c, perm)] = v[c]
            phip = [frac(x) for x in compute_shapley_value(real_complete(n, vp))]
            res.evaluations += 1
            if any(phip[perm[j]] != phi[j] for j in range(n)):
                res.violation("relabelling the players does not permute the Shapley values",
                              dict(replay, perm=perm, phi=[rs(x) for x in phi], phi_relabelled=[rs(x) for x in phip]), key="C06:symmetry")
            # linearity: φ(a·v + w) = a·φ(v) + φ(w)
            w = gen_game(rnd, n, rnd.choice(kinds))
            a = Fraction(rnd.choice([-3, -1, 2, 3, 5]), rnd.choice([1, 2]))
            comb_v = [a * v[c] + w[c] for c in range(N)]
            phiw = [frac(x) for x in compute_shapley_value(real_complete(n, w))]
            phic = [frac(x) for x in compute_shapley_value(real_complete(n, comb_v))]
            res.evaluations += 2
            if phic != [a * phi[j] + phiw[j] for j in range(n)]:
                res.violation("Shapley value is not linear in the game",
                              dict(replay, a=rs(a), w=[rs(x) for x in w]), key="C06:linear")
            if asymmetric(n, v):
                res.nontrivial.add(("C06", n, tuple(v)))
            if t < 1 and n == 3:
                res.sample({"C06": replay, "shapley": [rs(x) for x in phi]})
            # malformed: one coalition unknown → ValueError from get_values
            if rnd.random() < 0.1:
                c = rnd.randrange(N)
                g.unset_value(Coalition(c))
                known = [x != c for x in range(N)]
                v2 = list(v)
                v2[c] = Fraction(0)
                r_bad = call(lambda: list(compute_shapley_value(g)))
                script.add(f"shp tshapley {n} {kbits(known)} {rlist(v2)}", ans_list(r_bad), {"case": replay, "unknown": c})
                p = rnd.randrange(n + 1)        # p = n: not a player of the game
                r_bad1 = call(compute_shapley_value_for_player, p, g)
                script.add(f"shp tshapley1 {n} {p} {kbits(known)} {rlist(v2)}", ans_num(r_bad1), {"case": replay, "unknown": c, "player": p})
                res.count(f"C06:malformed:{r_bad[1] if r_bad[0] == 'err' else 'ok'}")
                if r_bad[0] == "ok":
                    res.violation("Shapley value returned numbers for a game with an unknown coalition",
                                  dict(replay, unknown=c), key="C06:incomplete")
    # ---- several LIVE all-players iterators at once (the entry point is a generator: zip / next in any order is legitimate),
    # repeated single-player calls on one object, and game classes other than the table (graph game, max-gain game, stub):
    # every call must still be the average over orderings of the game it was asked about
    from incomplete_cooperative.exploitability import MaxGainGame as _MGG
    from incomplete_cooperative.graph_game import GraphCooperativeGame as _GCG
    for t in range(25 if tier == "quick" else 250):
        if not budget.ok():
            break
        n = rnd.randint(2, 5)
        N = 2 ** n
        va, vb = gen_game(rnd, n, "random"), gen_game(rnd, n, rnd.choice(kinds))
        vc = [x + y for x, y in zip(va, vb)]
        ga, gb_, gc = real_complete(n, va), real_complete(n, vb), real_complete(n, vc)
        ea, eb, ec = shapley_exact(n, va), shapley_exact(n, vb), shapley_exact(n, vc)
        ctx = {"n": n, "values": [rs(x) for x in va], "other_values": [rs(x) for x in vb]}
        res.evaluations += 1
        res.count("C06:interleaved-iterators")
        try:
            ia, ib, ic = compute_shapley_value(ga), compute_shapley_value(gb_), compute_shapley_value(gc)
            got = []
            first = frac(next(ia))                      # one iterator started, then others run, then the first continues
            rows = [(first, frac(next(ib)), frac(next(ic)))] + [(frac(x), frac(y), frac(z)) for x, y, z in zip(ia, ib, ic)]
            got = [list(col_) for col_ in zip(*rows)]
            twice = [frac(compute_shapley_value_for_player(p_, ga)) for p_ in list(range(n)) + list(range(n))]
        except Exception as ex:      # noqa: BLE001
            got, twice = f"raised {type(ex).__name__}: {ex}", None
        if got != [ea, eb, ec]:
            res.violation("several live compute_shapley_value iterators (consumed interleaved) do not each return the Shapley values of "
                          "their own game", dict(ctx, got=repr(got)[:400], expected=[[rs(x) for x in e_] for e_ in (ea, eb, ec)]),
                          key="C06:interleaved")
        elif twice != ea + ea:
            res.violation("asking every player twice through the single-player entry on one game object changes the answers",
                          dict(ctx, got=repr(twice)[:300]), key="C06:repeated-single")
        # other game classes through both entry points, every player
        M_ = [[Fraction(rnd.randint(0, 6)) if j > i else Fraction(0) for j in range(n)] for i in range(n)]
        gg = _GCG(np.array([[float(x) for x in row] for row in M_], dtype=float))
        vg = [sum((M_[i][j] for i in range(n) for j in range(i + 1, n) if c >> i & 1 and c >> j & 1), Fraction(0)) for c in range(N)]
        lo_ = [Fraction(rnd.randint(-6, 6)) for _ in range(N)]
        hi_ = [lo_[c] + rnd.randint(0, 4) for c in range(N)]
        lo_[0] = hi_[0] = Fraction(0)
        q = rnd.randrange(n)
        mg_ = _MGG(real_table(n, [True] + [False] * (N - 1), lo_, hi_), q)
        vm = [hi_[c] if c >> q & 1 else lo_[c] for c in range(N)]
        for label, game_, vals_ in (("graph game", gg, vg), (f"max-gain game of player {q}", mg_, vm)):
            want_ = shapley_exact(n, vals_)
            try:
                s1 = [frac(compute_shapley_value_for_player(p_, game_)) for p_ in range(n)]
                s2 = [frac(x) for x in compute_shapley_value(game_)]
            except Exception as ex:      # noqa: BLE001
                s1, s2 = f"raised {type(ex).__name__}: {ex}", None
            close_ = lambda a_, b_: isinstance(a_, list) and len(a_) == len(b_) and all(abs(x - y) <= Fraction(1, 10 ** 9) * max(1, abs(y)) for x, y in zip(a_, b_))   # noqa: E731
            res.count(f"C06:class:{label.split(' of')[0]}")
            if not close_(s1, want_) or not close_(s2, want_):
                res.violation(f"Shapley value of a {label}: the single-player entry (asked for every player) / the all-players entry is "
                              f"not the average over orderings", {"n": n, "class": label, "values": [rs(x) for x in vals_],
                                                                  "single": repr(s1)[:300], "all": repr(s2)[:300],
                                                                  "expected": [rs(x) for x in want_]}, key="C06:other-class")
    for t in range(30 if tier == "quick" else 300):
        if not budget.ok():
            break
        n = rnd.randint(2, 6)
        N = 2 ** n
        v = [Fraction(rnd.uniform(-10, 10)) for _ in range(N)]
        v[0] = Fraction(0)
        g = real_complete(n, v)
        i = rnd.randrange(n)
        r = call(compute_shapley_value_for_player, i, g)
        res.count("float:C06")
        script.add(f"shp shapley1 {n} {i} {rlist(v)}", None)
        scale = float(sum(abs(x) for x in v)) + 1.0
        post.append((len(script) - 1, "float:C06 shapley", r, 1e-9 * scale, {"n": n, "player": i, "values": [rs(x) for x in v]}))

    shapley_special_probes(res, rnd, "C06")
    # LAST, and from the largest player count down: tables that grow with n are then extended by many entries in one call
    every_n_shapley(res, rnd, range(16, 6, -1) if tier == "quick" else range(18, 6, -1))


# ------------------------------------------------------------------------------------------------
# C07 (gap functions)


def run_c07(tier, budget, rnd, res, script, post):
    from incomplete_cooperative.exploitability import compute_exploitability
    from incomplete_cooperative.norms import l1_norm, l2_norm, linf_norm
    _, StubIncomplete = make_stubs()
    nmax = 6 if tier == "quick" else 8
    chains = 80 if tier == "quick" else 600
    for n in range(1, nmax + 1):
        N = 2 ** n
        for t in range(chains if n <= 5 else (chains // 3 if n == 6 else chains // 12)):
            if not budget.ok():
                res.notes.append(f"C07: budget exhausted at n={n} chain {t}")
                return
            known, lo, hi = gen_table(rnd, n, "wf")
            target = [lo[c] + (hi[c] - lo[c]) * Fraction(rnd.randint(0, 4), 4) for c in range(N)]   # the "true" game
            chain = [(list(known), list(lo), list(hi))]
            steps = rnd.randint(2, 5)
            for s in range(steps):
                k2, l2, h2 = list(chain[-1][0]), list(chain[-1][1]), list(chain[-1][2])
                last = s == steps - 1
                for c in range(N):
                    if last or rnd.random() < 0.25:          # revealed
                        k2[c] = True
                        l2[c] = h2[c] = target[c]
                    elif rnd.random() < 0.5:                 # tightened towards the target, in steps of a quarter
                        l2[c] = l2[c] + (target[c] - l2[c]) * Fraction(rnd.randint(0, 2), 2)
                        h2[c] = h2[c] - (h2[c] - target[c]) * Fraction(rnd.randint(0, 2), 2)
                chain.append((k2, l2, h2))
            prev = None
            shrinks = 0
            for idx, (k_, l_, h_) in enumerate(chain):
                g = real_table(n, k_, l_, h_)
                obj = g if rnd.random() < 0.7 else StubIncomplete(n, k_, l_, h_)
                replay = {"n": n, "chain": [{"known": kbits(a), "lo": [rs(x) for x in b], "hi": [rs(x) for x in c_]} for a, b, c_ in chain[: idx + 1]]}
                vals = {"l1": call(l1_norm, obj), "l2": call(l2_norm, obj), "linf": call(linf_norm, obj),
                        "expl": call(compute_exploitability, obj)}
                res.evaluations += 4
                res.count(f"C07:n={n}")
                if any(r[0] != "ok" for r in vals.values()):
                    res.violation("a gap function raised", dict(replay, outcome={k: repr(r) for k, r in vals.items()}), key="C07:defined")
                    break
                w = [h_[c] - l_[c] for c in range(N)]
                script.add(f"shp norms {n} {rlist(l_)} {rlist(h_)}", None, {"case": replay["chain"][-1], "n": n})
                post.append((len(script) - 1, "norms", vals, None, {"n": n, "table": replay["chain"][-1]}))
                script.add(f"shp expl {n} {kbits(k_)} {rlist(l_)} {rlist(h_)}", rs(vals["expl"][1]), {"case": replay["chain"][-1], "n": n})
                # oracle: each norm is the named norm of the width vector
                l2sq = sum(x * x for x in w)
                root = math.sqrt(float(l2sq))
                if frac(vals["l1"][1]) != sum(abs(x) for x in w):
                    res.violation("l1_norm ≠ Σ|width|", dict(replay, reported=rs(vals["l1"][1])), key="C07:l1-def")
                if frac(vals["linf"][1]) != max(abs(x) for x in w):
                    res.violation("linf_norm ≠ max|width|", dict(replay, reported=rs(vals["linf"][1])), key="C07:linf-def")
                if abs(float(vals["l2"][1]) - root) > math.ulp(root):
                    res.violation("l2_norm ≠ sqrt(Σ width²)", dict(replay, reported=float(vals["l2"][1]), expected=root), key="C07:l2-def")
                cur = {k: float(r[1]) if k == "l2" else frac(r[1]) for k, r in vals.items()}
                for k, x in cur.items():
                    if x < 0:
                        res.violation(f"gap {k} negative", dict(replay, gap=k, value=str(x)), key=f"C07:nonneg:{k}")
                    if prev is not None and x > prev[k]:
                        res.violation(f"gap {k} increased when the intervals shrank",
                                      dict(replay, gap=k, before=str(prev[k]), after=str(x)), key=f"C07:mono:{k}")
                    if idx == len(chain) - 1 and x != 0:
                        res.violation(f"gap {k} not zero on a fully revealed table", dict(replay, gap=k, value=str(x)), key=f"C07:zero:{k}")
                if prev is not None and cur["l1"] < prev["l1"]:
                    shrinks += 1
                prev = cur
            if shrinks >= 2 and len({hi[c] - lo[c] for c in range(N)}) >= 2:
                res.nontrivial.add(("C07", n, tuple(lo), tuple(hi)))
            if t < 1 and n == 2:
                res.sample({"C07 chain": [{"lo": [rs(x) for x in b], "hi": [rs(x) for x in c_]} for _, b, c_ in chain]})


# ------------------------------------------------------------------------------------------------

def run(tier: str, budget: Budget, rnd, arg) -> StreamResult:
    res = StreamResult(f"shapley:{arg}")
    script = Script()
    post: list = []
    {"C05": run_c05, "C06": run_c06, "C07": run_c07}[arg](tier, budget, rnd, res, script, post)
    for b in script.diff():
        if b["line"].startswith("shp") and b["impl"] is not None or b["kind"] == "protocol":
            res.disagree(f"{arg}: model ≠ implementation", {k: b[k] for k in ("line", "impl", "model", "ctx")})
    outs = script.outs
    for (i, what, r, tol, ctx) in post:
        model = outs[i]
        if what == "norms":
            try:
                m1, m2sq, minf = model.split(" ")
                m1, m2sq, minf = Fraction(m1), Fraction(m2sq), Fraction(minf)
            except Exception:  # noqa: BLE001
                res.disagree("norms: unparsable / error answer of the model", {"line": script.lines[i], "model": model, "ctx": ctx})
                continue
            root = math.sqrt(float(m2sq))
            ok = (frac(r["l1"][1]) == m1 and frac(r["linf"][1]) == minf and abs(float(r["l2"][1]) - root) <= math.ulp(root))
            if not ok:
                res.disagree("norms: model ≠ implementation",
                             {"line": script.lines[i], "model": model, "ctx": ctx,
                              "impl": f"{rs(r['l1'][1])} sqrt→{float(r['l2'][1])!r} {rs(r['linf'][1])}"})
        else:  # float sub-stream
            if r[0] != "ok" or model.startswith("err"):
                if ans_num(r) != model:
                    res.disagree(what + ": outcome kind", {"line": script.lines[i], "impl": ans_num(r), "model": model, "ctx": ctx})
                continue
            if abs(float(r[1]) - float(Fraction(model))) > tol:
                res.disagree(what + ": beyond tolerance", {"impl": float(r[1]), "model": float(Fraction(model)), "tolerance": tol, "ctx": ctx})
    return res


def replay(prop, payload):
    """re-run the property's oracle on the real code for the input stored in a replay file"""
    from incomplete_cooperative.exploitability import MaxGainGame, compute_exploitability
    from incomplete_cooperative.norms import l1_norm, l2_norm, linf_norm
    from incomplete_cooperative.shapley import compute_shapley_value, compute_shapley_value_for_player
    StubGame, _ = make_stubs()
    x = payload["input"]
    key = payload.get("key") or ""
    if any(t in key for t in ("tiny-magnitude", "re-entrancy", "threads", "every-n", "large-n")) or not ("values" in x or "known" in x):
        # the probes with closed-form oracles are re-run as a whole (their inputs are drawn inside the probe)
        res_ = StreamResult("replay")
        import random as _random
        for seed_ in range(3):
            shapley_special_probes(res_, _random.Random(seed_), prop)
        every_n_shapley(res_, _random.Random(0), range(16, 6, -1))
        if res_.violations:
            return True, "reproduced on the real code (probe re-run): " + res_.violations[0]["what"][:300]
        return False, "the probes (tiny magnitude, re-entrant game, two threads, every player count) pass on the real code"
    n = int(x["n"])
    N = 2 ** n
    F = Fraction
    bad = []
    if "values" in x:                                            # C06
        v = [F(a) for a in x["values"]]
        r = call(lambda: list(compute_shapley_value(real_complete(n, v))))
        if r[0] != "ok":
            return True, f"compute_shapley_value raised {r[1]} on a complete game"
        phi = [frac(a) for a in r[1]]
        want = shapley_orderings(n, v) if n <= 8 else shapley_exact(n, v)
        if phi != want:
            bad.append(f"Shapley value {[rs(a) for a in phi]} ≠ average over orderings {[rs(a) for a in want]}")
        if sum(phi) != v[N - 1] - v[0]:
            bad.append("values do not sum to v(N)")
        one = [frac(compute_shapley_value_for_player(i, real_complete(n, v))) for i in range(n)]
        if one != phi or [frac(a) for a in compute_shapley_value(StubGame(n, v))] != phi:
            bad.append("entry points / game classes differ")
        for p in range(n):
            if all(v[c | (1 << p)] == v[c] for c in range(N)) and phi[p] != 0:
                bad.append(f"null player {p} gets {rs(phi[p])}")
        if "perm" in x:
            perm = [int(a) for a in x["perm"]]
            vp = [None] * N
            for c in range(N):
                vp[perm_mask(c, perm)] = v[c]
            phip = [frac(a) for a in compute_shapley_value(real_complete(n, vp))]
            if any(phip[perm[j]] != phi[j] for j in range(n)):
                bad.append("relabelling does not permute the values")
        if "w" in x and "a" in x:
            w = [F(a) for a in x["w"]]
            a = F(x["a"])
            phiw = [frac(b) for b in compute_shapley_value(real_complete(n, w))]
            phic = [frac(b) for b in compute_shapley_value(real_complete(n, [a * v[c] + w[c] for c in range(N)]))]
            if phic != [a * phi[j] + phiw[j] for j in range(n)]:
                bad.append("not linear")
        if "unknown" in x:
            from incomplete_cooperative.coalitions import Coalition
            g = real_complete(n, v)
            g.unset_value(Coalition(int(x["unknown"])))
            if call(lambda: list(compute_shapley_value(g)))[0] == "ok":
                bad.append("numbers returned for an incomplete game")
    elif "chain" in x:                                           # C07
        prev = None
        for idx, row in enumerate(x["chain"]):
            known = [ch == "1" for ch in row["known"]]
            lo = [F(a) for a in row["lo"]]
            hi = [F(a) for a in row["hi"]]
            g = real_table(n, known, lo, hi)
            w = [hi[c] - lo[c] for c in range(N)]
            cur = {"l1": frac(l1_norm(g)), "linf": frac(linf_norm(g)), "l2": float(l2_norm(g)),
                   "expl": frac(compute_exploitability(g))}
            root = math.sqrt(float(sum(a * a for a in w)))
            if cur["l1"] != sum(abs(a) for a in w) or cur["linf"] != max(abs(a) for a in w) or abs(cur["l2"] - root) > math.ulp(root):
                bad.append(f"table {idx}: a norm is not the named norm of the widths")
            for k, a in cur.items():
                if a < 0:
                    bad.append(f"table {idx}: gap {k} negative")
                if prev is not None and a > prev[k]:
                    bad.append(f"table {idx}: gap {k} increased from {prev[k]} to {a}")
                if all(b == 0 for b in w) and a != 0:
                    bad.append(f"table {idx}: gap {k} = {a} on a degenerate table")
            prev = cur
    else:                                                        # C05
        known = [ch == "1" for ch in x["known"]]
        lo = [F(a) for a in x["lo"]]
        hi = [F(a) for a in x["hi"]]
        g = real_table(n, known, lo, hi)
        r = call(compute_exploitability, g)
        if (r[0] == "ok") != known[N - 1]:
            bad.append(f"defined ⇎ grand coalition known (outcome {ans_num(r)})")
        elif r[0] == "ok":
            e = frac(r[1])
            if e != expl_closed(n, lo, hi):
                bad.append(f"exploitability {rs(e)} ≠ Σ (hi−lo)/C(n,|S|) − hi(∅) = {rs(expl_closed(n, lo, hi))}")
            if all(lo[c] <= hi[c] for c in range(N)) and hi[0] == 0:
                if e < 0:
                    bad.append("negative")
                if (e == 0) != all(lo[c] == hi[c] for c in range(N)):
                    bad.append("zero ⇎ degenerate")
            if "completion" in x:
                p = int(x["player"])
                w = [F(a) for a in x["completion"]]
                if frac(compute_shapley_value_for_player(p, StubGame(n, w))) > frac(compute_shapley_value_for_player(p, MaxGainGame(g, p))):
                    bad.append("a completion beats the per-player maximum")
    return (bool(bad), "; ".join(bad) if bad else "the stored input satisfies the property on this tree")


def search(tier, budget, rnd, arg, disagreements):
    """deeper look on the real code: re-run the stream's oracles with a fresh seed and more cases"""
    res = StreamResult(f"shapley:{arg}:search")
    script, post = Script(), []
    {"C05": run_c05, "C06": run_c06, "C07": run_c07}[arg]("thorough", budget, rnd, res, script, post)
    return [dict(what=v["what"], replay=v["replay"], key=v["key"]) for v in res.violations]
