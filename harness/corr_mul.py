"""Correspondence stream `mul` (extra check X-mul): incomplete_cooperative/multiplicative vs ICG.Model.Mul.

Sub-streams (all run for `arg == "X-mul"`; `arg` may also name one of them: factor, kr, xos, maxsub, approx, maxxos):

  factor   the four functions of multiplicative_factor.py on REAL `IncompleteCooperativeGame` objects.
           Cases = (n = 0..5 quick / 0..7 thorough; a complete game v, an approximated game a, an incomplete game
           (known flags, lower, upper)), dyadic values (≤ 6 fractional bits).  ~60 % in-domain (0 < a ≤ lo ≤ v ≤ hi),
           the rest malformed: an assertion failing at one row (den ≤ 0, num < den), an unknown coalition in a game
           that is read with `get_values()` (→ err:value), n = 0 (→ err:value from `np.max` of an empty array),
           games with different numbers of players (numpy broadcasting: a 1-player game stretches, every other
           mismatch is err:value), NaN entries (→ err:assert; protocol line `mul factor` on the raw vectors).
           Row 0 (the empty coalition, `[1:]` drops it) holds 0 or junk.
           EXACTNESS: every quotient `num/den` the code forms is one correctly rounded float64 division and `np.max`
           commutes with monotone rounding, so the real result must EQUAL `float(model result)` (`float(Fraction)` is
           correctly rounded) — compared bit for bit, no tolerance.
           Oracle on the real code (no model): the result is ≥ the correctly rounded ratio of every row and equal to
           one of them (upper bound on all ratios, attained), it is ≥ 1, and for lo ≤ v ≤ hi:
           lower_upper_bound ≥ to_lower_bound(v), upper_to_approximation(a) ≥ to_approximation(v, a).
  kr       `_get_k_r_values(n)` for n = 0..64 and a sample up to 10^6: the real k_values must be `2^k·sqrt(n)` (float
           identity with `math.sqrt`) for k = 0.. followed by n; the exponents and the r_values are compared exactly.
  xos      `_approx_xos_subroutine(game, coalition)`: additive vector (differences of dyadics: exact) and queried ids,
           compared exactly.  Oracle: the vector sums to v(coalition) − v(∅), is zero outside the coalition, the
           queried ids are exactly the prefixes of the coalition in player order.  Malformed: unknown coalitions on the
           path (err:value), coalition ≥ 2^n (err:index).
  maxsub   `_max_subroutine(game, coalition, size, eps)`: size an integer −1..n+1 or a k-value `2^k·sqrt(n)`; eps from
           {1/2, 1/4, 3/8, 1/8, 1/16, 0.05, 0.3, 0.9, 1, 1.5}.  The DISCRETE outputs (constructed coalition, the list of
           queried ids in order) are compared exactly.  `schedule-exact` counts the cases in which every
           `reduced_limit` of the geometric schedule and the loop bound are exactly representable: then float64 = Rat on
           every comparison and one model line is compared as a string.  Otherwise (`schedule-rounded`: decimal eps, long
           schedules) a marginal contribution can sit exactly on a limit that float64 rounds the other way (10·0.7 vs 7);
           FLOAT-TIE GUARD (`add_guarded`): the model is asked at eps·(1−δ), eps, eps·(1+δ), δ = 2^-30; every comparison
           of the loop is monotone in eps along a fixed trajectory, so three equal answers (`guarded:stable`) pin the
           answer for every schedule in between, the rounded one included, and the real answer must equal it; otherwise
           (`guarded:float-near-tie`) the real answer must be one of the three.  Nothing is compared with a tolerance.
           Oracle: result ⊆ coalition; `len(result) + 1 ≤ max(ceil(size), 1)` (the code's test is
           `len + 1 >= size` BEFORE adding, so at most ceil(size) − 1 players); every queried id is a subset of the
           coalition of the form C + player with C ⊆ result; the call returns (watchdog).  Malformed: a singleton
           value < 1 (err:assert), unknown values (err:value), empty coalition (no query at all).
  approx   `_compute_approximation` on candidate arrays: those the real candidate computation produced and synthetic
           ones (random coalitions in random cells — this is the only way to reach `new_value > max_value` often;
           the line is marked `nocover` in /repo).  Values are compared as `float(model) == real` (one correctly rounded
           division per candidate, `4·alpha·beta` exact for the parameters used).  Oracle: value(∅) = 0, value(S) ≥ the
           largest singleton in S, monotone under inclusion, and value(S) ≥ |cand ∩ S|·r_index/(4αβ) for every candidate.
  maxxos   `_compute_candidate_coalitions_and_query_values` and `compute_max_xos_approximation` end to end: candidate
           array (exact), `np.unique` of the queried ids (exact), values (as above).  alpha ∈ {1/2, 1, 2, 4, 3.7844223824},
           beta ∈ {1/2, 1, 2}, eps ∈ {1/2, 1/4, 0.05}: the domain alpha > 0, beta ≥ 1/2, eps > 0, v(∅) = 0 on which the
           model proves that the candidate loop returns.  A case is skipped for the comparison (`skipped:float-tie`)
           when a singleton value sits exactly on a heavy/light threshold that float64 does not reproduce.
           Game families: random subadditive monotone integer games (closure), weighted coverage, budget additive
           (both submodular), staircase ⌈|S∩L|/m⌉ + additive (subadditive, not submodular), and two pinned games (see
           FINDING below); eps = 0.05 goes through the float-tie guard above.  Coverage / budget games scaled by
           1/min singleton like the repo's own test have non-dyadic float values on which float64 subtraction rounds:
           they are run for the ORACLE only (`oracle-only(scaled)`), not compared with the model.
           Oracle: approx ≤ game on the SUBMODULAR families (what the repo's test checks; proved for the model:
           `ICG.Mul.maxXos_lower_bound_submodular`), approx(∅) = 0, ≥ largest singleton, monotone, the call returns;
           `mul_factor_to_approximation(game, approx)` then succeeds with a result ≥ 1.

FINDING (reported as violation key `max_xos:lower-bound:subadditive`): `compute_max_xos_approximation` documents "the
game is expected to be subadditive and monotone increasing"; the pinned game `PIN10` (n = 10, monotone, subadditive,
singletons ≥ 1, values multiples of 1/1024) gets, with the DEFAULT parameters, approx(341) = 1.3212… > v(341) =
1.2265625, so the result is not a lower bound and `mul_factor_to_approximation(game, approx)` raises AssertionError.
`PIN6` is the same phenomenon at n = 6 with alpha = beta = 1, eps = 1/8.  Both instances are decided in Lean on the
model (`ICG.Mul.lower_bound_fails_subadditive`, `ICG.Mul.lower_bound_fails_default`); for monotone SUBMODULAR games the
lower bound is proved.  The marginal-contribution vector is an XOS clause only for submodular games.

FINDING 2 (violation key `max_xos:no-return:beta-below-half`): for beta < 1/2 the `while` loop of a cell can append an
empty candidate and get the same coalition back from `_max_subroutine` — it never returns (n = 3, v = (0,4,1,4,2,4,2,5),
alpha = 4, beta = 1/8, eps = 1/4; watchdog 1.5 s; the model answers err:other = "the loop state repeats").  For
alpha > 0, beta ≥ 1/2, eps > 0, v(∅) = 0, singletons ≥ 1 termination is proved (`ICG.Mul.maxXos_returns`).

"Non-trivial" (`res.nontrivial`): factor — success, n ≥ 2, ≥ 3 distinct ratios and a unique maximiser; xos / maxsub —
game not invariant under any transposition of players, coalition with ≥ 2 players (maxsub: ≥ 2 passes of the while
loop and a result with ≥ 1 player that is not the whole coalition); approx / maxxos — asymmetric game, at least one
non-empty candidate, and at least one coalition whose value exceeds its largest singleton (approx) / at least two
distinct non-empty candidate coalitions (maxxos).
"""
from __future__ import annotations

import math
import signal
from fractions import Fraction

import numpy as np

from common import Budget, Script, StreamResult, err_kind, frac, nlist, rlist, rs

F = Fraction
ALPHA0 = 3.7844223824


# ------------------------------------------------------------------------------------------------
# small helpers

def popc(x: int) -> int:
    return bin(x).count("1")


def players(c: int) -> list[int]:
    return [i for i in range(c.bit_length()) if c >> i & 1]


def swap_bits(c: int, a: int, b: int) -> int:
    if (c >> a & 1) != (c >> b & 1):
        c ^= (1 << a) | (1 << b)
    return c


def asymmetric(n: int, v) -> bool:
    N = 2 ** n
    for a in range(n):
        for b in range(a + 1, n):
            if all(v[swap_bits(c, a, b)] == v[c] for c in range(N)):
                return False
    return True


def kbits(known) -> str:
    return "".join("1" if k else "0" for k in known)


def table_tok(n: int, known, lo, hi) -> str:
    return f"{n} {kbits(known)} {rlist(lo)} {rlist(hi)}"


def game_tok(n: int, v) -> str:
    return table_tok(n, [True] * 2 ** n, v, v)


def show_array(arr) -> str:
    return ";".join("|".join(nlist(cell) for cell in row) for row in arr)


class Watchdog(Exception):
    pass


def guarded(fn, *args, seconds: float = 30.0):
    """('ok', value) | ('err:kind', repr) | ('hang', None) — the real call under a wall-clock watchdog"""
    def onalarm(signum, frame):
        raise Watchdog()
    old = signal.signal(signal.SIGALRM, onalarm)
    signal.setitimer(signal.ITIMER_REAL, seconds)
    try:
        with np.errstate(all="ignore"):
            return ("ok", fn(*args))
    except Watchdog:
        return ("hang", None)
    except Exception as e:  # noqa: BLE001
        return (err_kind(e), repr(e)[:200])
    finally:
        signal.setitimer(signal.ITIMER_REAL, 0)
        signal.signal(signal.SIGALRM, old)


def fnum(x) -> str:
    """a float result, to be compared with the correctly rounded model value"""
    return "~" + float(x).hex()


def compare(want: str, got: str) -> bool:
    if want.startswith("~"):
        try:
            return float(Fraction(got)) == float.fromhex(want[1:])
        except (ValueError, ZeroDivisionError, OverflowError):
            return False
    if want.startswith("V~"):                        # a vector of floats
        try:
            g = [float(Fraction(x)) for x in ([] if got in ("-", "") else got.split(","))]
        except (ValueError, ZeroDivisionError, OverflowError):
            return False
        w = [float.fromhex(x) for x in want[2:].split(",")] if len(want) > 2 else []
        return g == w
    if want.startswith("QV~"):                       # `<ids> <vector of floats>`
        ids, _, vec = want[3:].partition(" ")
        gi, _, gv = got.partition(" ")
        return gi == ids and compare("V~" + vec, gv)
    return want == got


DELTA = Fraction(1, 2 ** 30)


def add_guarded(script, post, head: str, tail: str, eps: Fraction, impl: str, ctx) -> None:
    """Float-tie guard for a threshold schedule that float64 does not reproduce exactly.  The model is asked at eps·(1−δ),
    eps and eps·(1+δ) (δ = 2^-30, far above the accumulated rounding of the schedule, far below anything structural).
    Every comparison the loop makes is monotone in eps along a fixed trajectory, so if the three answers coincide the
    answer is the same for every schedule in between — including the rounded float64 one — and the real answer must equal
    it; if they differ, a marginal contribution sits within 2^-30 of a limit and the real answer must be one of the three
    (counted as `float-near-tie`)."""
    idx = []
    for e in (eps * (1 - DELTA), eps, eps * (1 + DELTA)):
        script.add(head + rs(e) + tail, None, ctx)
        idx.append(len(script) - 1)
    post.append((idx, impl, ctx))


def fvec(xs) -> str:
    return ",".join(float(x).hex() for x in xs)


# ------------------------------------------------------------------------------------------------
# real objects

def real_table(n, known, lo, hi):
    """a real IncompleteCooperativeGame holding exactly (known, lo, hi); entries may be None (NaN)"""
    from incomplete_cooperative.coalitions import Coalition
    from incomplete_cooperative.game import IncompleteCooperativeGame
    g = IncompleteCooperativeGame(n)
    fl = lambda x: float("nan") if x is None else float(x)  # noqa: E731
    for c in range(2 ** n):
        if known[c]:
            g.set_value(fl(lo[c]), Coalition(c))
            if hi[c] != lo[c]:
                g.set_upper_bound(fl(hi[c]), Coalition(c))
        else:
            g.unset_value(Coalition(c))
            g.set_lower_bound(fl(lo[c]), Coalition(c))
            g.set_upper_bound(fl(hi[c]), Coalition(c))
    return g


def real_game(n, v):
    from incomplete_cooperative.game import IncompleteCooperativeGame
    g = IncompleteCooperativeGame(n)
    g.set_values(np.array([float(x) for x in v], dtype=float))
    return g


# ------------------------------------------------------------------------------------------------
# game families (exact values)

def dy(rnd, lo: int, hi: int, bits=(0, 0, 1, 2, 4, 6)) -> Fraction:
    k = rnd.choice(bits)
    return Fraction(rnd.randint(lo * 2 ** k, hi * 2 ** k), 2 ** k)


def fam_sam(rnd, n: int):
    """random subadditive monotone integer game (closure construction), singletons ≥ 1"""
    N = 2 ** n
    v = [F(0)] * N
    hi = rnd.choice([1, 2, 4, 8, 12])
    mode = rnd.choice(["uniform", "ext", "ext"])
    plo = rnd.choice([0.3, 0.5, 0.7])
    for c in sorted(range(1, N), key=popc):
        if popc(c) == 1:
            v[c] = F(rnd.randint(1, hi))
            continue
        lo_ = max(v[c & ~(1 << i)] for i in range(n) if c >> i & 1)
        up = None
        s = (c - 1) & c
        while s:
            t = c ^ s
            if s < t:
                x = v[s] + v[t]
                up = x if up is None else min(up, x)
            s = (s - 1) & c
        v[c] = F(rnd.randint(int(lo_), int(up))) if mode == "uniform" else (lo_ if rnd.random() < plo else up)
    return v


def fam_cov(rnd, n: int):
    """weighted coverage (monotone submodular): player i covers a random non-empty set of items"""
    m = rnd.randint(n, 2 * n + 1)
    w = [F(rnd.randint(4, 24), 4) for _ in range(m)]                 # every item ≥ 1, so every singleton ≥ 1
    cov = []
    for _ in range(n):
        cov.append(rnd.randrange(1, 2 ** m))
    v = []
    for c in range(2 ** n):
        u = 0
        for i in range(n):
            if c >> i & 1:
                u |= cov[i]
        v.append(sum((w[j] for j in range(m) if u >> j & 1), F(0)))
    return v


def fam_bud(rnd, n: int):
    """budget additive min(B, Σ w_i) (monotone submodular), w_i ≥ 1"""
    w = [F(rnd.randint(4, 24), 4) for _ in range(n)]
    B = F(rnd.randint(int(max(w)) + 1, max(int(max(w)) + 2, int(sum(w)))))
    return [min(B, sum((w[i] for i in range(n) if c >> i & 1), F(0))) for c in range(2 ** n)]


def fam_stair(rnd, n: int):
    """c·ceil(|S∩L|/m) + f·|S∩L| + additive on the others: subadditive, monotone, not submodular"""
    L = rnd.randrange(1, 2 ** n)
    m = rnd.choice([2, 3])
    cc = F(rnd.randint(4, 12), 4)
    f = F(rnd.randint(0, 3), 8)
    w = [F(rnd.randint(4, 40), 4) for _ in range(n)]
    v = []
    for c in range(2 ** n):
        l = popc(c & L)
        v.append(cc * (-(-l // m)) + f * l + sum((w[i] for i in range(n) if c >> i & 1 and not L >> i & 1), F(0)))
    return v


def fam_rnd(rnd, n: int):
    """random monotone game (no further structure), singletons ≥ 1"""
    N = 2 ** n
    v = [F(0)] * N
    for c in sorted(range(1, N), key=popc):
        lo_ = max([v[c & ~(1 << i)] for i in range(n) if c >> i & 1] + [F(1)])
        v[c] = lo_ + F(rnd.randint(0, 12), rnd.choice([1, 2, 4]))
    return v


FAMILIES = {"sam": fam_sam, "cov": fam_cov, "bud": fam_bud, "stair": fam_stair, "rnd": fam_rnd}
SUBMODULAR = {"cov", "bud", "cov-scaled", "bud-scaled"}


def scaled(v):
    """the repo test's scaling: divide by the smallest singleton — the float64 values, as exact rationals"""
    n = (len(v) - 1).bit_length()
    mn = min(float(v[1 << i]) for i in range(n))
    return [F(float(x) / mn) for x in v]


PIN6 = [F(x) for x in (
    "0 1 11/2 11/2 1 1 181/32 13/2 11/2 11/2 11 11 11/2 11/2 11 11 83/64 83/64 435/64 435/64 83/64 83/64 435/64 435/64 "
    "213/32 213/32 12 389/32 435/64 435/64 12 787/64").split()]
PIN6 = PIN6 + [F(1)] + PIN6[1:]                      # player 5 adds nothing to a non-empty coalition


# the 9 active players (ids 0..8) of the n = 10 game of the FINDING, in units of 1/1024; found by a linear programme
# (monotone + subadditive + singletons ≥ 1 + "five players whose marginals along the id order are ≥ 16/(4·ALPHA0) although
# their coalition is worth < 20/(4·ALPHA0)"), rounded to 1/1024 and re-checked exactly.  Player 9 adds nothing.
PIN10_ACTIVE = """
0 1093 5632 5673 1093 1134 5755 6766 5632 6725 11264 11305 5673 6766 11305 11346 1093 1134 6725 6766 1134 1174 6766
6806 6725 6766 11346 11387 6766 6806 12398 12438 5632 6725 11264 11305 6725 6725 11387 11387 11264 11305 16896 16937
11305 11346 16937 16978 6725 6766 11346 12398 6766 6806 12398 12398 12316 12316 16937 17019 12357 12438 17019 17019
1093 1134 5755 5755 1134 1174 5796 6806 5714 6725 11346 11387 6766 6806 11346 11428 1134 1174 6766 6806 1174 1215 6806
6847 6766 6806 11428 12438 6806 6847 12438 12479 6725 6766 11387 11387 6766 6806 11387 12438 11305 11346 16937 16978
12398 12438 16978 17060 6766 6806 12398 12438 6806 6847 12438 12479 12398 12438 17060 18070 12438 12479 18070 18111
5632 5714 11264 11305 5714 5714 11305 11346 11264 11305 16896 16937 11305 11346 16937 16978 6725 6725 11346 11387 6766
6806 11387 11387 11346 11387 16937 17019 12398 12398 17019 17019 11264 11305 16896 16937 11305 11346 16937 16978 16896
16937 22528 22569 16937 16978 22569 22610 12357 12357 16978 16978 12398 12438 17019 17019 16978 16978 22569 22610
16978 18030 22610 22651 5714 5714 11346 11346 6766 6806 11346 11469 11346 11346 16978 16978 11387 11387 16978 17019
6766 6766 11346 11387 6806 6847 12438 12479 12398 12398 16978 17019 12398 12398 17019 17060 11346 11346 16978 16978
12398 12438 16978 17060 16937 16978 22569 22610 17019 17019 22610 22651 12357 12398 16978 17019 12438 12479 17019
17060 16978 18030 22610 22651 18030 18030 22651 22692 1093 1134 5755 5755 1134 1174 5755 6806 6725 6766 11305 11346
6766 6806 11387 11428 1134 1174 6766 6766 1174 1215 6806 6847 6725 6806 11346 11387 6806 6806 12438 12438 6725 6766
11387 11387 6766 6806 11387 11387 11305 11346 16937 16978 12398 12438 17019 17019 6766 6806 12398 12398 6806 6806
12438 12438 12316 12438 16978 17019 12438 12438 18070 18070 1134 1174 5755 6806 1174 1215 6806 6806 6766 6766 11346
11387 6806 6806 11428 11428 1174 1215 6806 6847 1215 1256 6847 6888 6806 6847 12438 12479 6847 6888 12479 12520 6766
6766 11387 11387 6766 6847 12398 12438 12398 12398 16978 17019 12398 12438 17060 17060 6806 6847 12438 12479 6847 6888
12479 12520 12438 12479 18070 18070 12479 12520 18070 18152 5673 5714 11305 11346 5714 6725 11346 11387 11305 11346
16937 16978 11346 11387 16978 17019 6725 6806 11346 11387 6806 6847 12438 12479 11346 12398 16978 17019 12398 12398
17019 17060 11305 11346 16937 16978 11346 12357 16978 17019 16937 16978 22569 22610 16978 17019 22610 22651 12357
12438 16978 17019 12398 12438 17060 18070 16978 17989 22610 22651 18030 18030 22651 22692 6766 6766 11346 11428 6766
6847 11469 11469 11387 11387 16978 17019 11387 12438 17019 17060 6806 6847 12438 12479 6847 6888 12479 12520 12398
12398 17060 17060 12479 12520 17060 18152 11346 11387 16978 17019 12398 12438 17019 17060 16978 17019 22610 22651
17019 17060 22651 22692 12438 12479 17019 18111 12479 12520 17060 18152 17019 18030 22651 22692 18111 18152 22692
23784
"""


def pin10():
    v9 = [F(int(x), 1024) for x in PIN10_ACTIVE.split()]
    return v9 + [F(1)] + v9[1:]


def is_monotone(n, v) -> bool:
    return all(v[c | (1 << i)] >= v[c] for c in range(2 ** n) for i in range(n))


def is_subadditive(n, v) -> bool:
    N = 2 ** n
    for c in range(1, N):
        s = (c - 1) & c
        while s:
            if v[c] > v[s] + v[c ^ s]:
                return False
            s = (s - 1) & c
    return True


# ------------------------------------------------------------------------------------------------
# factor

def ratios_rounded(num, den):
    return [float(F(a) / F(b)) for a, b in zip(num, den)]


def run_factor(tier, budget, rnd, res, script, rnd_no=0):
    from incomplete_cooperative.multiplicative.multiplicative_factor import (mul_factor_lower_upper_bound, mul_factor_to_approximation,
                                                                             mul_factor_to_lower_bound, mul_factor_upper_to_approximation)
    nmax = 5 if tier == "quick" else 7
    reps = 90 if tier == "quick" else 700
    for n in range(0, nmax + 1):
        N = 2 ** n
        for t in range(reps if n <= 5 else reps // 4):
            if not budget.ok():
                return
            # in-domain base: 0 < a ≤ lo ≤ v ≤ hi on rows 1.., row 0 is zero (or junk)
            lo = [dy(rnd, 1, 40) for _ in range(N)]
            v = [lo[c] + rnd.choice([F(0), dy(rnd, 0, 20)]) for c in range(N)]
            hi = [v[c] + rnd.choice([F(0), dy(rnd, 0, 20)]) for c in range(N)]
            a = [lo[c] * F(rnd.randint(1, 8), 8) if rnd.random() < 0.7 else lo[c] for c in range(N)]
            for vec in (lo, v, hi, a):
                vec[0] = F(0) if rnd.random() < 0.8 else dy(rnd, -5, 5)
            known = [rnd.random() < 0.5 for _ in range(N)]
            known[0] = True
            gk, ak = [True] * N, [True] * N
            kind = rnd.choice(["ok"] * 6 + ["den<=0", "num<den", "unknown", "degenerate", "nan", "shape"]) if n else "n0"
            n2, N2 = n, N
            if kind == "den<=0" and N > 1:
                c = rnd.randrange(1, N)
                z = rnd.choice([F(0), -dy(rnd, 0, 3)])
                lo[c] = z
                a[c] = z
            elif kind == "num<den" and N > 1:
                c = rnd.randrange(1, N)
                w = rnd.choice(["hi<lo", "v<lo", "v<a", "hi<a"])
                if w == "hi<lo":
                    hi[c] = lo[c] - dy(rnd, 1, 3, (0, 2))
                elif w == "v<lo":
                    v[c] = lo[c] - F(1, 64)
                elif w == "v<a":
                    a[c] = v[c] + F(1, 64)
                else:
                    a[c] = hi[c] + F(1, 64)
            elif kind == "unknown" and N > 1:
                (gk if rnd.random() < 0.5 else ak)[rnd.randrange(0, N)] = False
            elif kind == "degenerate":
                v = list(lo)
                hi = list(lo)
                a = list(lo)
            res.count(f"factor:kind:{kind}")
            res.count(f"factor:n={n}")
            if kind == "shape":
                # the second argument of the two-table functions gets another number of players
                n2 = rnd.choice([x for x in (0, 1, 2, 3) if x != n])
                N2 = 2 ** n2
            if kind == "nan":
                # NaN entries: through mul_factor_lower_upper_bound on a real table, protocol line on the raw vectors
                lo2, hi2 = list(lo), list(hi)
                for _ in range(rnd.randint(1, 2)):
                    (lo2 if rnd.random() < 0.5 else hi2)[rnd.randrange(1, N)] = None
                g = real_table(n, known, lo2, hi2)
                r = guarded(mul_factor_lower_upper_bound, g)
                res.evaluations += 1
                sN = lambda xs: ",".join("nan" if x is None else rs(x) for x in xs) or "-"  # noqa: E731
                script.add(f"mul factor {sN(hi2[1:])} {sN(lo2[1:])}", fnum(r[1]) if r[0] == "ok" else r[0],
                           {"kind": "factor-nan", "n": n, "lo": sN(lo2), "hi": sN(hi2)})
                res.count(f"factor:outcome:{r[0]}")
                if r[0] != "err:assert":
                    res.violation("a NaN bound did not fail the assertions of mul_factor_lower_upper_bound",
                                  {"kind": "factor-nan", "n": n, "lo": sN(lo2), "hi": sN(hi2), "outcome": repr(r)}, key="factor:nan")
                continue
            inc = real_table(n, known, lo, hi)
            game = real_table(n, gk, v, v)
            if kind == "shape":
                a2 = [dy(rnd, 1, 10) for _ in range(N2)]
                lo_b, hi_b = [dy(rnd, 1, 10) for _ in range(N2)], [dy(rnd, 10, 20) for _ in range(N2)]
                apx = real_game(n2, a2)
                inc2 = real_table(n2, [True] + [False] * (N2 - 1), lo_b, hi_b)
                calls = [("toapprox", mul_factor_to_approximation, (game, apx), f"{table_tok(n, gk, v, v)} {game_tok(n2, a2)}", None),
                         ("upperapprox", mul_factor_upper_to_approximation, (game, inc2),
                          f"{table_tok(n, gk, v, v)} {table_tok(n2, [True] + [False] * (N2 - 1), lo_b, hi_b)}", None),
                         ("tolower", mul_factor_to_lower_bound, (game, inc2),
                          f"{table_tok(n, gk, v, v)} {table_tok(n2, [True] + [False] * (N2 - 1), lo_b, hi_b)}", None)]
            else:
                apx = real_table(n, ak, a, a)
                calls = [("toapprox", mul_factor_to_approximation, (game, apx), f"{table_tok(n, gk, v, v)} {table_tok(n, ak, a, a)}", (v, a)),
                         ("upperapprox", mul_factor_upper_to_approximation, (apx, inc), f"{table_tok(n, ak, a, a)} {table_tok(n, known, lo, hi)}", (hi, a)),
                         ("tolower", mul_factor_to_lower_bound, (game, inc), f"{table_tok(n, gk, v, v)} {table_tok(n, known, lo, hi)}", (v, lo)),
                         ("lowerupper", mul_factor_lower_upper_bound, (inc,), table_tok(n, known, lo, hi), (hi, lo))]
            got = {}
            replay = {"kind": "factor", "n": n, "known": kbits(known), "lo": [rs(x) for x in lo], "hi": [rs(x) for x in hi],
                      "v": [rs(x) for x in v], "a": [rs(x) for x in a], "game_known": kbits(gk), "approx_known": kbits(ak)}
            for (op, fn, args, toks, vecs) in calls:
                r = guarded(fn, *args)
                res.evaluations += 1
                res.count(f"factor:outcome:{r[0]}")
                got[op] = r
                script.add(f"mul {op} {toks}", fnum(r[1]) if r[0] == "ok" else r[0], {"kind": "factor", "op": op, "case": replay, "n2": n2})
                if r[0] == "hang":
                    res.violation(f"{op} did not return", dict(replay, op=op), key=f"factor:{op}:hang")
                if r[0] == "ok" and vecs is not None and not (all(d > 0 for d in vecs[1][1:]) and all(a >= d for a, d in zip(vecs[0][1:], vecs[1][1:]))):
                    res.violation(f"{op}: returned a value although an assertion (num ≥ den > 0) does not hold", dict(replay, op=op, result=repr(r[1])),
                                  key=f"factor:{op}:guard")
                elif r[0] == "ok" and vecs is not None:
                    num, den = vecs[0][1:], vecs[1][1:]
                    rr = ratios_rounded(num, den)
                    x = float(r[1])
                    if not all(x >= q for q in rr):
                        res.violation(f"{op}: the result is not an upper bound on every ratio", dict(replay, op=op, result=x), key=f"factor:{op}:upper-bound")
                    if x not in rr:
                        res.violation(f"{op}: the result is not attained by any ratio", dict(replay, op=op, result=x), key=f"factor:{op}:attained")
                    if not x >= 1:
                        res.violation(f"{op}: the result is below 1", dict(replay, op=op, result=x), key=f"factor:{op}:ge-one")
                    if n >= 2 and len(set(rr)) >= 3 and rr.count(max(rr)) == 1:
                        res.nontrivial.add(("factor", op, n, tuple(num), tuple(den)))
            if kind in ("ok", "degenerate") and n >= 1:
                if any(got[op][0] != "ok" for op in got):
                    res.violation("an in-domain factor call raised", dict(replay, outcome={k: repr(x) for k, x in got.items()}), key="factor:in-domain-raises")
                else:
                    if not float(got["lowerupper"][1]) >= float(got["tolower"][1]):
                        res.violation("lower_upper_bound < to_lower_bound(v) although lo ≤ v ≤ hi", replay, key="factor:lu>=tl")
                    if not float(got["upperapprox"][1]) >= float(got["toapprox"][1]):
                        res.violation("upper_to_approximation < to_approximation although v ≤ hi", replay, key="factor:ua>=ta")
            if t == 0 and n == 2:
                res.sample({"factor": replay, "results": {k: repr(x) for k, x in got.items()}})


# ------------------------------------------------------------------------------------------------
# k / r values

def run_kr(tier, budget, rnd, res, script, rnd_no=0):
    from incomplete_cooperative.multiplicative.max_xos_approximation import _get_k_r_values
    ns = list(range(0, 65 if tier == "quick" else 400)) + [rnd.randrange(65, 10 ** 6) for _ in range(20 if tier == "quick" else 200)]
    ns += [4 ** k + d for k in range(1, 10) for d in (-1, 0, 1)]
    for n in ns:
        kv, rv = _get_k_r_values(n)
        res.evaluations += 1
        res.count("kr")
        s = math.sqrt(n)
        form = len(kv) >= 1 and kv[-1] == n and all(kv[i] == 2 ** i * s for i in range(len(kv) - 1))
        impl = f"{nlist(range(len(kv) - 1))} {nlist(rv)}" if form else f"not-of-the-form {kv}"
        script.add(f"mul kr {n}", impl, {"kind": "kr", "n": n})
        # oracle: exactly the exponents with 4^k < n; r: the powers of two below n², then n²
        ek = [k for k in range(64) if 4 ** k < n]
        er = [2 ** r for r in range(200) if 2 ** r < n * n] + [n * n]
        if not form or len(kv) - 1 != len(ek) or list(rv) != er:
            res.violation("_get_k_r_values: not [2^k·sqrt(n) | 4^k < n] + [n] / [2^r < n²] + [n²]", {"kind": "kr", "n": n}, key="kr:form")
        if n >= 5:
            res.nontrivial.add(("kr", n))


# ------------------------------------------------------------------------------------------------
# subroutines

def gen_game(rnd, n, fams=("sam", "cov", "bud", "stair", "rnd")):
    fam = rnd.choice(fams)
    if fam == "sam" and n > 6:
        fam = "cov"
    return fam, FAMILIES[fam](rnd, n)


def run_xos(tier, budget, rnd, res, script, rnd_no=0):
    from incomplete_cooperative.coalitions import Coalition
    from incomplete_cooperative.multiplicative.max_xos_approximation import _approx_xos_subroutine
    nmax = 6 if tier == "quick" else 8
    reps = 40 if tier == "quick" else 300
    for n in range(1, nmax + 1):
        N = 2 ** n
        for t in range(reps):
            if not budget.ok():
                return
            fam, v = gen_game(rnd, n)
            if rnd.random() < 0.3:
                v = [x + F(3, 4) for x in v]                     # v(∅) ≠ 0 as well
            known = [True] * N
            kind = rnd.choice(["ok"] * 5 + ["unknown", "index"])
            if kind == "unknown":
                for _ in range(rnd.randint(1, max(1, N // 3))):
                    known[rnd.randrange(N)] = False
            g = real_table(n, known, v, v)
            for c in ([rnd.randrange(N) for _ in range(3)] + [N - 1]) if kind != "index" else [N + rnd.randrange(N)]:
                r = guarded(_approx_xos_subroutine, g, Coalition(c))
                res.evaluations += 1
                res.count(f"xos:outcome:{r[0]}")
                replay = {"kind": "xos", "n": n, "known": kbits(known), "values": [rs(x) for x in v], "coalition": c}
                if r[0] == "ok":
                    av, q = r[1]
                    impl = f"{rlist(av)} {nlist(q)}"
                    # oracle
                    ps = players(c)
                    pref = [sum(1 << p for p in ps[: j + 1]) for j in range(len(ps))]
                    if sum((frac(x) for x in av), F(0)) != v[c] - v[0]:
                        res.violation("_approx_xos_subroutine: the additive vector does not sum to v(coalition) − v(∅)", replay, key="xos:telescope")
                    if [int(x) for x in q] != pref:
                        res.violation("_approx_xos_subroutine: the queried ids are not the prefixes of the coalition", replay, key="xos:prefixes")
                    if any(frac(av[i]) != 0 for i in range(n) if not c >> i & 1):
                        res.violation("_approx_xos_subroutine: non-zero entry outside the coalition", replay, key="xos:support")
                    if popc(c) >= 2 and asymmetric(n, v):
                        res.nontrivial.add(("xos", n, c, tuple(v)))
                else:
                    impl = r[0]
                script.add(f"mul xos {table_tok(n, known, v, v)} {c}", impl, {"kind": "xos", "case": replay, "family": fam})
            if t == 0 and n == 3:
                res.sample({"xos": replay, "result": impl})


def schedule_exact(init: Fraction, eps: Fraction, n: int) -> tuple[bool, int]:
    """is every reduced_limit (and the loop bound) exactly representable in float64?  also: number of passes"""
    thr = eps * init / n
    ok = Fraction(float(eps)) == eps and Fraction(float(1 - eps)) == 1 - eps
    ok = ok and float(eps) * float(init) / n == thr if Fraction(float(thr)) == thr else False
    lim, j = init, 0
    while lim >= thr and j < 5000:
        if Fraction(float(lim)) != lim:
            ok = False
        lim *= 1 - eps
        j += 1
    return ok and Fraction(float(lim)) == lim, j


EPS_POOL = [F(1, 2), F(1, 4), F(3, 8), F(1, 8), F(1, 16), F(0.05), F(0.3), F(0.9), F(1), F(3, 2)]


def maxsub_oracle(res, replay, n, v, c, size, out):
    con, q = out
    con = int(con.id)
    q = [int(x) for x in q]
    cap = max(math.ceil(size), 1)
    if con & ~c:
        res.violation("_max_subroutine: result not inside the coalition", replay, key="maxsub:subset")
    if popc(con) + 1 > cap:
        res.violation("_max_subroutine: more than ceil(size) − 1 players", replay, key="maxsub:size")
    for x in q:
        extra = x & ~con
        if x & ~c or x == 0 or popc(extra) > 1 or popc(x) > popc(con) + 1:
            res.violation("_max_subroutine: a queried id is not (part of the result) + one player of the coalition", replay, key="maxsub:queried-form")
            break


def run_maxsub(tier, budget, rnd, res, script, post, rnd_no=0):
    from incomplete_cooperative.coalitions import Coalition
    from incomplete_cooperative.multiplicative.max_xos_approximation import _max_subroutine
    nmax = 6 if tier == "quick" else 8
    reps = 45 if tier == "quick" else 400
    for n in range(1, nmax + 1):
        N = 2 ** n
        for t in range(reps):
            if not budget.ok():
                return
            fam, v = gen_game(rnd, n)
            known = [True] * N
            kind = rnd.choice(["ok"] * 7 + ["assert", "unknown", "empty"])
            if kind == "assert":
                p = rnd.randrange(n)
                v = list(v)
                v[1 << p] = rnd.choice([F(0), F(1, 2), F(63, 64), F(-1)])
            if kind == "unknown":
                for _ in range(rnd.randint(1, max(1, N // 4))):
                    known[rnd.randrange(1, N)] = False
            g = real_table(n, known, v, v)
            c = 0 if kind == "empty" else rnd.choice([N - 1, rnd.randrange(1, N), rnd.randrange(1, N)])
            eps = rnd.choice(EPS_POOL)
            if rnd.random() < 0.6:
                size = rnd.randint(-1, n + 1)
                sq = F(size * size) if size > 0 else F(0)
            else:
                k = rnd.randint(0, 2)
                size = 2 ** k * math.sqrt(n)
                sq = F(4 ** k * n)
            r = guarded(_max_subroutine, g, Coalition(c), size, float(eps))
            res.evaluations += 1
            res.count(f"maxsub:outcome:{r[0]}")
            res.count(f"maxsub:n={n}")
            replay = {"kind": "maxsub", "n": n, "known": kbits(known), "values": [rs(x) for x in v], "coalition": c,
                      "size": size if isinstance(size, int) else {"k": k}, "eps": rs(eps)}
            ex = True
            if r[0] == "hang":
                res.violation("_max_subroutine did not return", replay, key="maxsub:hang")
                continue
            if r[0] == "ok":
                con, q = r[1]
                impl = f"{int(con.id)} {nlist(int(x) for x in q)}"
                maxsub_oracle(res, replay, n, v, c, size, r[1])
                if c:
                    init = max(v[1 << p] for p in players(c))
                    ex, passes = schedule_exact(init, eps, n)
                    res.count("maxsub:schedule-exact" if ex else "maxsub:schedule-rounded")
                    if passes >= 2 and 0 < popc(int(con.id)) and int(con.id) != c and asymmetric(n, v):
                        res.nontrivial.add(("maxsub", n, c, str(size), eps, tuple(v)))
            else:
                impl = r[0]
                if kind == "ok":
                    res.violation("_max_subroutine raised on an in-domain input", dict(replay, outcome=repr(r)), key="maxsub:in-domain-raises")
            line = f"mul maxsub {table_tok(n, known, v, v)} {c} {rs(sq)} "
            ctx = {"kind": "maxsub", "case": replay, "family": fam}
            if r[0] == "ok" and c and not ex:
                add_guarded(script, post, line, "", eps, impl, ctx)
            else:
                script.add(line + rs(eps), impl, ctx)
            if t == 0 and n == 4:
                res.sample({"maxsub": replay, "result": impl})


# ------------------------------------------------------------------------------------------------
# candidates, approximation, composition

def cands_to_lists(cands):
    return [[[int(c.id) for c in cands[k, r]] for r in range(cands.shape[1])] for k in range(cands.shape[0])]


def heavy_tie(n, v, kv, rv) -> bool:
    """does float64 decide a heavy/light test differently from the reals?  (only possible at an exact tie)"""
    s = math.sqrt(n)
    for ki, k in enumerate(kv):
        for r in rv:
            tf = k * r / s
            for p in range(n):
                x = v[1 << p]
                fl = float(x) >= tf
                if ki < len(kv) - 1:
                    ex = x >= 2 ** ki * r
                else:
                    ex = x >= 0 and x * x >= r * r * n
                if fl != ex:
                    return True
    return False


def approx_oracle(res, replay, n, v, vals, cands, alpha, beta, key):
    N = 2 ** n
    vals = [float(x) for x in vals]
    ms = [max([float(v[1 << p]) for p in players(c)], default=0.0) for c in range(N)]
    if vals[0] != 0:
        res.violation("approximation of the empty coalition is not 0", replay, key=f"{key}:empty")
    if any(vals[c] < ms[c] for c in range(1, N)):
        res.violation("approximation below the largest singleton of the coalition", replay, key=f"{key}:ge-singleton")
    if any(vals[c | (1 << i)] < vals[c] for c in range(N) for i in range(n)):
        res.violation("approximation not monotone under inclusion", replay, key=f"{key}:monotone")
    if cands is not None:
        u = 4 * float(alpha) * float(beta)
        for row in cands:
            for r, cell in enumerate(row):
                for cand in cell:
                    for c in range(1, N):
                        if vals[c] < popc(cand & c) * r / u:
                            res.violation("approximation below |cand ∩ S|·r/(4αβ) for a candidate", replay, key=f"{key}:ge-candidate")
                            return


def run_maxxos(tier, budget, rnd, res, script, post, rnd_no=0, only=None):
    from incomplete_cooperative.multiplicative import max_xos_approximation as M
    from incomplete_cooperative.multiplicative.multiplicative_factor import mul_factor_to_approximation
    nmax = 6 if tier == "quick" else 8
    reps = 14 if tier == "quick" else 120
    cases = []
    if rnd_no == 0:
        cases.append(("pin10", 10, pin10(), F(ALPHA0), F(1), F(0.05)))
        cases.append(("pin6", 6, list(PIN6), F(1), F(1), F(1, 8)))
    for n in range(1, nmax + 1):
        for t in range(reps if n <= 6 else reps // 3):
            fam, v = gen_game(rnd, n, ("sam", "cov", "bud", "stair", "cov", "bud"))
            if fam in ("cov", "bud") and rnd.random() < 0.35:
                fam, v = fam + "-scaled", scaled(v)
            alpha = rnd.choice([F(1, 2), F(1), F(2), F(4), F(ALPHA0), F(ALPHA0)])
            beta = rnd.choice([F(1, 2), F(1), F(1), F(2)])
            eps = rnd.choice([F(1, 2), F(1, 4), F(0.05)])
            if rnd.random() < 0.07:
                v = list(v)
                v[1 << rnd.randrange(n)] = F(1, 2)               # a singleton below 1 → err:assert
                fam += "-assert"
            cases.append((fam, n, v, alpha, beta, eps))
    if rnd_no == 0:
        cases.append(("n0", 0, [F(0)], F(1), F(1), F(1, 4)))
        # FINDING 2: beta < 1/2 — the candidate loop repeats its state for ever (the model answers err:other)
        v3 = [F(x) for x in (0, 4, 1, 4, 2, 4, 2, 5)]
        g3 = real_game(3, v3)
        rh = guarded(M.compute_max_xos_approximation, g3, 4.0, 0.125, 0.25, seconds=1.5)
        res.evaluations += 1
        res.count(f"maxxos:beta<1/2:outcome:{rh[0]}")
        rp = {"kind": "maxxos", "family": "beta<1/2", "n": 3, "values": [rs(x) for x in v3], "alpha": "4", "beta": "1/8", "eps": "1/4"}
        script.add(f"mul maxxos {game_tok(3, v3)} 4 1/8 1/4", "err:other" if rh[0] == "hang" else "returned:" + rh[0], {"kind": "maxxos", "case": rp})
        if rh[0] == "hang":
            res.violation("compute_max_xos_approximation does not return for beta < 1/2 (the while loop of a cell appends the same empty "
                          "candidate for ever): n = 3, v = (0,4,1,4,2,4,2,5), alpha = 4, beta = 1/8, eps = 1/4", rp, key="max_xos:no-return:beta-below-half")
    for (fam, n, v, alpha, beta, eps) in cases:
        if not budget.ok():
            return
        N = 2 ** n
        g = real_game(n, v)
        a_, b_, e_ = float(alpha), float(beta), float(eps)
        replay = {"kind": "maxxos", "family": fam, "n": n, "values": [rs(x) for x in v], "alpha": rs(alpha), "beta": rs(beta), "eps": rs(eps)}
        res.count(f"maxxos:family:{fam}")
        res.count(f"maxxos:n={n}")
        kv, rv = M._get_k_r_values(n)
        tie = n > 0 and heavy_tie(n, v, kv, rv)
        if tie:
            res.count("maxxos:skipped:float-tie")
        T = game_tok(n, v)
        # candidate computation
        rc = guarded(M._compute_candidate_coalitions_and_query_values, g, kv, rv, a_, b_, e_, seconds=120)
        res.evaluations += 1
        res.count(f"cands:outcome:{rc[0]}")
        if rc[0] == "hang":
            res.violation("_compute_candidate_coalitions_and_query_values did not return", replay, key="max_xos:cands:hang")
            continue
        cl = None
        if rc[0] == "ok":
            cl = cands_to_lists(rc[1][0])
            qs = [int(x) for x in rc[1][1]]
            implc = f"{show_array(cl)} {nlist(qs)}"
            if qs != sorted(set(qs)) or any(x <= 0 or x >= N for x in qs):
                res.violation("queried ids are not a sorted duplicate-free list of non-empty coalitions", replay, key="max_xos:queried")
        else:
            implc = rc[0]
        oracle_only = fam.endswith("-scaled") or fam.endswith("-scaled-assert")
        if oracle_only:
            res.count("maxxos:oracle-only(scaled)")
        guarded_eps = eps.denominator > 64                     # 0.05: the schedule is not exact in float64
        if not tie and not oracle_only:
            if guarded_eps and rc[0] == "ok":
                add_guarded(script, post, f"mul cands {T} {rs(alpha)} {rs(beta)} ", "", eps, implc, {"kind": "cands", "case": replay})
            else:
                script.add(f"mul cands {T} {rs(alpha)} {rs(beta)} {rs(eps)}", implc, {"kind": "cands", "case": replay})
        # approximation on the real candidates and on synthetic ones
        arrays = []
        if rc[0] == "ok":
            arrays.append(("real", rc[1][0], cl))
        if n >= 1 and fam not in ("pin10",):
            K, R = len(kv), len(rv)
            syn = np.empty((K, R), dtype=object)
            from incomplete_cooperative.coalitions import Coalition
            for k in range(K):
                for r in range(R):
                    syn[k, r] = [Coalition(rnd.randrange(N)) for _ in range(rnd.choice([0, 0, 1, 2]))]
            arrays.append(("synthetic", syn, cands_to_lists(syn)))
        for (what, arr, lists) in arrays:
            ua = rnd.choice([F(1, 8), F(1, 4), alpha]) if what == "synthetic" else alpha
            ra = guarded(M._compute_approximation, g, arr, kv, rv, float(ua), b_, seconds=120)
            res.evaluations += 1
            res.count(f"approx:{what}:outcome:{ra[0]}")
            rp = dict(replay, kind="approx", alpha=rs(ua), cands=show_array(lists))
            if ra[0] == "ok":
                impla = "V~" + fvec(ra[1])
                approx_oracle(res, rp, n, v, ra[1], lists, ua, beta, "approx")
                ms = [max([float(v[1 << p]) for p in players(c)], default=0.0) for c in range(N)]
                if any(float(ra[1][c]) > ms[c] for c in range(1, N)):
                    res.count(f"approx:{what}:beats-singleton")
                    if asymmetric(n, v):
                        res.nontrivial.add(("approx", what, n, tuple(v), show_array(lists), ua, beta))
            else:
                impla = ra[0]
            if not oracle_only:
                script.add(f"mul approx {T} {rs(ua)} {rs(beta)} {show_array(lists)}", impla, {"kind": "approx", "case": rp})
        if only == "approx":
            continue
        # the composition
        rm = guarded(M.compute_max_xos_approximation, g, a_, b_, e_, seconds=120)
        res.evaluations += 1
        res.count(f"maxxos:outcome:{rm[0]}")
        if rm[0] == "hang":
            res.violation("compute_max_xos_approximation did not return", replay, key="max_xos:hang")
            continue
        if rm[0] == "ok":
            qs, ag = rm[1]
            vals = ag.get_values()
            implm = f"QV~{nlist(int(x) for x in qs)} {fvec(vals)}"
            approx_oracle(res, replay, n, v, vals, cl, alpha, beta, "max_xos")
            below = all(float(vals[c]) <= float(v[c]) for c in range(N))
            sub_mono = None
            if fam in SUBMODULAR and not below:
                res.violation("compute_max_xos_approximation is not a lower bound of a monotone submodular game (what the repo's test checks)",
                              replay, key="max_xos:lower-bound:submodular")
            if fam in ("sam", "stair", "pin6", "pin10") and not below:
                sub_mono = is_monotone(n, v) and is_subadditive(n, v) and all(v[1 << p] >= 1 for p in range(n))
                res.count("maxxos:not-a-lower-bound:subadditive")
                if sub_mono:
                    c = next(c for c in range(N) if float(vals[c]) > float(v[c]))
                    res.violation("compute_max_xos_approximation is not a lower bound of a monotone subadditive game with singletons ≥ 1 "
                                  f"(docstring hypotheses): approx({c}) = {float(vals[c])!r} > v({c}) = {float(v[c])!r}",
                                  dict(replay, coalition=c), key="max_xos:lower-bound:subadditive" + (":default-parameters" if alpha == F(ALPHA0) and beta == 1 else ""))
            rf = guarded(mul_factor_to_approximation, g, ag)
            res.evaluations += 1
            if below and (rf[0] != "ok" or not float(rf[1]) >= 1):
                res.violation("mul_factor_to_approximation(game, max-xos approximation) failed although approx ≤ game", dict(replay, outcome=repr(rf)), key="max_xos:factor")
            if not below and rf[0] != "err:assert":
                res.violation("mul_factor_to_approximation accepted an approximation above the game", dict(replay, outcome=repr(rf)), key="max_xos:factor")
            if cl is not None and asymmetric(n, v) and len({c for row in cl for cell in row for c in cell if c}) >= 2:
                res.nontrivial.add(("maxxos", n, tuple(v), alpha, beta, eps))
        else:
            implm = rm[0]
            if "assert" not in fam and fam != "n0":
                res.violation("compute_max_xos_approximation raised on an in-domain input", dict(replay, outcome=repr(rm)), key="max_xos:in-domain-raises")
        if not tie and not oracle_only:
            if guarded_eps and rm[0] == "ok":
                add_guarded(script, post, f"mul maxxos {T} {rs(alpha)} {rs(beta)} ", "", eps, implm, {"kind": "maxxos", "case": replay})
            else:
                script.add(f"mul maxxos {T} {rs(alpha)} {rs(beta)} {rs(eps)}", implm, {"kind": "maxxos", "case": replay})
        if fam == "sam" and n == 3 and len(res.samples) < 6:
            res.sample({"maxxos": replay, "candidates": show_array(cl) if cl else None})


# ------------------------------------------------------------------------------------------------

PARTS = {"factor": 0.2, "kr": 0.02, "xos": 0.1, "maxsub": 0.23, "maxxos": 0.45}
RUNNERS = {"factor": run_factor, "kr": run_kr, "xos": run_xos, "maxsub": run_maxsub, "maxxos": run_maxxos}


def run(tier: str, budget: Budget, rnd, arg) -> StreamResult:
    res = StreamResult(f"mul:{arg}")
    script = Script()
    post: list = []
    total = max(budget.left(), 1.0) * (0.8 if tier == "quick" else 0.6)     # keep a reserve for the driver
    parts = list(PARTS) if arg in ("X-mul", None, "") else [arg if arg != "approx" else "maxxos"]
    cap = 12 if tier == "quick" else 40
    for part in parts:
        sub = Budget(min(budget.left(), total * PARTS.get(part, 1.0) / sum(PARTS[p] for p in parts)))
        rounds = 0
        while sub.ok() and rounds < cap:
            if part == "maxxos":
                run_maxxos(tier, sub, rnd, res, script, post, rounds, only="approx" if arg == "approx" else None)
            elif part == "maxsub":
                run_maxsub(tier, sub, rnd, res, script, post, rounds)
            else:
                RUNNERS[part](tier, sub, rnd, res, script, rounds)
            rounds += 1
            if part == "kr":
                break
        res.count(f"rounds:{part}", rounds)
    for b in script.diff(compare):
        res.disagree(f"{(b['ctx'] or {}).get('kind', '?')}: model ≠ implementation",
                     {"line": b["line"][:2000], "impl": (b["impl"] or "")[:600], "model": b["model"][:600], "ctx": b["ctx"], "kind": b["kind"]})
    for (idx, impl, ctx) in post:
        outs = [script.outs[i] for i in idx]
        kind = ctx.get("kind", "?")
        if len(set(outs)) == 1:
            res.count(f"{kind}:guarded:stable")
        else:
            res.count(f"{kind}:guarded:float-near-tie")
        if not any(compare(impl, o) for o in outs):
            res.disagree(f"{kind}: model ≠ implementation (at eps·(1−δ), eps, eps·(1+δ))",
                         {"line": script.lines[idx[1]][:2000], "impl": impl[:600], "model": [o[:300] for o in outs], "ctx": ctx, "kind": "mismatch"})
    return res


def replay(prop, payload):
    """re-run the oracle on the real code for the input stored in a replay file"""
    x = payload["input"]
    res = StreamResult("replay")
    kind = x.get("kind")
    n = int(x["n"])
    if kind in ("maxxos", "approx"):
        from incomplete_cooperative.multiplicative import max_xos_approximation as M
        v = [F(a) for a in x["values"]]
        g = real_game(n, v)
        alpha, beta, eps = F(x["alpha"]), F(x["beta"]), F(x["eps"])
        r = guarded(M.compute_max_xos_approximation, g, float(alpha), float(beta), float(eps), seconds=5 if beta < F(1, 2) else 300)
        if r[0] == "hang":
            return True, "compute_max_xos_approximation did not return within the watchdog"
        if r[0] != "ok":
            return True, f"compute_max_xos_approximation: {r!r}"
        vals = r[1][1].get_values()
        bad = [c for c in range(2 ** n) if float(vals[c]) > float(v[c])]
        approx_oracle(res, x, n, v, vals, None, alpha, beta, "max_xos")
        if bad:
            c = bad[0]
            return True, (f"approx({c}) = {float(vals[c])!r} > v({c}) = {float(v[c])!r}; monotone={is_monotone(n, v)} "
                          f"subadditive={is_subadditive(n, v)} singletons≥1={all(v[1 << p] >= 1 for p in range(n))}")
        if res.violations:
            return True, res.violations[0]["what"]
        return False, "approximation is a lower bound, monotone, ≥ largest singleton"
    if kind == "factor":
        from incomplete_cooperative.multiplicative.multiplicative_factor import mul_factor_lower_upper_bound, mul_factor_to_lower_bound
        known = [ch == "1" for ch in x["known"]]
        lo, hi, v = [F(a) for a in x["lo"]], [F(a) for a in x["hi"]], [F(a) for a in x["v"]]
        inc = real_table(n, known, lo, hi)
        game = real_table(n, [ch == "1" for ch in x["game_known"]], v, v)
        r1, r2 = guarded(mul_factor_lower_upper_bound, inc), guarded(mul_factor_to_lower_bound, game, inc)
        msgs = []
        for (r, num, den, name) in ((r1, hi, lo, "lower_upper"), (r2, v, lo, "to_lower")):
            if r[0] == "ok" and not (all(d > 0 for d in den[1:]) and all(a >= d for a, d in zip(num[1:], den[1:]))):
                msgs.append(f"{name}: returned {r[1]!r} although an assertion (num ≥ den > 0) does not hold")
            elif r[0] == "ok":
                rr = ratios_rounded(num[1:], den[1:])
                if not all(float(r[1]) >= q for q in rr) or float(r[1]) not in rr or not float(r[1]) >= 1:
                    msgs.append(f"{name}: {float(r[1])!r} is not the attained maximum ratio ≥ 1")
        if r1[0] == "ok" and r2[0] == "ok" and all(lo[c] <= v[c] <= hi[c] for c in range(1, 2 ** n)) and not float(r1[1]) >= float(r2[1]):
            msgs.append("lower_upper < to_lower")
        return (bool(msgs), "; ".join(msgs) or f"factor results {r1!r} {r2!r} pass the oracle")
    if kind == "maxsub":
        from incomplete_cooperative.coalitions import Coalition
        from incomplete_cooperative.multiplicative.max_xos_approximation import _max_subroutine
        v = [F(a) for a in x["values"]]
        g = real_table(n, [ch == "1" for ch in x["known"]], v, v)
        size = x["size"] if isinstance(x["size"], int) else 2 ** x["size"]["k"] * math.sqrt(n)
        r = guarded(_max_subroutine, g, Coalition(int(x["coalition"])), size, float(F(x["eps"])))
        if r[0] == "hang":
            return True, "_max_subroutine did not return"
        if r[0] == "ok":
            maxsub_oracle(res, x, n, v, int(x["coalition"]), size, r[1])
        return (bool(res.violations), res.violations[0]["what"] if res.violations else f"outcome {r[0]} passes the oracle")
    if kind == "xos":
        from incomplete_cooperative.coalitions import Coalition
        from incomplete_cooperative.multiplicative.max_xos_approximation import _approx_xos_subroutine
        v = [F(a) for a in x["values"]]
        c = int(x["coalition"])
        g = real_table(n, [ch == "1" for ch in x["known"]], v, v)
        r = guarded(_approx_xos_subroutine, g, Coalition(c))
        if r[0] != "ok":
            return False, f"outcome {r[0]}"
        av, q = r[1]
        ps = players(c)
        ok = sum((frac(a) for a in av), F(0)) == v[c] - v[0] and [int(a) for a in q] == [sum(1 << p for p in ps[: j + 1]) for j in range(len(ps))]
        return (not ok, "telescoping / prefixes " + ("hold" if ok else "fail"))
    if kind == "kr":
        from incomplete_cooperative.multiplicative.max_xos_approximation import _get_k_r_values
        kv, rv = _get_k_r_values(n)
        ok = kv[-1] == n and all(kv[i] == 2 ** i * math.sqrt(n) for i in range(len(kv) - 1)) and len(kv) - 1 == len([k for k in range(64) if 4 ** k < n])
        return (not ok, f"k_values={kv} r_values={rv}")
    return False, f"no replayer for kind {kind!r}; the replay file holds the complete failing input"
