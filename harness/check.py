#!/usr/bin/env python3
"""Entry point of every registered check:  check.py <Cxx> [--tier quick|thorough] [--replay FILE]

Flow (DESIGN.md section 2 / 6):
  1. proof side   : lake build of Props/Cxx (+ driver), forbidden-token grep, `#print axioms` audit
  2. correspondence: the property's streams drive the REAL code from $VERIF_REPO (default /repo) and the
                     Lean model driver with the same inputs; every stream also runs the property's own
                     oracle on the real code
  3. verdict      : oracle violation → VIOLATION with the failing input as replay (known findings are
                     matched first and printed as KNOWN-FINDING lines);
                     broken proof / correspondence without a failing input → the property's search is run
                     on the real code; still nothing → VIOLATION … no-failing-input-found
  4. evidence/Cxx.json is rewritten on every run.
Exit: 0 held, 1 violation, 2 infrastructure problem / timeout.
"""
from __future__ import annotations

import argparse
import fnmatch
import importlib
import json
import os
import sys
import time
import traceback
from pathlib import Path

sys.path.insert(0, str(Path(__file__).resolve().parent))

import common  # noqa: E402
from common import SEED, VERIF, Budget, StreamResult, jsonable  # noqa: E402

import leanside  # noqa: E402
from props import PROPS, TRUSTED_BASE  # noqa: E402


def load_known() -> list[dict]:
    out = []
    f = VERIF / "KNOWN_FINDINGS.txt"
    if f.exists():
        for line in f.read_text().splitlines():
            line = line.strip()
            if not line.startswith("known:"):
                continue
            parts = line[len("known:"):].strip().split(None, 2)
            d = {"text": parts[2] if len(parts) > 2 else ""}
            for p in parts[:2]:
                k, _, v = p.partition("=")
                d[k] = v
            out.append(d)
    return out


def match_known(prop: str, viol: dict, known: list[dict]) -> dict | None:
    key = viol.get("key") or ""
    for k in known:
        if k.get("property") == prop and key and fnmatch.fnmatchcase(key, k.get("key", "")):
            return k
    return None


def raised_in_repo(e: BaseException) -> bool:
    """did the exception come out of the code under test (a frame of its traceback lies in $VERIF_REPO)?"""
    repo = str(common.REPO) + os.sep
    tb = e.__traceback__
    while tb is not None:
        if os.path.realpath(tb.tb_frame.f_code.co_filename).startswith(repo):
            return True
        tb = tb.tb_next
    return False


def interface_broke(e: BaseException) -> bool:
    """The stream itself stumbled over the implementation's interface: a registry key, attribute, module or call signature the
    stream uses (and that exists on the unchanged tree, where every stream runs to the end) is gone or has changed.  That is a
    tie that can no longer be established — a broken correspondence — not a problem of the machine.  Resource and driver
    problems (OSError, MemoryError, the model driver, sub-process failures) stay infrastructure errors."""
    import subprocess
    if isinstance(e, (OSError, MemoryError, common.DriverError, subprocess.SubprocessError, KeyboardInterrupt)):
        return False
    return isinstance(e, (KeyError, AttributeError, ImportError, TypeError, IndexError, ValueError, AssertionError, NameError))


class Watchdog:
    """A correspondence stream that neither finishes nor runs out of its own budget: the implementation hangs or eats memory
    on inputs the unchanged tree handles within the stream's budget.  That is a correspondence that no longer checks — reported
    through the violation protocol (no failing input: the run never came back) instead of being left to an external kill.
    Limits are far above anything the unchanged tree needs (streams stop by themselves when their budget is used up)."""

    def __init__(self, prop: str, tier: str, seconds: float, rss_gb: float):
        import threading
        self.prop, self.tier, self.seconds, self.rss_gb = prop, tier, seconds, rss_gb
        self.stream = "-"
        self.t0 = time.time()
        self.stop = threading.Event()
        self.thread = threading.Thread(target=self.run, daemon=True)

    @staticmethod
    def rss_gb_now() -> float:
        try:
            with open("/proc/self/statm") as f:
                return int(f.read().split()[1]) * os.sysconf("SC_PAGE_SIZE") / 2 ** 30
        except Exception:       # noqa: BLE001
            return 0.0

    def run(self):
        while not self.stop.wait(1.0):
            el, rss = time.time() - self.t0, self.rss_gb_now()
            if el > self.seconds or rss > self.rss_gb:
                why = (f"stream {self.stream} did not come back within {int(self.seconds)} s" if el > self.seconds else
                       f"stream {self.stream} grew to {rss:.1f} GB of resident memory")
                path = write_replay(self.prop, {"property": self.prop, "seed": SEED, "tier": self.tier,
                                                "what": "the property is no longer shown to hold: " + why + " — the implementation hangs or "
                                                        "exhausts memory on inputs the unchanged tree handles within the stream's budget; no "
                                                        "failing input could be extracted because the call never returned",
                                                "correspondence_streams": [self.stream]})
                print("correspondence disagreement:", why, flush=True)
                print(f"VIOLATION property={self.prop} replay={path.relative_to(OUT)} no-failing-input-found", flush=True)
                os._exit(1)


OUT = Path(os.environ.get("VERIF_OUT") or VERIF)      # development: redirect evidence/ and replays/ elsewhere


def write_replay(prop: str, payload: dict) -> Path:
    d = OUT / "replays"
    d.mkdir(parents=True, exist_ok=True)
    p = d / f"{prop}-{SEED}.json"
    p.write_text(json.dumps(jsonable(payload), indent=1))
    return p


def main() -> int:
    ap = argparse.ArgumentParser()
    ap.add_argument("prop")
    ap.add_argument("--tier", default=os.environ.get("VERIF_TIER") or "quick", choices=["quick", "thorough"])
    ap.add_argument("--replay")
    ap.add_argument("--skip-lean", action="store_true", help="development only: skip the proof side")
    args = ap.parse_args()
    global OUT
    if args.skip_lean and not os.environ.get("VERIF_OUT"):
        OUT = Path("/tmp/verif_dev_out")       # a development run never overwrites the committed evidence
    prop = args.prop
    if prop not in PROPS:
        print(f"unknown property {prop}")
        return 2
    spec = PROPS[prop]
    t0 = time.time()

    if args.replay:
        payload = json.loads(Path(args.replay).read_text())
        if "input" not in payload:
            # a `no-failing-input-found` replay names what no longer checks (theorem module / correspondence stream and the
            # disagreements seen); there is no single input to re-run — re-run the check itself
            print("this replay file names the proof obligation / correspondence that did not check (no failing input was found): "
                  + "; ".join(str(d.get("what", d))[:160] for d in (payload.get("disagreements") or [])[:3])
                  + f" — re-run `check.py {prop} --tier {payload.get('tier', 'quick')}` to see whether it checks now")
            return 2
        mod = importlib.import_module(payload.get("stream_module") or spec["streams"][0][0])
        if not hasattr(mod, "replay"):
            print("this stream has no replayer; the replay file holds the complete failing input")
            return 2
        violated, msg = mod.replay(prop, payload)
        print(msg)
        if violated:
            print(f"VIOLATION property={prop} replay={args.replay}")
            return 1
        return 0

    # ------------------------------------------------------------------ 1. proof side
    if args.skip_lean:
        proof = {"build_ok": True, "obligations": 0, "discharged": 0, "failures": [], "checker_cmd": "skipped"}
    else:
        proof = leanside.prove(prop, spec["lean"], args.tier, ["driver"])
    proof_broken = bool(proof["failures"]) or not proof["build_ok"]
    if not common.DRIVER_EXE.exists():
        print("model driver could not be built:", proof.get("failures"))
        print(proof.get("log", "")[-2000:])
        # without the driver no correspondence can run; still a broken obligation, reported below

    # ------------------------------------------------------------------ 2. correspondence
    total = float(os.environ.get("VERIF_BUDGET") or (spec.get("quick_s", 60) if args.tier == "quick" else spec.get("thorough_s", 600)))
    import anchors
    changed_files = anchors.changed_for(prop)
    if changed_files and args.tier == "quick" and not os.environ.get("VERIF_BUDGET"):
        total *= 3          # the anchored code differs from the tree the table was made for: sample more (not a verdict)
    results: list[StreamResult] = []
    infra_errors = []
    crashes: list[dict] = []
    streams = spec["streams"]
    dog = Watchdog(prop, args.tier, seconds=float(os.environ.get("VERIF_HARD_LIMIT") or (15 * total + 900)),
                   rss_gb=float(os.environ.get("VERIF_RSS_LIMIT_GB") or 12))
    dog.thread.start()
    for modname, arg in streams:
        budget = Budget(total / max(1, len(streams)))
        dog.stream = f"{modname}/{arg}"
        try:
            mod = importlib.import_module(modname)
            r = mod.run(args.tier, budget, common.rng(f"{prop}:{modname}:{arg}"), arg)
            r.module = modname
            results.append(r)
        except common.DriverError as e:
            infra_errors.append(f"{modname}: model driver: {e}")
        except Exception as e:
            if raised_in_repo(e) or interface_broke(e):
                # the implementation itself raised where the stream (written against the unchanged tree) expects it to work:
                # the correspondence does not check any more — not an infrastructure problem
                crashes.append({"what": f"the implementation raised {type(e).__name__} inside stream {modname}/{arg}: {e}",
                                "detail": {"exception": type(e).__name__, "message": str(e)[:400],
                                           "traceback": traceback.format_exc()[-2500:]}, "stream": f"{modname}/{arg}"})
            else:
                infra_errors.append(f"{modname}: {type(e).__name__}: {e}\n{traceback.format_exc()[-1500:]}")

    dog.stop.set()
    interp = None
    if args.tier == "thorough" and not args.skip_lean and common.DRIVER_SAMPLES:
        try:
            interp = common.crosscheck_interpreter()
            if interp["mismatches"]:
                infra_errors.append(f"compiled driver and Lean's interpreter disagree: {interp['mismatches'][:2]}")
        except Exception as e:      # noqa: BLE001
            interp = {"error": str(e)}

    kernel = None
    if args.tier == "thorough" and not args.skip_lean and common.DRIVER_SAMPLES:
        # the compiled driver against the Lean KERNEL's own evaluation of the same model definitions the theorems are
        # about: closed statements `model input = output the driver printed`, proved by `decide +kernel` (every driver domain; see harness/kernelcheck.py)
        try:
            import kernelcheck
            kernel = kernelcheck.check(common.DRIVER_SAMPLES, max_statements=40, timeout=300)
            if kernel.get("failed") or kernel.get("errors"):
                infra_errors.append("compiled driver and the Lean kernel disagree: "
                                    f"{[(f['statement'], f['verdict'], f['source'][-1]) for f in kernel['failed'][:2]] or kernel['errors'][:1]}")
            kernel = {k: v for k, v in kernel.items() if k not in ("file",)}
        except Exception as e:      # noqa: BLE001
            kernel = {"error": str(e)}

    violations = [dict(v, stream=r.name, stream_module=getattr(r, "module", None)) for r in results for v in r.violations]
    disagreements = [dict(d, stream=r.name) for r in results for d in r.disagreements] + crashes

    # ------------------------------------------------------------------ 3. verdict
    known = load_known()
    known_hits, fresh = [], []
    for v in violations:
        k = match_known(prop, v, known)
        (known_hits if k else fresh).append((v, k))
    searched = None
    if not fresh and (proof_broken or disagreements or infra_errors):
        # a proof obligation or the correspondence no longer checks: look for a failing input on the real code
        searched = []
        for modname, arg in streams:
            try:
                mod = importlib.import_module(modname)
                if hasattr(mod, "search"):
                    found = mod.search(args.tier, Budget(total), common.rng(f"{prop}:search:{modname}"), arg, disagreements)
                else:
                    # generic search: the stream's own oracle on the real code, deeper tier, fresh randomness
                    r2 = mod.run("thorough", Budget(2 * total), common.rng(f"{prop}:search:{modname}"), arg)
                    found = list(r2.violations)
                for v in found:
                    v = dict(v, stream=f"search:{modname}", stream_module=modname)
                    k = match_known(prop, v, known)
                    (known_hits if k else fresh).append((v, k))
                searched.append(modname)
            except Exception as e:
                if raised_in_repo(e) or interface_broke(e):
                    searched.append(f"{modname} (search stopped: the implementation raised {type(e).__name__}: {str(e)[:200]})")
                else:
                    infra_errors.append(f"search {modname}: {type(e).__name__}: {e}")

    seen_known = set()
    for v, k in known_hits:
        if k["key"] not in seen_known:
            seen_known.add(k["key"])
            print(f"KNOWN-FINDING: property={prop} {k['text']}")

    exit_code = 0
    nviol = 0
    if fresh:
        v = fresh[0][0]
        nviol = len(fresh)
        path = write_replay(prop, {"property": prop, "seed": SEED, "tier": args.tier, "what": v["what"],
                                   "key": v.get("key"), "stream": v.get("stream"), "stream_module": v.get("stream_module"),
                                   "input": v["replay"], "other_violations": [x[0]["what"] for x in fresh[1:6]]})
        print(f"violation: {v['what']}")
        print(f"VIOLATION property={prop} replay={path.relative_to(OUT)}")
        exit_code = 1
    elif proof_broken or disagreements:
        nviol = 1
        path = write_replay(prop, {"property": prop, "seed": SEED, "tier": args.tier,
                                   "what": "the property is no longer shown to hold: a proof obligation or the "
                                           "model/implementation correspondence does not check, and no failing input was found",
                                   "proof_failures": proof.get("failures"), "theorem_module": spec["lean"],
                                   "correspondence_streams": [r.name for r in results if r.disagreements] + [c["stream"] for c in crashes],
                                   "relied_on_by": spec.get("theorems_relying", ""),
                                   "disagreements": disagreements[:5], "searched": searched})
        for d in disagreements[:3]:
            print("correspondence disagreement:", json.dumps(jsonable(d))[:600])
        for f_ in proof.get("failures", [])[:5]:
            print("proof obligation:", f_)
        print(f"VIOLATION property={prop} replay={path.relative_to(OUT)} no-failing-input-found")
        exit_code = 1
    elif infra_errors:
        for e in infra_errors:
            print("infrastructure error:", e)
        exit_code = 2

    # ------------------------------------------------------------------ 4. evidence
    evaluations = sum(r.evaluations for r in results)
    nontrivial = sum(len(r.nontrivial) for r in results)
    samples = [s for r in results for s in r.samples][:6]
    if proof.get("theorems"):
        samples.append({"theorems_checked": proof["theorems"]})
    ev = {
        "property_id": prop, "tier": args.tier, "seed": SEED, "level": "proof",
        "coverage": {
            "obligations": proof["obligations"], "discharged": proof["discharged"],
            "checker_cmd": proof["checker_cmd"],
            "trusted_base": TRUSTED_BASE + spec.get("trusted", []),
            "axioms_used": proof.get("axioms_used", []),
            "leanchecker": proof.get("leanchecker"),
            "evaluations": evaluations, "distinct_nontrivial": nontrivial,
            "rule": spec["rule"], "samples": samples or [{"note": "no stream produced a sample"}],
            "exhaustive": all(r.exhaustive for r in results) if results else False,
            "streams": {r.name: {"evaluations": r.evaluations, "distinct_nontrivial": len(r.nontrivial),
                                 "distribution": r.distribution, "disagreements": len(r.disagreements),
                                 "oracle_violations": len(r.violations), "notes": r.notes} for r in results},
            "proof_failures": proof.get("failures", []),
            "known_findings_hit": sorted(seen_known),
            "infrastructure_errors": infra_errors,
            "changed_anchor_files": changed_files,
            "driver_vs_interpreter": interp,
            "driver_vs_kernel": kernel,
        },
        "assumptions": spec.get("assumptions", []),
        "wall_s": round(time.time() - t0, 2),
        "violations": nviol,
    }
    (OUT / "evidence").mkdir(parents=True, exist_ok=True)
    (OUT / "evidence" / f"{prop}.json").write_text(json.dumps(jsonable(ev), indent=1))
    if exit_code == 0:
        print(f"{prop} {args.tier}: held — {proof['discharged']}/{proof['obligations']} theorems, "
              f"{evaluations} correspondence cases ({nontrivial} non-trivial), {ev['wall_s']} s")
    return exit_code


if __name__ == "__main__":
    try:
        sys.exit(main())
    except KeyboardInterrupt:
        sys.exit(2)
