"""Correspondence stream `env` (C09, C13 solver part, C16, environment clause of C08):
icg_gym.py / icg_gym_linear.py / solvers/*.py  vs  ICG.Model.Env.

A *case* is (n, bound computer, gap function, step budget, initial coalition list as handed to the
constructor, sequence of hidden games the generator closure returns) plus a list of operations
(reset / step a / unstep a / solver calls / step-then-unstep probes / linear reset / linear step k).
The REAL `ICG_Gym` (and `ICG_Gym_Linear`, `SOLVERS`) run the operations; the compiled Lean model gets the
same operations through the line protocol (`env …` lines).

Opaque upstream (DESIGN 6): the model's `compute` and `gap` parameters are instantiated by an oracle table
that this stream fills with what the REAL computer and the REAL gap function return on a FRESH real
`IncompleteCooperativeGame` holding a given knowledge.  The model looks entries up by the knowledge IT is in,
so it decides the state machine (who is known, mask, observation = given normalised vector masked, step
counter, done, which action a solver rule selects given those rewards, which coalition a linear step may
reveal); a change that only alters bounds or gap values does not disturb this stream.  The normalised
hidden game is likewise an input, produced by the real `normalize_game` on a copy of the hidden game.

Oracles run on the real code (independent of the Lean model; the abstract state is kept here as
(hidden game, set of revealed coalitions, step counter)):
  C09    known = initial ∪ {∅,N} ∪ revealed, with the hidden values; mask = explorable ∖ known;
         observation = normalised hidden value at known explorable positions, 0 elsewhere;
         reward = −gap(fresh game with the same knowledge, freshly computed), ≤ 0 up to rounding, bounds fresh;
         info = id; done ⇔ budget used ∨ nothing left ∨ all fresh intervals degenerate; step results = properties;
         reset draws the next hidden game and forgets everything but the initial knowledge.
  C13    each solver returns a valid action following its rule (rewards recomputed from fresh games),
         and leaves values table, counter, hidden and normalised game untouched.
  C16    linear mask k ⇔ ∃ unknown explorable coalition of size k; a step with allowed k reveals exactly one
         previously unknown coalition of that size, reports it, returns the inner reward / done; observation =
         per-size sum of the inner observation (length max explorable size + 1 = n for minimal knowledge, n ≥ 3).
  C08env step a then unstep a restores bounds, reward, observation, mask, counter, done exactly.

"Non-trivial" case: the hidden game is not symmetric under any transposition of players, at least one
explorable coalition is still unknown when the operation runs, and the case saw ≥ 2 distinct rewards.
Distinct by (configuration, operation list).
"""
from __future__ import annotations

import itertools
import math
from fractions import Fraction
from types import SimpleNamespace

import numpy as np

import gen_games as G
from common import Budget, Script, StreamResult, err_kind, frac, nlist, rlist, rs

SA_COMPUTERS = ["superadditive", "superadditive_cached"]
SAM_COMPUTERS = ["sam_apx_1", "sam_apx_10"]
GAPS = ["exploitability", "l1_norm", "l2_norm", "linf_norm"]
# (family, kind) — kind "sa": superadditive only; "sam": superadditive and monotone non-increasing
REPO_FAMILIES = [("factory", "sa"), ("factory_square", "sa"), ("noisy_factory", "sa"), ("noisy_factory_fixed", "sa"),
                 ("predictible_factory", "sa"), ("factory_cheerleader_next", "sa"), ("graph", "sa"),
                 ("graph_cycle", "sa"), ("graph_random", "sa"),
                 ("xos", "sam"), ("xos3", "sam"), ("xs", "sam"), ("oxs", "sam"),
                 ("k_budget_generator", "sam"), ("covg_fn_generator", "sam")]
OWN_FAMILIES = [("own_sa_int", "sa"), ("own_sa_dyadic", "sa"), ("own_additive", "sa"), ("own_sa_neg", "sa"),
                ("own_sam", "sam"), ("own_pow2", "sa"), ("own_wide_range", "sa"), ("own_tiny", "sa")]

# what each property's tie compares (weakest sufficient tie, DESIGN 6): the solver / undo clauses do not depend on
# the observation or on `done`; the linear environment passes the inner `done` through (checked against the real
# inner environment, not against the model)
SNAP_FIELDS = {"C09": ["mask", "state", "r", "done", "steps", "K", "L", "U"],
               "C13": ["mask", "r", "steps", "K", "L", "U"],
               "C08": ["mask", "r", "steps", "K", "L", "U"], "C07": ["mask", "r", "steps", "K", "L", "U"],
               "C16": ["mask", "state", "r", "steps", "K", "L", "U"]}
SHARED_SOLVERS: dict = {}       # one live solver object per kind, reused across environments (see op_solve)
STEP_FIELDS = {"C09": ["obs", "r", "done", "c"], "C13": ["r", "c"], "C08": ["r", "c"], "C07": ["r", "c"], "C16": ["obs", "r", "c"]}

_MODS: dict = {}


def mods():
    if "BOUNDS" not in _MODS:
        from incomplete_cooperative.bounds import BOUNDS
        from incomplete_cooperative.coalitions import Coalition, minimal_game_coalitions
        from incomplete_cooperative.game import IncompleteCooperativeGame
        from incomplete_cooperative import generators as GEN
        from incomplete_cooperative.icg_gym import ICG_Gym
        from incomplete_cooperative.icg_gym_linear import ICG_Gym_Linear
        from incomplete_cooperative.normalize import normalize_game
        _MODS.update(BOUNDS=BOUNDS, Coalition=Coalition, minimal=minimal_game_coalitions,
                     Game=IncompleteCooperativeGame, GEN=GEN, ICG_Gym=ICG_Gym, Linear=ICG_Gym_Linear,
                     normalize=normalize_game)
    return SimpleNamespace(**_MODS)


def heavy():
    """run.model and the solvers pull torch (several seconds) — imported once, only when needed"""
    mods()
    if "GAPS" not in _MODS:
        from incomplete_cooperative.run.model import GAP_FUNCTIONS
        from incomplete_cooperative.solvers import SOLVERS
        _MODS.update(GAPS=GAP_FUNCTIONS, SOLVERS=SOLVERS)
    return mods()


def popcount(x: int) -> int:
    return bin(x).count("1")


def bits(bs) -> str:
    return "".join("1" if b else "0" for b in bs)


def fl(xs) -> list[float]:
    return [float(x) for x in xs]


def finite(xs) -> bool:
    return all(math.isfinite(float(x)) for x in xs)


# ----------------------------------------------------------------------------------------------
# hidden games

def table_game(n: int, vals):
    M = mods()
    g = M.Game(n)
    g.set_values(np.array([float(v) for v in vals], dtype=float))
    return g


def own_game(fam: str, n: int, rnd):
    N = 2 ** n
    if fam == "own_sa_int":
        v = G.sa_game(n, rnd, "int")
    elif fam == "own_sa_dyadic":
        v = G.sa_game(n, rnd, "dyadic")
    elif fam == "own_sa_neg":
        v = G.sa_game(n, rnd, "int", neg_singletons=True)
    elif fam == "own_additive":
        v = G.additive_game(n, rnd, rnd.choice(["int", "dyadic"]))
    elif fam == "own_sam":
        v = G.sam_game(n, rnd)
    elif fam == "own_wide_range":
        # a huge SYMMETRIC main term (every coalition of one size ties in it) plus a small superadditive perturbation: rewards of
        # the order of 2^40 whose genuine differences between actions are tens to hundreds — equal only up to 1e-10 relative,
        # never equal.  "Maximal immediate reward" means maximal, not "within a relative tolerance of the maximum".
        pert = G.sa_game(n, rnd, "int")
        v = [Fraction(2 ** 40) * G.popcount(c) ** 2 + 64 * pert[c] for c in range(N)]
        v[0] = Fraction(0)
    elif fam == "own_tiny":
        # an integer superadditive game times 2^-45 or 2^-60 (values ~1e-13 / ~1e-17, exact in float64): normalisation, gaps and
        # "done" are scale-free, absolute tolerances are not
        sc_ = Fraction(1, 2 ** rnd.choice([45, 60, 60]))
        v = [x * sc_ for x in G.sa_game(n, rnd, "int")]
    elif fam == "own_pow2":
        # integer superadditive game whose normalised values are dyadic (surplus of N is a power of two):
        # float sums of normalised values are then exact (used for the linear observation)
        v = G.sa_game(n, rnd, "int")
        s = sum(v[1 << i] for i in range(n))
        need = max(v[N - 1] - s, 1)
        p = 1
        while p < need:
            p *= 2
        v[N - 1] = s + p
    else:
        raise ValueError(fam)
    return table_game(n, v)


def draw_hidden(fam: str, n: int, rnd):
    """one hidden game object of the family (real generator families draw from a seeded numpy Generator)"""
    M = mods()
    if fam.startswith("own_"):
        return own_game(fam, n, rnd)
    seed = rnd.randrange(2 ** 31)
    # graph_generator ignores its `generator` argument and draws from the module-level `_gen`
    M.GEN._gen.bit_generator.state = np.random.default_rng(seed).bit_generator.state
    return M.GEN.GENERATORS[fam](n, np.random.default_rng(seed))


class Hidden:
    """a hidden game with everything the stream needs about it"""

    def __init__(self, obj, n):
        M = mods()
        self.obj = obj
        self.n = n
        self.vals = fl(obj.get_values())
        nc = obj.copy()
        M.normalize(nc)                       # the real normalisation: an opaque input of the model
        self.norm = fl(nc.get_values())
        self.ok = finite(self.vals) and finite(self.norm)
        # the normalisation is an opaque input of the MODEL, not of the property: "the observation shows the normalised hidden
        # value" — checked here against the closed form (v(c) − Σ_{i∈c} v{i}) / (v(N) − Σ_i v{i}) on exact rationals, for games that
        # are clearly not additive (surplus above 1e-6 of the singleton total); scale-free, so tiny and huge games are judged alike
        self.norm_bad = None
        if self.ok:
            fv = [Fraction(x) for x in self.vals]
            sing = [fv[1 << i] for i in range(n)]
            wN = fv[-1] - sum(sing)
            if wN > 0 and wN > Fraction(1, 10 ** 6) * abs(sum(sing)):
                for c in range(2 ** n):
                    want = (fv[c] - sum(sing[i] for i in range(n) if c >> i & 1)) / wN
                    if abs(Fraction(self.norm[c]) - want) > Fraction(1, 10 ** 9):
                        self.norm_bad = (c, float(want), self.norm[c])
                        break
        self.asym = G.asymmetric(self.vals, n)
        self.cache: dict = {}


# ----------------------------------------------------------------------------------------------
# a case: the real objects, the abstract state, the protocol lines

class HiddenGen:
    """the generator callable handed to the environment: draws the hidden games of a case one after the other.  A plain picklable
    object (its state = the draw counter), so that an environment can cross a process boundary (pickle) or be deep-copied like
    the ones evaluate() ships to its workers; the copy carries its own counter from there on."""

    def __init__(self, tables: list, objs: list, reuse_buffer: bool, game_cls):
        self.tables, self.objs, self.reuse_buffer, self.game_cls = tables, objs, reuse_buffer, game_cls
        self.k = 0
        self.buf = None

    def __call__(self):
        i = self.k % len(self.tables)
        self.k += 1
        obj = self.objs[i]
        if self.reuse_buffer and isinstance(obj, self.game_cls):
            # a generator that refills one preallocated game object and hands out the SAME object at every draw: what counts is
            # what the object holds when it is drawn
            if self.buf is None:
                self.buf = obj.copy()
            else:
                self.buf.set_values(np.array(self.tables[i], dtype=float))
            return self.buf
        return obj.copy()


_FORM_COUNTER = [0]
ARRAY_FORMS = ("0-d array", "1-element array")


def action_form(a, linear=False):
    """the same valid action in the forms callers really pass: Python int, numpy integer scalars, a 0-d integer array (what a
    policy's `predict` returns) and — for the size-aggregated environment, whose `step` broadcasts — a one-element integer array.
    Deterministic rotation, so that a replay uses the same form at the same position."""
    _FORM_COUNTER[0] += 1
    k = _FORM_COUNTER[0] % (7 if linear else 5)
    if not isinstance(a, int) or a < 0:
        return a, "as-given"
    if k == 1:
        return np.int64(a), "np.int64"
    if k == 2:
        return np.int32(a), "np.int32"
    if k == 3:
        return np.array(a), "0-d array"
    if k == 5:
        return np.array([a]), "1-element array"
    return a, "int"


class Case:
    reuse_buffer_next = False      # set by the code that builds the next Case: its generator refills ONE preallocated game object

    def __init__(self, res: StreamResult, script: Script, name: str, n: int, comp: str, gap: str, budget,
                 initial: list[int], hidden: list[Hidden], prop: str, kind: str = "sa", linear: bool = False,
                 np_seed: int | None = None, approx_lin: bool = False):
        M = heavy()
        self.M, self.res, self.script, self.name, self.prop = M, res, script, name, prop
        self.n, self.N, self.comp, self.gap, self.budget, self.initial = n, 2 ** n, comp, gap, budget, list(initial)
        self.hidden, self.kind, self.linear, self.np_seed, self.approx_lin = hidden, kind, linear, np_seed, approx_lin
        self.ops: list = []
        self.nreset = 0
        self.reuse_buffer = Case.reuse_buffer_next
        self.genobj = HiddenGen([h.vals for h in hidden], [h.obj for h in hidden], self.reuse_buffer, M.Game)
        self.ik = set(initial) | {0, self.N - 1}
        self.explorable = [c for c in range(self.N) if c not in self.ik]
        self.revealed: set[int] = set()
        self.steps = 0
        self.cur: Hidden | None = None
        self.registered: set = set()
        self.rewards_seen: set = set()
        self.alive = False
        self.dead = False
        self.env = None
        self.lin = None
        self.construct()

    # -- replay payload ------------------------------------------------------------------------
    def replay(self, extra=None) -> dict:
        d = {"n": self.n, "computer": self.comp, "gap": self.gap, "budget": self.budget, "initial": self.initial,
             "hidden_values": [[rs(x) for x in h.vals] for h in self.hidden[: max(2, self.draws)]],
             "linear": self.linear, "np_seed": self.np_seed, "ops": list(self.ops), "reuse_buffer": self.reuse_buffer}
        if extra:
            d.update(extra)
        return d

    def known_now(self) -> set:
        """the knowledge the real environment holds right now"""
        kn = self.env.incomplete_game.are_values_known()
        return {c for c in range(self.N) if bool(kn[c])}

    def keep_obs(self, arr, where: str):
        """A caller may keep what reset / step / unstep returned: an observation handed out earlier must keep showing what was
        revealed WHEN it was returned, whatever is called afterwards (no shared buffer behind the results)."""
        if not hasattr(self, "kept"):
            self.kept = []
        for old_arr, old_copy, old_where in self.kept[-6:]:
            if not (old_arr.shape == old_copy.shape and np.array_equal(old_arr, old_copy, equal_nan=True)):
                self.violate(f"the observation returned by an earlier {old_where} changed after a later call ({where}): results share a buffer",
                             "observation-aliasing")
                self.kept = []
                return
        if isinstance(arr, np.ndarray):
            self.kept.append((arr, arr.copy(), where))

    def keep_info(self, info, where: str):
        """the same for the info dict a step / unstep returned: the report of step t names the coalition of step t, also when it is
        read after step t + 1"""
        kept = getattr(self, "kept_infos", [])
        for old, old_c, old_where in kept[-6:]:
            if old.get("chosen_coalition") != old_c:
                self.violate(f"the info returned by an earlier {old_where} reports another coalition after a later call ({where}): "
                             "the reports of one episode share an object", "info-aliasing")
                self.kept_infos = []
                return
        if isinstance(info, dict) and "chosen_coalition" in info:
            kept.append((info, info["chosen_coalition"], where))
        self.kept_infos = kept

    def violate(self, what: str, site: str, extra=None):
        self.res.violation(what, self.replay(extra), key=f"{self.prop}:{site}")
        self.dead = True          # the abstract state may have diverged: do not pile up consequences

    def sel(self, fields: dict, which: dict) -> str:
        return " ".join(f"{k}={fields[k]}" for k in which[self.prop] if k in fields)

    def clone(self, name: str) -> "Case":
        return Case(self.res, self.script, name, self.n, self.comp, self.gap, self.budget, self.initial, self.hidden,
                    self.prop, self.kind, self.linear, self.np_seed, self.approx_lin)

    # -- generator ------------------------------------------------------------------------------
    @property
    def draws(self) -> int:
        """how many hidden games the generator of the LIVE environment has handed out"""
        return self.genobj.k

    def gen(self):
        return self.genobj()

    def op_transfer(self):
        """The environment crosses a process boundary (pickle round trip — what evaluate() does to every environment it ships to a
        worker) or is deep-copied, mid-episode; the history continues with the object that comes out.  It is the same environment."""
        if self.dead or not self.alive:
            return
        import copy as _copy
        import pickle as _pickle
        how = ["pickle", "deepcopy", "pickle"][len(self.ops) % 3]
        self.ops.append(["transfer", how])
        top = self.lin if self.lin is not None else self.env
        try:
            new_top = _pickle.loads(_pickle.dumps(top)) if how == "pickle" else _copy.deepcopy(top)
        except Exception as e:      # noqa: BLE001
            self.res.count(f"op:transfer:{how}:refused:{type(e).__name__}")      # an environment need not be picklable: no verdict
            self.ops.pop()
            return
        new_env = new_top.icg_gym if self.lin is not None else new_top
        gen = getattr(new_env, "generator", None)
        if not isinstance(gen, HiddenGen):
            self.res.count("op:transfer:generator-not-reachable")
            self.ops.pop()
            return
        if self.lin is not None:
            self.lin = new_top
        self.env, self.genobj = new_env, gen
        self.kept = []                      # observations of the old object are no longer this environment's business
        self.kept_infos = []
        self.res.count(f"op:transfer:{how}")
        self.check_state("transfer")
        if self.linear and self.lin is not None:
            self.check_lin("transfer")

    # -- the fresh-game oracle -----------------------------------------------------------------
    def fresh(self, h: Hidden, K: frozenset):
        """REAL computer and REAL gap on a fresh real game knowing exactly K (values of the hidden game)."""
        if K in h.cache:
            return h.cache[K]
        M = self.M
        g = M.Game(self.n, M.BOUNDS[self.comp])
        ks = sorted(K)
        out = {"L": None, "U": None, "gap": None, "berr": None, "gerr": None}
        try:
            g.set_known_values([h.vals[k] for k in ks], [M.Coalition(k) for k in ks])
            g.compute_bounds()
            out["L"], out["U"] = fl(g.get_lower_bounds()), fl(g.get_upper_bounds())
        except Exception as e:
            out["berr"] = err_kind(e)
        if out["berr"] is None:
            try:
                out["gap"] = float(M.GAPS[self.gap](g))
            except Exception as e:
                out["gerr"] = err_kind(e)
        h.cache[K] = out
        return out

    def register(self, K) -> dict:
        """make the oracle entry for knowledge K available to the model"""
        K = frozenset(K)
        o = self.fresh(self.cur, K)
        if K not in self.registered:
            self.registered.add(K)
            kb = bits(c in K for c in range(self.N))
            if o["berr"] is not None:
                line = f"env oracle {self.name} {kb} {o['berr']} - err:other"
            else:
                g = o["gerr"] if o["gerr"] is not None else (rs(o["gap"]) if math.isfinite(o["gap"]) else "err:nan")
                line = f"env oracle {self.name} {kb} {rlist(o['L'])} {rlist(o['U'])} {g}"
            self.script.add(line, "ok")
        return o

    def known(self) -> frozenset:
        return frozenset(self.ik | self.revealed)

    def ctx(self):
        return {"case": self.name, "replay": self.replay()}

    # -- construction --------------------------------------------------------------------------
    def construct(self):
        M = self.M
        game = M.Game(self.n, M.BOUNDS[self.comp])
        h = self.hidden[(self.draws + 1) % len(self.hidden)]         # the draw `reset()` makes inside __init__
        self.cur = h
        ans = "ok"
        if all(c < self.N for c in self.ik):
            self.register(self.ik)
        if self.np_seed is not None:
            np.random.seed(self.np_seed)
        try:
            # the step budget in the forms callers pass it: Python int, or a numpy integer (an element of np.arange, rng.integers(…))
            budget_arg = self.budget
            if isinstance(self.budget, int) and not isinstance(self.budget, bool):
                form = _FORM_COUNTER[0] % 3
                budget_arg = [self.budget, np.int64(self.budget), np.int32(self.budget)][form]
                self.res.count(f"budget-form:{type(budget_arg).__name__}")
            self.env = M.ICG_Gym(game, self.genobj, [M.Coalition(c) for c in self.initial], M.GAPS[self.gap], budget_arg)
            self.alive = True
        except Exception as e:
            ans = err_kind(e)
        self.script.add(f"env new {self.name} {self.n} ext ext {'none' if self.budget is None else self.budget} "
                        f"{nlist(self.initial)} {rlist(h.vals)} {rlist(h.norm)}", ans, self.ctx())
        self.res.count(f"new:{ans}")
        if not self.alive:
            return
        env = self.env
        ik_real = sorted(c.id for c in env.initially_known_coalitions)
        ex_real = [c.id for c in env.explorable_coalitions]
        self.script.add(f"env info {self.name}",
                        f"ik={nlist(ik_real)} ex={nlist(ex_real)} n={self.n} steps={env.steps_taken} "
                        f"budget={'none' if self.budget is None else self.budget}", self.ctx())
        if ik_real != sorted(self.ik) or len(env.initially_known_coalitions) != len(self.ik):
            self.violate("initially known coalitions ≠ de-duplicated initial list ∪ {∅, N}", "init")
        if ex_real != self.explorable:
            self.violate("explorable coalitions ≠ ids not initially known, in id order", "explorable")
        if env.full_game.get_values().tolist() != h.vals:
            self.violate("after construction the hidden game is not the generator's second draw", "draws")
        if self.linear:
            self.lin = M.Linear(env)
            # the declared interface of the size-aggregated environment: n actions (sizes 0..n-1), observations of length n
            try:
                a_n = int(self.lin.action_space.n)
                o_shape = tuple(self.lin.observation_space.shape)
            except Exception as e:      # noqa: BLE001
                a_n, o_shape = f"raised {type(e).__name__}", None
            if a_n != self.n or o_shape != (self.n,):
                self.violate(f"the size-aggregated environment does not declare n actions and observations of length n "
                             f"(action_space.n = {a_n}, observation_space.shape = {o_shape})", "linear-spaces")
            if len(env.explorable_coalitions) != int(env.action_space.n) or tuple(env.observation_space.shape) != (len(env.explorable_coalitions),):
                self.violate("the environment does not declare one action / one observation cell per explorable coalition", "spaces")
        self.check_state("new")

    # -- observation of the real environment ---------------------------------------------------
    def snap_real(self):
        env = self.env
        ig = env.incomplete_game
        try:
            r = rs(env.reward)
        except Exception as e:
            r = err_kind(e)
        return self.sel({"mask": bits(env.action_masks()), "state": rlist(env.state), "r": r, "done": "1" if env.done else "0",
                         "steps": str(env.steps_taken), "K": bits(ig.are_values_known()), "L": rlist(ig.get_lower_bounds()),
                         "U": rlist(ig.get_upper_bounds())}, SNAP_FIELDS)

    def check_state(self, after: str):
        """C09 oracle on the real environment + model snapshot comparison"""
        env, h = self.env, self.cur
        ig = env.incomplete_game
        K = self.known()
        if self.prop == "C09" and h is not None and h.norm_bad is not None and not self.dead:
            c_, want_, got_ = h.norm_bad
            return self.violate(f"after {after}: the normalised hidden game the observation is taken from is not the normal form of the "
                                f"hidden game (coalition {c_}: {got_!r} instead of {want_!r})", "normal-form", {"coalition": c_})
        kn = [bool(x) for x in ig.are_values_known()]
        if self.prop != "C09":
            # the environment invariants are C09's business; here only keep the abstract state honest
            if self.dead:
                return
            if kn != [c in K for c in range(self.N)] or env.steps_taken != self.steps:
                self.dead = True
                self.res.count("abandoned:state-diverged")
                return
            o = self.register(K)
            self.script.add(f"env snap {self.name}", self.snap_real(), self.ctx())
            self.res.evaluations += 1
            try:
                self.rewards_seen.add(float(env.reward))
            except Exception:
                pass
            if self.prop == "C08" and o["berr"] is None and o["gerr"] is None:
                # C08 at environment level: whatever order of reveals and un-reveals led here, bounds and reward are those
                # of a fresh game holding the same knowledge
                lo, hi = fl(ig.get_lower_bounds()), fl(ig.get_upper_bounds())
                try:
                    r = float(env.reward)
                except Exception:
                    r = None
                if lo != o["L"] or hi != o["U"] or (r is not None and r != -o["gap"]):
                    self.violate(f"after {after}: bounds / reward depend on the order of reveals and un-reveals (≠ freshly recomputed "
                                 "bounds for the same knowledge)", "history", {"reward": r, "expected": -o["gap"]})
            return
        o = self.register(K)
        self.script.add(f"env snap {self.name}", self.snap_real(), self.ctx())
        self.res.evaluations += 1
        if kn != [c in K for c in range(self.N)]:
            return self.violate(f"after {after}: known coalitions ≠ minimal/initial information ∪ chosen ones", "known")
        lo, hi = fl(ig.get_lower_bounds()), fl(ig.get_upper_bounds())
        if any(lo[c] != h.vals[c] or hi[c] != h.vals[c] for c in K):
            return self.violate(f"after {after}: a known coalition does not carry the hidden game's value", "values")
        if env.full_game.get_values().tolist() != h.vals:
            return self.violate(f"after {after}: the hidden game is not the generator's latest draw", "hidden")
        mask = [bool(x) for x in env.action_masks()]
        if mask != [c not in K for c in self.explorable]:
            return self.violate(f"after {after}: action mask ≠ still-unknown explorable coalitions", "mask")
        st = fl(env.state)
        if st != [h.norm[c] if c in K else 0.0 for c in self.explorable]:
            return self.violate(f"after {after}: observation ≠ normalised hidden value at known explorable positions, 0 elsewhere", "state")
        if env.steps_taken != self.steps:
            return self.violate(f"after {after}: step counter wrong", "steps")
        if o["berr"] is None and o["gerr"] is None:
            r = float(env.reward)
            self.rewards_seen.add(r)
            if r != -o["gap"] or lo != o["L"] or hi != o["U"]:
                return self.violate(f"after {after}: reward / bounds are not those of freshly recomputed bounds for the current knowledge",
                                    "fresh", {"reward": r, "expected": -o["gap"]})
            scale = max(1.0, max(abs(x) for x in h.vals))
            if r > 1e-9 * scale:
                return self.violate(f"after {after}: reward is positive for a game of the assumed class", "positive", {"reward": r})
            exp_done = ((self.budget is not None and self.steps >= self.budget) or all(c in K for c in self.explorable)
                        or all(u - l == 0 for l, u in zip(o["L"], o["U"])))
            if bool(env.done) != exp_done:
                return self.violate(f"after {after}: done ≠ (budget used ∨ nothing left ∨ all intervals degenerate)", "done",
                                    {"done": bool(env.done), "expected": exp_done})
            self.res.count(f"done:{int(exp_done)}")
            if exp_done and not (self.budget is not None and self.steps >= self.budget) and not all(c in K for c in self.explorable):
                self.res.count("done:degenerate-only")

    def nontrivial(self) -> bool:
        return bool(self.cur and self.cur.asym and len(self.rewards_seen) >= 2 and len(self.explorable) >= 2)

    # -- operations ----------------------------------------------------------------------------
    def resolve(self, a: int):
        i = a + len(self.explorable) if a < 0 else a
        return i if 0 <= i < len(self.explorable) else None

    def show_out(self, out) -> str:
        st, r, d, _tr, info = out
        return self.sel({"obs": rlist(st), "r": rs(r), "done": "1" if d else "0", "c": str(int(info["chosen_coalition"]))}, STEP_FIELDS)

    def op_reset(self):
        if self.dead:
            return
        self.ops.append(["reset"])
        env = self.env
        h = self.hidden[self.draws % len(self.hidden)]
        self.cur = h
        self.script.add(f"env oracle-clear {self.name}", "ok")
        self.registered = set()
        self.register(self.ik)
        try:
            # gymnasium's reset takes a seed; the hidden game comes from the generator, so a seed — a repeated one included —
            # never stands for "the same game again"
            seed = [None, 7, None, 7, 7, 11][self.nreset % 6]
            self.nreset += 1
            st, info = env.reset() if seed is None else env.reset(seed=seed)
            self.res.count("reset:seeded" if seed is not None else "reset:unseeded")
            ans = f"obs={rlist(st)}"
            self.keep_obs(st, "reset")
            self.revealed, self.steps = set(), 0
            if info.get("game") is not env.full_game:
                self.violate("reset info does not carry the new hidden game", "reset-info")
        except Exception as e:
            ans = err_kind(e)
        self.script.add(f"env reset {self.name} {rlist(h.vals)} {rlist(h.norm)}", ans, self.ctx())
        self.res.count("op:reset")
        self.check_state("reset")

    def op_step(self, a: int, un: bool = False):
        if self.dead:
            return
        nm = "unstep" if un else "step"
        self.ops.append([nm, a])
        env = self.env
        i = self.resolve(a)
        c = self.explorable[i] if i is not None else None
        valid = c is not None and ((c in self.revealed) if un else (c not in self.revealed)) and 0 <= a
        if c is not None:
            self.register((self.known() - {c}) if un else (self.known() | {c}))
        before_c07 = None
        if self.prop == "C07" and valid and not un:
            ig0 = env.incomplete_game
            try:
                before_c07 = (fl(ig0.get_lower_bounds()), fl(ig0.get_upper_bounds()), float(env.reward))
            except Exception:       # noqa: BLE001
                before_c07 = None
        try:
            a_form, form_name = action_form(a) if valid else (a, "as-given")
            self.res.count(f"action-form:{form_name}")
            try:
                out = (env.unstep if un else env.step)(a_form)
            except Exception:       # noqa: BLE001
                # an implementation may refuse array-valued actions outright (the signature says `int`); what it may not do is
                # accept them and misbehave.  A refusal that left the knowledge untouched is retried with the plain int.
                if form_name not in ARRAY_FORMS or self.known_now() != self.known():
                    raise
                self.res.count(f"action-form-refused:{form_name}")
                out = (env.unstep if un else env.step)(a)
            ans = self.show_out(out)
            self.keep_obs(out[0], nm)
            self.keep_info(out[4], nm)
            if before_c07 is not None:
                # C07 on the environment: whatever happened before (un-reveals in any order included), revealing a true value
                # widens no interval and lowers no reward (= raises no gap)
                ig1 = env.incomplete_game
                L1, U1, r1 = fl(ig1.get_lower_bounds()), fl(ig1.get_upper_bounds()), float(out[1])
                L0, U0, r0 = before_c07
                tol = 1e-9 * max(1.0, abs(r0))
                # hidden games of the repo's float families are superadditive only up to rounding: nesting is demanded up to
                # 1e-9 of the value scale (exact families have slack 0 anyway)
                slack = 1e-9 * max(1.0, max(abs(x) for x in self.cur.vals))
                if any(x1 < x0 - slack for x0, x1 in zip(L0, L1)) or any(x1 > x0 + slack for x0, x1 in zip(U0, U1)):
                    self.violate(f"revealing coalition {c} widened an interval in the environment", "env-widening", {"action": a})
                elif r1 < r0 - tol:
                    self.violate(f"revealing coalition {c} increased the gap in the environment ({-r0} -> {-r1})", "env-gap-increase",
                                 {"action": a})
            if un:
                self.revealed.discard(c)
                self.steps -= 1
            else:
                self.revealed.add(c)
                self.steps += 1
            if int(out[4]["chosen_coalition"]) != c:
                self.violate(f"{nm}: info does not report the id of the coalition of the action", "info")
            if fl(out[0]) != fl(env.state) or float(out[1]) != float(env.reward) or bool(out[2]) != bool(env.done) or out[3] is not False:
                self.violate(f"{nm}: returned (state, reward, done) differ from the environment's properties", "result")
        except Exception as e:
            ans = err_kind(e)
            if valid:
                self.violate(f"{nm} with a valid action raised {type(e).__name__}", "raise")
        self.script.add(f"env {nm} {self.name} {a}", ans, self.ctx())
        self.res.count(f"op:{nm}:{'ok' if not ans.startswith('err') else ans}")
        self.check_state(nm)

    def snapshot(self):
        env = self.env
        ig = env.incomplete_game
        return (ig._values.copy() if hasattr(ig, "_values") else None, fl(ig.get_lower_bounds()), fl(ig.get_upper_bounds()),
                [bool(x) for x in ig.are_values_known()], env.steps_taken, env.full_game.get_values().tolist(),
                env.normalized_game.get_values().tolist(), fl(env.state), float(env.reward), bool(env.done),
                [bool(x) for x in env.action_masks()])

    @staticmethod
    def same(s1, s2) -> bool:
        a0, b0 = s1[0], s2[0]
        if (a0 is None) != (b0 is None) or (a0 is not None and not np.array_equal(a0, b0)):
            return False
        return s1[1:] == s2[1:]

    def op_undo(self, a: int):
        """C08env: step a then unstep a from a state where a is valid"""
        if self.dead:
            return
        before = self.snapshot()
        self.op_step(a)
        self.op_step(a, un=True)
        after = self.snapshot()
        if not self.same(before, after):
            names = ["table", "lower", "upper", "known", "steps", "hidden", "normalised", "observation", "reward", "done", "mask"]
            diff = [nm for nm, x, y in zip(names[1:], before[1:], after[1:]) if x != y] or ["table"]
            self.violate("revealing a coalition and un-revealing it does not restore " + ", ".join(diff), "undo", {"action": a})

    def op_solve(self, which: str, seed: int = 0):
        if self.dead:
            return
        self.ops.append(["solve", which, seed])
        env, M = self.env, self.M
        K = self.known()
        valid = [i for i, c in enumerate(self.explorable) if c not in K]
        rew = {}
        for i in valid:
            o = self.register(K | {self.explorable[i]})
            rew[i] = -o["gap"] if o["gap"] is not None else None
        before = self.snapshot()
        try:
            # half of the calls reuse ONE solver object per kind for the whole run (as `solve` does across repetitions and
            # environments): state a solver keeps between calls / environments shows only then. The random solver keeps its
            # own generator per call so that its draw stays an input of the model.
            if which != "random" and seed % 2 == 0:
                solver = SHARED_SOLVERS.get(which)
                if solver is None:
                    solver = SHARED_SOLVERS[which] = M.SOLVERS[which](SimpleNamespace(seed=seed))
                self.res.count("solve:shared-solver-object")
            else:
                solver = M.SOLVERS[which](SimpleNamespace(seed=seed))
            act = int(solver.next_step(env))
            ans = f"a={act}"
        except Exception as e:
            act, ans = None, err_kind(e)
        after = self.snapshot()
        if which == "random":
            if act is not None:
                self.script.add(f"env random {self.name} {act}", "1", self.ctx())
        else:
            self.script.add(f"env solve {self.name} {which}", ans, self.ctx())
        self.script.add(f"env snap {self.name}", self.snap_real(), self.ctx())
        self.res.evaluations += 1
        self.res.count(f"solve:{which}:{'ok' if act is not None else ans}")
        if not self.same(before, after):
            self.violate(f"solver {which} does not leave the environment as it found it", f"solver-env:{which}")
        if valid:
            if act is None:
                return self.violate(f"solver {which} raised although a valid action exists", f"solver-raise:{which}")
            if act not in valid:
                return self.violate(f"solver {which} returned an action that is not currently valid", f"solver-valid:{which}", {"action": act})
            if which in ("greedy", "greedy_worst") and all(v is not None for v in rew.values()):
                best = (min if which == "greedy_worst" else max)(rew.values())
                if act != min(i for i in valid if rew[i] == best):
                    return self.violate(f"solver {which}: not the lowest-index action of {'minimal' if which == 'greedy_worst' else 'maximal'} immediate reward",
                                        f"solver-rule:{which}", {"action": act, "rewards": {str(k): v for k, v in rew.items()}})
                if len(set(rew.values())) >= 2:
                    self.res.count("solve:distinct-rewards")
            if which == "largest":
                ms = max(popcount(self.explorable[i]) for i in valid)
                if act != min(i for i in valid if popcount(self.explorable[i]) == ms):
                    return self.violate("solver largest: not the lowest-index largest unknown coalition", "solver-rule:largest", {"action": act})

    # -- the size-aggregated environment ---------------------------------------------------------
    def agg(self, xs):
        sizes = [popcount(c) for c in self.explorable]
        out = [0.0] * (max(sizes) + 1)
        for s, x in zip(sizes, xs):
            out[s] += float(x)
        return out

    def spec_obs(self):
        K, h = self.known(), self.cur
        return [h.norm[c] if c in K else 0.0 for c in self.explorable]

    def lin_answer(self, tag_obs, rest=""):
        pre = "~" if self.approx_lin else ""
        return f"{pre}obs={rlist(tag_obs)}{rest}"

    def lin_close(self, a, b) -> bool:
        if len(a) != len(b):
            return False
        return all(abs(x - y) <= 1e-9 * max(1.0, abs(x), abs(y)) for x, y in zip(a, b)) if self.approx_lin else list(a) == list(b)

    def check_lin(self, after: str):
        if self.dead:
            return
        lin, env = self.lin, self.env
        K = self.known()
        sizes = [popcount(c) for c in self.explorable]
        self.script.add(f"env linsizes {self.name}", nlist(lin.subset_sizes), self.ctx())
        m = [bool(x) for x in lin.action_masks()]
        self.script.add(f"env linmask {self.name}", bits(m), self.ctx())
        ls = fl(lin.state)
        self.script.add(f"env linstate {self.name}", ("~" if self.approx_lin else "") + rlist(ls), self.ctx())
        self.res.evaluations += 1
        exp_mask = [any(s == k and c not in K for s, c in zip(sizes, self.explorable)) for k in range(max(sizes) + 1)]
        if m != exp_mask:
            return self.violate(f"after {after}: linear mask allows size k ⇎ some explorable coalition of size k is unknown", "lin-mask")
        if not self.lin_close(ls, self.agg(self.spec_obs())) or not self.lin_close(ls, self.agg(env.state)):
            return self.violate(f"after {after}: linear observation ≠ per-size sum of the underlying observation", "lin-state")
        if any(popcount(c) == self.n - 1 for c in self.explorable) and (len(ls) != self.n or len(m) != self.n):
            return self.violate(f"after {after}: linear observation / mask does not have length n", "lin-length")

    def op_linreset(self):
        if self.dead:
            return
        self.ops.append(["linreset"])
        h = self.hidden[self.draws % len(self.hidden)]
        self.cur = h
        self.script.add(f"env oracle-clear {self.name}", "ok")
        self.registered = set()
        self.register(self.ik)
        try:
            st, _info = self.lin.reset()
            ans = self.lin_answer(fl(st))
            self.revealed, self.steps = set(), 0
            if not self.lin_close(fl(st), self.agg(self.spec_obs())):
                self.violate("linear reset: observation ≠ per-size sum of the underlying observation", "lin-reset")
        except Exception as e:
            ans = err_kind(e)
        self.script.add(f"env linreset {self.name} {rlist(h.vals)} {rlist(h.norm)}", ans, self.ctx())
        self.res.count("op:linreset")
        self.check_state("linreset")
        self.check_lin("linreset")

    def op_linstep(self, k: int):
        if self.dead:
            return
        self.ops.append(["linstep", k])
        env, lin = self.env, self.lin
        K = self.known()
        cands = [i for i, c in enumerate(self.explorable) if popcount(c) == k and c not in K]
        allowed = 0 <= k < self.n and bool(cands)
        chosen_idx = 0
        try:
            k_form, form_name = action_form(k, linear=True) if allowed else (k, "as-given")
            self.res.count(f"size-form:{form_name}")
            try:
                out = lin.step(k_form)
            except Exception:       # noqa: BLE001
                if form_name not in ARRAY_FORMS or self.known_now() != K:
                    raise
                self.res.count(f"size-form-refused:{form_name}")
                out = lin.step(k)
            cid = int(out[4]["chosen_coalition"])
            self.keep_info(out[4], "linstep")
            chosen_idx = self.explorable.index(cid) if cid in self.explorable else 0
            self.register(K | {cid})
            ans = self.lin_answer(fl(out[0]), f" r={rs(out[1])} c={cid}")
            newly = [c for c in range(self.N) if bool(env.incomplete_game.are_values_known()[c]) and c not in K]
            self.revealed.add(cid)
            self.steps += 1
            if not allowed:
                self.violate("linear step with a size that is not allowed went through", "lin-disallowed", {"k": k})
            elif newly != [cid] or popcount(cid) != k or cid in K or cid not in self.explorable:
                self.violate("linear step did not reveal exactly one previously unknown explorable coalition of the requested size and report it",
                             "lin-reveal", {"k": k, "reported": cid, "newly_known": newly})
            elif float(out[1]) != float(env.reward) or bool(out[2]) != bool(env.done):
                self.violate("linear step does not return the underlying environment's reward / done", "lin-result", {"k": k})
            elif float(lin.reward) != float(env.reward) or bool(lin.done) != bool(env.done):
                self.violate("the linear environment's own reward / done properties ≠ the underlying environment's", "lin-properties", {"k": k})
            elif not self.lin_close(fl(out[0]), self.agg(self.spec_obs())):
                self.violate("linear step: observation ≠ per-size sum of the underlying observation", "lin-obs", {"k": k})
        except Exception as e:
            ans = err_kind(e)
            if allowed:
                self.violate(f"linear step with an allowed size raised {type(e).__name__}", "lin-raise", {"k": k})
                # the inner environment may or may not have been stepped; resynchronise the abstract state
                kn = [c for c in range(self.N) if bool(env.incomplete_game.are_values_known()[c])]
                self.revealed = set(kn) - self.ik
                self.steps = env.steps_taken
        self.script.add(f"env linstep {self.name} {k} {chosen_idx}", ans, self.ctx())
        self.res.count(f"op:linstep:{'ok' if not ans.startswith('err') else ans}")
        self.check_state("linstep")
        self.check_lin("linstep")


# ----------------------------------------------------------------------------------------------
# answer comparison (a leading `~` marks an observation compared with tolerance: float sums)

def _close_list(w: str, g: str) -> bool:
    wl = [Fraction(x) for x in w.split(",")] if w != "-" else []
    gl = [Fraction(x) for x in g.split(",")] if g != "-" else []
    return len(wl) == len(gl) and all(abs(x - y) <= Fraction(1, 10 ** 9) * max(1, abs(x), abs(y)) for x, y in zip(wl, gl))


def compare(want: str, got: str) -> bool:
    """`want` lists the fields the property's tie compares (`k=v` tokens, a subset of the model's answer)."""
    if want == got:
        return True
    approx = want.startswith("~")
    if approx:
        want = want[1:]
    try:
        wt = want.split(" ")
        if "=" not in wt[0]:
            return approx and _close_list(want, got)
        gd = dict(t.split("=", 1) for t in got.split(" "))
        for t in wt:
            k, v = t.split("=", 1)
            if k not in gd:
                return False
            if gd[k] == v or (approx and k == "obs" and _close_list(v, gd[k])):
                continue
            return False
        return True
    except Exception:
        return False


# ----------------------------------------------------------------------------------------------
# case generation

def computers_for(kind: str) -> list[str]:
    return SA_COMPUTERS + (SAM_COMPUTERS if kind == "sam" else [])


def initial_variants(n: int, rnd, how: str) -> list[int]:
    mn = G.minimal_ids(n)
    N = 2 ** n
    if how == "minimal":
        return list(mn)
    if how == "no_empty_grand":           # the constructor adds ∅ and N itself
        return [1 << i for i in range(n)]
    others = [c for c in range(N) if c not in mn]
    if how == "extra":
        ex = rnd.sample(others, rnd.randint(1, max(1, len(others) - 2)))
        return list(mn) + ex
    if how == "extra2":                   # exactly two extra known coalitions: environments with EQUALLY MANY explorable coalitions, different ones
        return list(mn) + rnd.sample(others, min(2, len(others)))
    if how == "dup":
        ex = rnd.sample(others, rnd.randint(0, max(0, len(others) - 2)))
        l = list(mn) + ex + [rnd.choice(list(mn) + ex) for _ in range(3)]
        rnd.shuffle(l)
        return l
    if how == "missing_singleton":        # malformed: the computers refuse such knowledge
        return [0, N - 1] + [1 << i for i in range(1, n)]
    raise ValueError(how)


def make_hidden(fam: str, n: int, rnd, count: int) -> list[Hidden] | None:
    hs = []
    for _ in range(count):
        try:
            h = Hidden(draw_hidden(fam, n, rnd), n)
        except Exception:
            return None                    # a generator that raises is C10's business
        if not h.ok or h.obj.number_of_players != n:
            return None
        hs.append(h)
    return hs


class Plan:
    """round-robin over families / computers / gaps / budgets so that a short run still touches all of them"""

    def __init__(self, rnd, fams):
        self.rnd = rnd
        self.fams = list(fams)
        rnd.shuffle(self.fams)
        self.i = 0
        self.j = 0

    def next(self, n: int, allowed=None, nbudgets=(None, None, 0, 1, 2, 3)):
        if allowed is None:
            fam, kind = self.fams[self.j % len(self.fams)]
            self.j += 1
        else:
            fam, kind = self.rnd.choice([fk for fk in self.fams if allowed(*fk)])
        comps = computers_for(kind)
        comp = comps[self.i % len(comps)] if self.rnd.random() < 0.7 else self.rnd.choice(comps)
        gap = GAPS[(self.i // 2) % len(GAPS)] if self.rnd.random() < 0.5 else self.rnd.choice(GAPS)
        bud = self.rnd.choice(nbudgets)
        self.i += 1
        if n >= 5 and comp == "superadditive" and self.rnd.random() < 0.5:
            comp = "superadditive_cached"
        return fam, kind, comp, gap, bud


def finish(res: StreamResult, script: Script):
    for b in script.diff(compare):
        ctx = b.get("ctx") or {}
        res.disagree("env answer" if b["kind"] == "mismatch" else "protocol", {"line": b["line"][:300], "impl": b["impl"], "model": b["model"],
                                                                                 "replay": ctx.get("replay") if isinstance(ctx, dict) else None})
    return res


def walk_all_sequences(case: Case, rnd, solver_every: bool, undo_every: bool, budget: Budget):
    """n = 3 style: every order of revealing the explorable coalitions (hence every sequence without repetition as a
    prefix), then un-revealing in a random order.  C09: one environment, a reset between orders.  C13 / C08env: a new
    environment per order and no reset after a reveal (what `reset` forgets is C09's clause, not theirs)."""
    m = len(case.explorable)
    perms = list(itertools.permutations(range(m))) if m <= 3 else [tuple(rnd.sample(range(m), m)) for _ in range(4)]
    base = case
    for pi, p in enumerate(perms):
        if not budget.ok():
            return
        if base.prop == "C09":
            case.op_reset()
        elif pi > 0:
            case.script.add(f"env drop {case.name}", "ok")
            case = base.clone(f"{base.name}p{pi}")
            if not case.alive:
                return
        for a in p:
            if solver_every:
                for s in ("greedy", "greedy_worst", "largest", "random"):
                    case.op_solve(s, rnd.randrange(1000))
            if undo_every:
                for b in range(m):
                    if case.explorable[b] not in case.revealed:
                        case.op_undo(b)
            case.op_step(a)
        if solver_every:
            for s in ("greedy", "greedy_worst", "largest", "random"):
                case.op_solve(s, rnd.randrange(1000))          # nothing left: max() of an empty list / the `0` fallback
        back = list(p)
        rnd.shuffle(back)
        for a in back[: rnd.randint(0, m)]:
            case.op_step(a, un=True)
        if case.nontrivial():
            case.res.nontrivial.add((case.name, p))
    if case is not base:
        case.script.add(f"env drop {case.name}", "ok")


def random_walk(case: Case, rnd, length: int, malformed: float, solver_p: float, undo_p: float, budget: Budget):
    m = len(case.explorable)
    resets = case.prop == "C09"
    for t in range(length):
        if not budget.ok() or case.dead:
            return
        r = rnd.random()
        unknown = [i for i, c in enumerate(case.explorable) if c not in case.revealed]
        known = [i for i, c in enumerate(case.explorable) if c in case.revealed]
        if rnd.random() < 0.04:
            case.op_transfer()
        elif rnd.random() < malformed:
            a = rnd.choice([m, m + 1, -m - 1, -1, -m] + known + unknown)
            case.op_step(a, un=rnd.random() < 0.4)
        elif r < 0.08 and resets:
            case.op_reset()
        elif solver_p > 0 and r < 0.08 + solver_p:
            case.op_solve(rnd.choice(["greedy", "greedy_worst", "largest", "random"]), rnd.randrange(1000))
        elif undo_p > 0 and r < 0.08 + solver_p + undo_p and unknown:
            case.op_undo(rnd.choice(unknown))
        elif (r < 0.75 or not known) and unknown:
            case.op_step(rnd.choice(unknown))
        elif known:
            case.op_step(rnd.choice(known), un=True)
        elif resets:
            case.op_reset()
        else:
            return
    if case.nontrivial():
        case.res.nontrivial.add((case.name, "walk"))


def run(tier: str, budget: Budget, rnd, arg: str) -> StreamResult:
    heavy()
    res = StreamResult(f"env:{arg}")
    script = Script()
    quick = tier == "quick"
    fams = REPO_FAMILIES + OWN_FAMILIES
    plan = Plan(rnd, fams)
    cid = 0
    # leave time for the model side: generation may use ~60 % of the budget
    gen_budget = Budget(max(5.0, budget.left() * 0.6))

    def new_case(n, how="minimal", linear=False, fam_filter=None, **kw):
        nonlocal cid
        for _ in range(20):
            fam, kind, comp, gap, bud = plan.next(n, fam_filter)
            hs = make_hidden(fam, n, rnd, 3)
            if hs is None:
                res.count(f"skipped-family:{fam}")
                continue
            cid += 1
            init = initial_variants(n, rnd, how)
            res.count(f"family:{fam}")
            res.count(f"computer:{comp}")
            res.count(f"gap:{gap}")
            res.count(f"n:{n}")
            res.count(f"initial:{how}")
            res.count(f"budget:{bud}")
            # numpy's float sums of normalised values round unless the values are short dyadics (family own_pow2)
            approx = linear and not all(Fraction(x).denominator <= 2 ** 20 and abs(x) < 2 ** 20 for h in hs for x in h.norm)
            res.count(f"linear-observation:{'tolerance' if approx else 'exact'}" if linear else "exact-protocol")
            Case.reuse_buffer_next = cid % 4 == 3
            c = Case(res, script, f"c{cid}", n, comp, gap, bud, init, hs, {"C08env": "C08", "C07env": "C07"}.get(arg, arg), kind,
                     linear=linear, np_seed=(rnd.randrange(2 ** 31) if linear else None), approx_lin=approx, **kw)
            if res.samples is not None and len(res.samples) < 3:
                res.sample({"n": n, "family": fam, "computer": comp, "gap": gap, "budget": bud, "initial": init,
                            "hidden_values": [rs(x) for x in hs[1].vals]})
            return c
        return None

    def drop(c):
        script.add(f"env drop {c.name}", "ok")

    hows3 = ["minimal", "minimal", "no_empty_grand", "extra", "dup"]
    if arg in ("C09", "C13", "C08env", "C07env"):
        solver_every, undo_every = arg == "C13", arg in ("C08env", "C07env")
        asym = (lambda f, k: f not in ("own_additive", "k_budget_generator", "factory", "factory_square", "predictible_factory")) if arg == "C13" else None
        # n = 3: every sequence
        rounds3 = (3 * len(fams) if quick else 12 * len(fams))
        for i in range(rounds3):
            if gen_budget.left() < gen_budget.seconds * 0.45:
                res.notes.append(f"n=3 part stopped after {i} configurations")
                break
            c = new_case(3, hows3[i % len(hows3)], fam_filter=asym)
            if c is None or not c.alive:
                continue
            walk_all_sequences(c, rnd, solver_every, undo_every, gen_budget)
            drop(c)
        # malformed constructor input
        if arg == "C09":
            for n in (3, 4):
                c = new_case(n, "missing_singleton")
                if c is not None and c.alive:
                    res.notes.append("constructor accepted an initial list without a singleton")
        # n = 4, 5: sampled walks with resets, unsteps, invalid actions
        i = 0
        while gen_budget.ok() and i < ((420 if arg == "C09" else 150) if quick else 2500):
            n = 4 if i % 3 != 2 else 5
            c = new_case(n, (["minimal", "extra2", "extra", "extra2", "no_empty_grand"] if arg == "C13" else
                             ["minimal", "minimal", "extra", "dup", "no_empty_grand"])[i % 5], fam_filter=asym)
            i += 1
            if c is None or not c.alive:
                continue
            L = 14 if n == 4 else 10
            kwargs = dict(malformed=(0.12 if arg == "C09" else 0.0), solver_p=(0.35 if arg == "C13" else 0.0),
                          undo_p=(0.45 if arg in ("C08env", "C07env") else 0.0), budget=gen_budget)
            if i % 4 == 1:
                # two live environments of the same player count, different hidden games, operated alternately: state that
                # leaks between environment objects (class-level caches, shared game objects) shows only here
                c2 = new_case(n, "minimal", fam_filter=asym)
                if c2 is not None and c2.alive:
                    res.count("interleaved-environments")
                    for _ in range(L // 2):
                        random_walk(c, rnd, 2, **kwargs)
                        random_walk(c2, rnd, 2, **kwargs)
                    drop(c2)
                    drop(c)
                    continue
            random_walk(c, rnd, L, **kwargs)
            drop(c)
    elif arg == "C16":
        i = 0
        while gen_budget.ok() and i < (200 if quick else 3000):
            n = 3 + i % 4
            how = ["minimal", "minimal", "minimal", "extra", "dup"][(i // 4) % 5]
            ff = (lambda f, k: f == "own_pow2") if i % 3 == 0 else None
            if n == 6:
                ff = (lambda f, k: f in ("own_pow2", "factory", "noisy_factory", "k_budget_generator", "own_additive", "xs", "graph"))
            c = new_case(n, how, linear=True, fam_filter=ff)
            i += 1
            if c is None or not c.alive:
                continue
            c.check_lin("new")
            m = len(c.explorable)
            for t in range(min(m + 3, 12 if quick else 30)):
                if not gen_budget.ok():
                    break
                K = c.known()
                sizes_left = sorted({popcount(x) for x in c.explorable if x not in K})
                r = rnd.random()
                if r < 0.07:
                    c.op_linreset()
                elif r < 0.14:
                    c.op_transfer()
                elif r < 0.25 or not sizes_left:
                    c.op_linstep(rnd.choice([-1, 0, 1, n - 1, n, n + 1] + list(range(n))))
                else:
                    c.op_linstep(rnd.choice(sizes_left))
            if c.nontrivial():
                res.nontrivial.add((c.name, "lin"))
            drop(c)
    else:
        raise ValueError(f"unknown stream argument {arg}")
    if arg in ("C08env", "C09"):
        mixed_edit_cases(res, rnd, tier, budget)
    res.notes.append(f"{cid} configurations, {len(script)} protocol lines")
    return finish(res, script)


def mixed_edit_cases(res, rnd, tier, budget) -> None:
    """Oracle on the real code only.  The environment does not own the knowledge: `env.incomplete_game` is public and is edited
    directly by callers (reveal / un-reveal / set_value without a recompute) between environment steps.  After the next
    step / unstep — which recomputes — bounds and reward must be those of a fresh game holding the current knowledge, and a
    further recompute must change nothing ("bounds depend only on current knowledge"; C08 / C09 'reward is the negated gap of
    freshly recomputed bounds')."""
    M = mods()
    from incomplete_cooperative.coalitions import Coalition, minimal_game_coalitions
    for ci in range(24 if tier == "quick" else 240):
        if budget.left() < 6:
            break
        n = 4 if ci % 3 else 5
        N = 2 ** n
        comp = ["superadditive", "superadditive_cached", "sam_apx_1"][ci % 3]
        samg = comp.startswith("sam")
        v = G.sam_game(n, rnd) if samg else G.sa_game(n, rnd, rnd.choice(["int", "dyadic"]), neg_singletons=ci % 4 == 1)
        fv = [float(x) for x in v]
        gapname = GAPS[ci % len(GAPS)]
        gapf = heavy().GAPS[gapname]
        env = M.ICG_Gym(M.Game(n, M.BOUNDS[comp]), lambda: table_game(n, v), minimal_game_coalitions(n), gapf)
        env.reset()
        known = {0, N - 1} | {1 << i for i in range(n)}
        ex = [c.id for c in env.explorable_coalitions]
        hist = []
        ctx = {"n": n, "values": [rs(x) for x in v], "computer": comp, "gap": gapname, "history": hist}

        def fresh_state():
            g2 = M.Game(n, M.BOUNDS[comp])
            ks = sorted(known)
            g2.set_known_values([fv[c] for c in ks], [Coalition(c) for c in ks])
            g2.compute_bounds()
            return fl(g2.get_lower_bounds()), fl(g2.get_upper_bounds()), float(gapf(g2))
        ok = True
        for step_ in range(8):
            unknown = [c for c in ex if c not in known]
            revealed = [c for c in ex if c in known]
            kind = rnd.choice(["edit-reveal", "edit-unreveal", "step", "step", "unstep"])
            try:
                if kind == "edit-reveal" and unknown:
                    c = rnd.choice(unknown)
                    env.incomplete_game.reveal_value(fv[c], Coalition(c))
                    known.add(c)
                    hist.append(f"game.reveal {c} (no recompute)")
                    continue
                if kind == "edit-unreveal" and revealed:
                    c = rnd.choice(revealed)
                    env.incomplete_game.unreveal_value(Coalition(c))
                    known.discard(c)
                    hist.append(f"game.unreveal {c} (no recompute)")
                    continue
                if kind == "step" and unknown:
                    c = rnd.choice(unknown)
                    out = env.step(ex.index(c))
                    known.add(c)
                    hist.append(f"env.step {c}")
                elif kind == "unstep" and revealed:
                    c = rnd.choice(revealed)
                    out = env.unstep(ex.index(c))
                    known.discard(c)
                    hist.append(f"env.unstep {c}")
                else:
                    continue
            except Exception as e:      # noqa: BLE001
                res.violation(f"a mixed history of game-level edits and environment steps raised {type(e).__name__}: {e}",
                              dict(ctx, history=list(hist)), key="env-mixed:raised")
                ok = False
                break
            res.evaluations += 1
            res.count("mixed-edit:" + kind)
            ig = env.incomplete_game
            got = (fl(ig.get_lower_bounds()), fl(ig.get_upper_bounds()), -float(out[1]))
            want = fresh_state()
            if got[0] != want[0] or got[1] != want[1] or abs(got[2] - want[2]) > 1e-12 * max(1.0, abs(want[2])):
                res.violation("after game-level edits (without recompute) followed by an environment step / unstep, bounds or reward are "
                              "not those of a fresh game with the current knowledge", dict(ctx, history=list(hist)), key="env-mixed:history")
                ok = False
                break
            ig.compute_bounds()
            if fl(ig.get_lower_bounds()) != want[0] or fl(ig.get_upper_bounds()) != want[1]:
                res.violation("recomputing after an environment step changed the bounds (the step's own recompute was partial)",
                              dict(ctx, history=list(hist)), key="env-mixed:idempotence")
                ok = False
                break
        if ok and len(hist) >= 4:
            res.nontrivial.add(("mixed", ci))


# ----------------------------------------------------------------------------------------------
# replay of a stored failing input on the real code

def replay_mixed(inp: dict):
    """re-run a recorded mixed history (game-level edits without recompute + environment steps) on the real code"""
    M = heavy()
    from incomplete_cooperative.coalitions import Coalition, minimal_game_coalitions
    n, comp, gapf = inp["n"], inp["computer"], M.GAPS[inp["gap"]]
    v = [Fraction(x) for x in inp["values"]]
    fv = [float(x) for x in v]
    env = M.ICG_Gym(M.Game(n, M.BOUNDS[comp]), lambda: table_game(n, v), minimal_game_coalitions(n), gapf)
    env.reset()
    ex = [c.id for c in env.explorable_coalitions]
    known = {0, 2 ** n - 1} | {1 << i for i in range(n)}
    for h in inp["history"]:
        w = h.split()
        c = int(w[1])
        if w[0] == "game.reveal":
            env.incomplete_game.reveal_value(fv[c], Coalition(c)); known.add(c)
            continue
        if w[0] == "game.unreveal":
            env.incomplete_game.unreveal_value(Coalition(c)); known.discard(c)
            continue
        out = (env.step if w[0] == "env.step" else env.unstep)(ex.index(c))
        (known.add if w[0] == "env.step" else known.discard)(c)
        g2 = M.Game(n, M.BOUNDS[comp])
        ks = sorted(known)
        g2.set_known_values([fv[k] for k in ks], [Coalition(k) for k in ks])
        g2.compute_bounds()
        ig = env.incomplete_game
        if fl(ig.get_lower_bounds()) != fl(g2.get_lower_bounds()) or fl(ig.get_upper_bounds()) != fl(g2.get_upper_bounds()) \
                or abs(-float(out[1]) - float(gapf(g2))) > 1e-12 * max(1.0, abs(float(gapf(g2)))):
            return True, f"reproduced on the real code: after `{h}` bounds / reward are not those of a fresh game with the current knowledge"
        ig.compute_bounds()
        if fl(ig.get_lower_bounds()) != fl(g2.get_lower_bounds()) or fl(ig.get_upper_bounds()) != fl(g2.get_upper_bounds()):
            return True, f"reproduced on the real code: recomputing after `{h}` changes the bounds"
    return False, "the stored mixed history no longer violates the property on the real code"


def replay(prop: str, payload: dict):
    heavy()
    inp = payload["input"]
    if (payload.get("key") or "").startswith("env-mixed") or ("history" in inp and "values" in inp and "computer" in inp):
        return replay_mixed(inp)
    res = StreamResult("replay")
    script = Script()
    n = inp["n"]
    hs = [Hidden(table_game(n, [Fraction(x) for x in vals]), n) for vals in inp["hidden_values"]]
    Case.reuse_buffer_next = bool(inp.get("reuse_buffer"))
    c = Case(res, script, "r", n, inp["computer"], inp["gap"], inp["budget"], inp["initial"], hs, prop,
             linear=inp.get("linear", False), np_seed=inp.get("np_seed"), approx_lin=True)
    if c.alive:
        for op in inp["ops"]:
            if res.violations:
                break
            if op[0] == "reset":
                c.op_reset()
            elif op[0] == "step":
                c.op_step(op[1])
            elif op[0] == "unstep":
                c.op_step(op[1], un=True)
            elif op[0] == "solve":
                c.op_solve(op[1], op[2])
            elif op[0] == "transfer":
                c.op_transfer()
            elif op[0] == "linreset":
                c.op_linreset()
            elif op[0] == "linstep":
                c.op_linstep(op[1])
        if "action" in inp and not res.violations and payload.get("key", "").endswith(":undo"):
            c.op_undo(inp["action"])
    if res.violations:
        return True, "reproduced on the real code: " + res.violations[0]["what"]
    return False, "the stored input no longer violates the property on the real code"
