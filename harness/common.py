"""Shared machinery of the correspondence harness (DESIGN.md section 2).

Everything random derives from one `random.Random(VERIF_SEED)` per run.  Numbers cross the line
protocol as exact rationals.  Python exceptions are mapped to the model's `Err` enum.
"""
from __future__ import annotations

import json
import os
import random
import re
import subprocess
import sys
import time
from dataclasses import dataclass, field
from fractions import Fraction
from pathlib import Path
from typing import Any, Callable, Iterable

VERIF = Path(__file__).resolve().parent.parent
LEAN = Path(os.environ.get("VERIF_LEAN_DIR") or (VERIF / "lean")).resolve()
REPO = Path(os.environ.get("VERIF_REPO", "/repo")).resolve()
SEED = int(os.environ.get("VERIF_SEED", "0") or 0)
DRIVER_EXE = LEAN / ".lake" / "build" / "bin" / "driver"
GUARD = "INCOMPLETE_COOPERATIVE_VERIF"

os.environ.setdefault("PYTHONDONTWRITEBYTECODE", "1")
sys.dont_write_bytecode = True
os.environ[GUARD] = "1"
if str(REPO) not in sys.path:
    sys.path.insert(0, str(REPO))


def rng(tag: str = "") -> random.Random:
    """A PRNG derived from VERIF_SEED and a stream tag (so streams do not disturb each other)."""
    return random.Random(f"{SEED}:{tag}")


# ----------------------------------------------------------------------------------------------
# exact numbers

def frac(x: Any) -> Fraction:
    """Exact rational of a Python / numpy number (floats are dyadic rationals)."""
    if isinstance(x, Fraction):
        return x
    if isinstance(x, bool):
        return Fraction(int(x))
    if isinstance(x, int):
        return Fraction(x)
    return Fraction(float(x))


def rs(x: Any) -> str:
    """Canonical protocol text of an exact number."""
    f = frac(x)
    return str(f.numerator) if f.denominator == 1 else f"{f.numerator}/{f.denominator}"


def rlist(xs: Iterable[Any]) -> str:
    xs = list(xs)
    return ",".join(rs(x) for x in xs) if xs else "-"


def nlist(xs: Iterable[int] | None) -> str:
    if xs is None:
        return "none"
    xs = list(xs)
    return ",".join(str(int(x)) for x in xs) if xs else "-"


def parse_rlist(s: str) -> list[Fraction]:
    return [] if s in ("-", "") else [Fraction(x) for x in s.split(",")]


def parse_nlist(s: str) -> list[int]:
    return [] if s in ("-", "") else [int(x) for x in s.split(",")]


def err_kind(e: BaseException) -> str:
    """Map a Python exception to the model's outcome enum."""
    import numpy as np
    if isinstance(e, np.exceptions.AxisError):
        return "err:other"
    if isinstance(e, AssertionError):
        return "err:assert"
    if isinstance(e, ValueError):
        return "err:value"
    if isinstance(e, IndexError):
        return "err:index"
    if isinstance(e, AttributeError):
        return "err:attr"
    return "err:other"


def is_exact_float(x: Fraction) -> bool:
    """Is the rational exactly representable as a float64?"""
    try:
        return Fraction(float(x)) == x
    except OverflowError:
        return False


# ----------------------------------------------------------------------------------------------
# the model driver

class DriverError(RuntimeError):
    pass


DRIVER_SAMPLES: list[tuple[list[str], list[str]]] = []     # prefixes of driver batches, for the interpreter cross-check


def crosscheck_interpreter(max_lines: int = 1500, timeout: float = 900.0) -> dict:
    """Thorough tier: re-run a prefix of this run's driver batches through Lean's own evaluator
    (`lake env lean --run Driver.lean`, no native code generation involved) and compare with what the compiled
    executable answered.  Narrows the trust in the C back end / linker; the definitions themselves are kernel-checked."""
    out = {"batches": 0, "lines": 0, "mismatches": []}
    for lines, answers in DRIVER_SAMPLES[:6]:
        ls, an = lines[:max_lines], answers[:max_lines]
        try:
            p = subprocess.run(["lake", "env", "lean", "--run", "Driver.lean"], cwd=LEAN, input="\n".join(ls) + "\n",
                               capture_output=True, text=True, timeout=timeout)
        except subprocess.TimeoutExpired:
            out.setdefault("timeouts", 0)
            out["timeouts"] += 1
            continue
        got = p.stdout.split("\n")
        if got and got[-1] == "":
            got.pop()
        out["batches"] += 1
        out["lines"] += len(ls)
        if p.returncode != 0 or len(got) != len(ls):
            out["mismatches"].append({"error": f"rc={p.returncode}, {len(got)} answers for {len(ls)} lines", "stderr": p.stderr[-300:]})
            continue
        for ln, a, b in zip(ls, an, got):
            if a != b:
                out["mismatches"].append({"line": ln[:300], "compiled": a[:300], "interpreted": b[:300]})
                if len(out["mismatches"]) > 5:
                    break
    return out


def run_driver(lines: list[str], timeout: float = 2400.0) -> list[str]:
    """Feed operation lines to a fresh model driver process; one answer line per operation."""
    if not lines:
        return []
    if not DRIVER_EXE.exists():
        raise DriverError(f"driver executable missing: {DRIVER_EXE}")
    for ln in lines:
        if "\n" in ln:
            raise DriverError("newline inside a protocol line")
    p = subprocess.run([str(DRIVER_EXE)], input="\n".join(lines) + "\n", capture_output=True,
                       text=True, timeout=timeout)
    out = p.stdout.split("\n")
    if out and out[-1] == "":
        out.pop()
    if p.returncode != 0 or len(out) != len(lines):
        raise DriverError(f"driver rc={p.returncode}, {len(out)} answers for {len(lines)} lines; "
                          f"stderr={p.stderr[-500:]}")
    if len(DRIVER_SAMPLES) < 6:
        DRIVER_SAMPLES.append((lines[:3000], out[:3000]))
    return out


class Script:
    """Collects protocol lines together with the implementation's answers, then diffs against the model.

    `add(line, impl_answer, ctx)`: `impl_answer=None` means the line is not compared (set-up line whose
    model answer must merely not be `bad-op`).
    """

    def __init__(self) -> None:
        self.lines: list[str] = []
        self.impl: list[str | None] = []
        self.ctx: list[Any] = []

    def add(self, line: str, impl_answer: str | None = None, ctx: Any = None) -> None:
        self.lines.append(line)
        self.impl.append(impl_answer)
        self.ctx.append(ctx)

    def __len__(self) -> int:
        return len(self.lines)

    def diff(self, compare: Callable[[str, str], bool] | None = None) -> list[dict]:
        """Run the model; return the list of disagreements (with enough context to replay)."""
        outs = self.outs = run_driver(self.lines)
        bad = []
        for i, (ln, want, got) in enumerate(zip(self.lines, self.impl, outs)):
            if got == "bad-op":
                bad.append({"line_no": i, "line": ln, "impl": want, "model": got, "ctx": self.ctx[i],
                            "kind": "protocol"})
                continue
            if want is None:
                continue
            same = (want == got) if compare is None else compare(want, got)
            if not same:
                bad.append({"line_no": i, "line": ln, "impl": want, "model": got, "ctx": self.ctx[i],
                            "kind": "mismatch"})
        return bad

    def prefix_for(self, line_no: int, keep: Callable[[str], bool] | None = None) -> list[str]:
        """Lines up to and including `line_no` (optionally filtered) — a self-contained replay."""
        ls = self.lines[: line_no + 1]
        return [x for x in ls if keep is None or keep(x)]


# ----------------------------------------------------------------------------------------------
# stream results

@dataclass
class StreamResult:
    """What one correspondence stream did.

    disagreements : model ≠ implementation (not by itself a violation)
    violations    : the property's own oracle failed on the REAL code for a concrete input
    """
    name: str
    evaluations: int = 0
    nontrivial: set = field(default_factory=set)
    samples: list = field(default_factory=list)
    distribution: dict = field(default_factory=dict)
    disagreements: list = field(default_factory=list)
    violations: list = field(default_factory=list)
    exhaustive: bool = False
    notes: list = field(default_factory=list)

    def count(self, key: str, k: int = 1) -> None:
        self.distribution[key] = self.distribution.get(key, 0) + k

    def sample(self, s: Any, limit: int = 3) -> None:
        if len(self.samples) < limit:
            self.samples.append(s)

    def violation(self, what: str, replay: dict, key: str | None = None) -> None:
        """`key` identifies the failing site (input class / call site) for the known-findings matcher."""
        if len(self.violations) < 50:
            self.violations.append({"what": what, "replay": replay, "key": key})

    def disagree(self, what: str, detail: dict) -> None:
        if len(self.disagreements) < 50:
            self.disagreements.append({"what": what, **detail})


def jsonable(x: Any) -> Any:
    import numpy as np
    if isinstance(x, Fraction):
        return rs(x)
    if isinstance(x, (np.integer,)):
        return int(x)
    if isinstance(x, (np.floating,)):
        return float(x)
    if isinstance(x, np.ndarray):
        return [jsonable(v) for v in x.tolist()]
    if isinstance(x, dict):
        return {str(k): jsonable(v) for k, v in x.items()}
    if isinstance(x, (list, tuple, set, frozenset)):
        return [jsonable(v) for v in x]
    if isinstance(x, (str, int, float, bool)) or x is None:
        return x
    return repr(x)


class Budget:
    """Wall-clock budget for a stream; streams poll `left()` and stop generating when it runs out."""

    def __init__(self, seconds: float) -> None:
        self.t0 = time.time()
        self.seconds = seconds

    def left(self) -> float:
        return self.seconds - (time.time() - self.t0)

    def ok(self) -> bool:
        return self.left() > 0


def optimized_probe(res, mode: str, seed: int, key: str) -> None:
    """run harness/probe_optimized.py in two fresh interpreters — ordinary and `python -O` (assert statements compiled away) — on the
    implementation under test; a failure in either is a violation with the interpreter flag as part of the replay"""
    import json as _json
    import subprocess as _sp
    import sys as _sys
    from concurrent.futures import ThreadPoolExecutor
    script = str(Path(__file__).resolve().parent / "probe_optimized.py")

    def one(flag):
        env = dict(os.environ, PYTHONPATH=str(REPO), PYTHONDONTWRITEBYTECODE="1")
        env.pop("PYTHONOPTIMIZE", None)
        p = _sp.run([_sys.executable] + ([flag] if flag else []) + [script, mode, str(seed)], capture_output=True, text=True, env=env, timeout=900)
        for line in p.stdout.splitlines():
            if line.startswith("PROBE "):
                return _json.loads(line[6:])
        return {"optimize": flag, "failures": [], "crashed": (p.stderr or p.stdout)[-300:]}
    with ThreadPoolExecutor(max_workers=2) as ex:
        outs = list(ex.map(one, ("", "-O")))
    for flag, o in zip(("", "-O"), outs):
        res.evaluations += 1
        res.count(f"interpreter-flag-probe:{mode}:{'-O' if flag else 'default'}")
        if o.get("crashed"):
            res.notes.append(f"probe {mode} under python {flag or '(default)'} could not run: {o['crashed']}")
        elif o["failures"]:
            res.violation(f"in a fresh interpreter started as `python {flag}`".rstrip() + f" ({mode} probe): " + "; ".join(o["failures"][:3]),
                          {"probe": mode, "interpreter_flag": flag, "seed": seed, "failures": o["failures"][:6],
                           "how": f"PYTHONPATH=<repo> python {flag} harness/probe_optimized.py {mode} {seed}"}, key=key)
            return
    res.nontrivial.add(("interpreter-flag-probe", mode))
