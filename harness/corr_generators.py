"""Correspondence stream `generators` (C10): the live `GENERATORS` registry vs ICG.Model.Generators.

For every registry key except `convex`, every n of the tier (quick 3..5, thorough 3..8) and seeds drawn from
`rnd`, the REAL generator is called with a recording **subclass** of `numpy.random.Generator` (passed through
the public `generator` parameter), so that the Lean model can be fed the very same draws (DESIGN 3.5):

  family (recognised by the registered *function* and its `partial` keywords, not by the key's name)
    factory_generator            draws: owner (`integers`) unless fixed, weights (`uniform`) if random_weights;
                                 value_fn id / one / square in the model, `exp` (or an unknown value_fn) applied by the
                                 harness to the model's weight sums
    predictible_factory          the module's `_LAST_OWNER` before the call is the input
    factory_cheerleader(_next)   owner, the rejection-loop draws of the cheerleader
    graph_generator, graph_gen_to_game   model input = the weight matrix the game object exposes
    cycle                        the drawn permutation (matrix and values compared)
    xos / xos_norandom           `additive` calls `np.random.Generator.random(generator)` unbound and bypasses the
                                 recorder: the k·n uniform draws are replayed from an identically seeded twin
    xs                           n `random()` draws, or (player, value) pairs for `num_unit_demand`
    oxs                          k·n `random()` draws
    k_budget_generator           k;   covg_fn_generator: the n chosen indices into the non-empty-subset list
  A key whose function / keywords are not recognised has no model family: reported in `notes`, oracle only.

Values are compared exactly (as strings) when the construction is exact in float64 (integer families, unit
weights, max/negation only); with relative tolerance 1e-12 (plus 1e-15 absolute) where the code adds / divides
floats (random weights, xos, oxs, float graph weights).

Oracle on the REAL output (independent of the model), every case:  the call returns (an exception is a violation
with key `generator:<key>:<ExceptionName>`);  `number_of_players == n`;  `get_values()` has length 2^n and dtype
float64, all finite;  `v[0] == 0`;  superadditive (exact rationals of the returned floats, the library's own
relative tolerance 1e-9);  monotone non-increasing for the XOS / XS / OXS / K-budget / coverage functions;  two
identically seeded calls give identical games (except `graph_generator` weight-distribution keys, which ignore
the supplied generator, and `predictible_factory`).  Keys: `generator:<key>:<clause>`.

non-trivial case: ≥ 3 distinct values and not invariant under any transposition of two players;
distinct by (key, n, seed).
"""
from __future__ import annotations

import math
import warnings
from fractions import Fraction
from functools import partial

import copy
import time

import numpy as np

import gen_games as G
from common import Budget, Script, StreamResult, err_kind, frac, nlist, rlist, rs

RTOL_SA = Fraction(1, 10 ** 9)
RTOL_CMP = 1e-12
ATOL_CMP = 1e-15


def make_recorder():
    class Rec(np.random.Generator):
        """records what the generator under test draws; otherwise a plain PCG64 generator"""

        def __init__(self, seed):
            super().__init__(np.random.PCG64(seed))
            self.log = []

        def _rec(self, name, out):
            self.log.append((name, np.array(out).tolist()))
            return out

        def integers(self, *a, **k):
            return self._rec("integers", super().integers(*a, **k))

        def uniform(self, *a, **k):
            return self._rec("uniform", super().uniform(*a, **k))

        def random(self, *a, **k):
            return self._rec("random", super().random(*a, **k))

        def choice(self, *a, **k):
            return self._rec("choice", super().choice(*a, **k))

        def permutation(self, *a, **k):
            return self._rec("permutation", super().permutation(*a, **k))
    return Rec


def make_boundary(Rec):
    class Boundary(Rec):
        """a generator whose draws sit on the BOUNDARY of what each distribution can return (the largest / smallest index, the ends
        of the interval): values a seeded stream produces with probability ~1e-4 or less, and exactly where off-by-one errors
        live.  Calls it cannot place on a boundary fall through to the underlying PCG64 stream."""

        def __init__(self, seed, side):
            super().__init__(seed)
            self.side = side            # "hi" | "lo" | "mixed"
            self.calls = {"integers": 0, "choice": 0}      # only the first two calls of each kind sit on the boundary: rejection
            #                                                  loops ("draw again until it differs") must be able to end

        def _pick(self, k):
            return {"hi": True, "lo": False}.get(self.side, k % 2 == 0)

        def integers(self, low, high=None, size=None, dtype=np.int64, endpoint=False):
            if high is None:
                low, high = 0, low
            try:
                lo_, hi_ = int(low), int(high) - (0 if endpoint else 1)
            except Exception:       # noqa: BLE001    array-valued bounds: leave it to numpy
                return super().integers(low, high, size=size, dtype=dtype, endpoint=endpoint)
            self.calls["integers"] += 1
            if hi_ < lo_ or self.calls["integers"] > 2:
                return super().integers(low, high, size=size, dtype=dtype, endpoint=endpoint)
            if size is None:
                return self._rec("integers", dtype(hi_ if self._pick(len(self.log)) else lo_))
            out = np.array([hi_ if self._pick(i) else lo_ for i in range(int(np.prod(size)))], dtype=dtype).reshape(size)
            return self._rec("integers", out)

        def choice(self, a, size=None, replace=True, p=None, axis=0, shuffle=True):
            self.calls["choice"] += 1
            if p is not None or not replace or not isinstance(a, (int, np.integer)) or self.calls["choice"] > 2:
                return super().choice(a, size=size, replace=replace, p=p, axis=axis, shuffle=shuffle)
            if size is None:
                return self._rec("choice", np.int64(a - 1 if self._pick(len(self.log)) else 0))
            out = np.array([a - 1 if self._pick(i) else 0 for i in range(int(np.prod(size)))], dtype=np.int64).reshape(size)
            return self._rec("choice", out)
    return Boundary


# ------------------------------------------------------------------------------------------------
# family recognition

def family_of(key, fn, GM):
    """(family, keywords) of a registry entry, or (None, reason)"""
    kw = {}
    f = fn
    while isinstance(f, partial):
        if f.args:
            return None, "positional partial arguments"
        kw = {**f.keywords, **kw}
        f = f.func
    table = {
        GM.factory_generator: "factory", GM.predictible_factory_generator: "predictible",
        GM.factory_cheerleader_generator: "cheer", GM.factory_cheerleader_next_generator: "cheernext",
        GM.graph_generator: "graphdist", GM.graph_gen_to_game: "graphnx", GM.cycle: "cycle",
        GM.xos: "xos", GM.xos_norandom: "xos42", GM.xs: "xs", GM.oxs: "oxs",
        GM.k_budget_generator: "kbudget", GM.covg_fn_generator: "coverage",
    }
    fam = table.get(f)
    if fam is None:
        return None, f"unrecognised generator function {getattr(f, '__name__', f)!r}"
    allowed = {
        "factory": {"owner", "value_fn", "random_weights"}, "predictible": set(), "cheer": set(), "cheernext": set(),
        "graphdist": {"dist_fn"}, "graphnx": {"graph_gen"}, "cycle": set(),
        "xos": {"number_of_additive", "normalize", "normalize_additive"},
        "xos42": {"number_of_additive", "normalize", "normalize_additive"},
        "xs": {"num_unit_demand"}, "oxs": {"number_of_xs", "normalize"}, "kbudget": set(),
        "coverage": {"universum_mult", "normalize"},
    }[fam]
    if set(kw) - allowed:
        return None, f"unrecognised keywords {sorted(set(kw) - allowed)}"
    return fam, kw


SAM_FAMILIES = {"xos", "xos42", "xs", "oxs", "kbudget", "coverage"}
SEED_IGNORING = {"graphdist", "predictible"}


# ------------------------------------------------------------------------------------------------
# oracle

def sa_witness(fv, n):
    """first (a, b) violating superadditivity beyond the library's relative tolerance, on exact rationals"""
    N = 2 ** n
    for a in range(1, N):
        rest = (N - 1) ^ a
        for b in G.submasks(rest):
            if b > a:
                lhs, rhs = fv[a] + fv[b], fv[a | b]
                if lhs > rhs and abs(lhs - rhs) > RTOL_SA * abs(rhs):
                    return a, b
    return None


def mono_witness(fv, n):
    N = 2 ** n
    for c in range(N):
        for i in range(n):
            if c >> i & 1 and fv[c ^ (1 << i)] < fv[c]:
                return c ^ (1 << i), c
    return None


def oracle_values(key, fam, n, game):
    """clauses about one returned game → list of (clause, detail)"""
    bad = []
    if getattr(game, "number_of_players", None) != n:
        return [("number-of-players", {"got": getattr(game, "number_of_players", None)})]
    vals = game.get_values()
    if not isinstance(vals, np.ndarray) or vals.shape != (2 ** n,):
        return [("length", {"shape": getattr(vals, "shape", None)})]
    if vals.dtype != np.float64:
        bad.append(("dtype", {"dtype": str(vals.dtype)}))
    if not np.all(np.isfinite(vals)):
        return bad + [("not-finite", {"values": vals.tolist()})]
    if vals[0] != 0:
        bad.append(("empty-coalition-not-zero", {"v0": float(vals[0])}))
    if hasattr(game, "full") and not game.full:
        bad.append(("incomplete", {}))
    fv = [frac(x) for x in vals]
    w = sa_witness(fv, n)
    if w is not None:
        bad.append(("not-superadditive", {"a": w[0], "b": w[1], "va": float(vals[w[0]]), "vb": float(vals[w[1]]),
                                          "vab": float(vals[w[0] | w[1]])}))
    if fam in SAM_FAMILIES or (fam is None and any(t in key for t in ("xos", "xs", "budget", "covg"))):
        m = mono_witness(fv, n)
        if m is not None:
            bad.append(("not-monotone-decreasing", {"sub": m[0], "super": m[1], "vsub": float(vals[m[0]]),
                                                    "vsuper": float(vals[m[1]])}))
    return bad


def call(GM, key, n, gen):
    with warnings.catch_warnings():
        warnings.simplefilter("ignore")
        return GM.GENERATORS[key](n, gen)


# ------------------------------------------------------------------------------------------------
# model lines

def close(a, b):
    return abs(a - b) <= ATOL_CMP + RTOL_CMP * max(abs(a), abs(b))


def parse_vals(out, tag="V="):
    for part in out.split(" "):
        if part.startswith(tag):
            body = part[len(tag):]
            return [] if body in ("", "-") else [Fraction(x) for x in body.split(",")]
    raise ValueError(f"no {tag} in {out[:80]}")


def model_case(GM, key, fam, kw, n, seed, log, game, last_owner):
    """→ list of (line, mode, expected, post) ; mode ∈ exact | approx | expfn ; or None when no model applies

    exact : expected is the answer string;  approx : expected is the float vector (tolerance);
    expfn : `post` is applied to the model's values before a tolerance comparison."""
    vals = game.get_values()
    V = f"V={rlist(vals)}"
    ints = [x for k_, x in log if k_ == "integers"]
    if fam in ("factory", "predictible"):
        lines = []
        if fam == "predictible":
            owner = (last_owner + 1) % n
            lines.append((f"gen predowner {last_owner} {n}", "exact", str(GM._LAST_OWNER), None))
            value_fn, random_weights = None, False
        else:
            owner = kw["owner"] if kw.get("owner") is not None else int(ints[0])
            value_fn, random_weights = kw.get("value_fn"), bool(kw.get("random_weights"))
        if random_weights:
            ws = [x for k_, x in log if k_ == "uniform"][0]
        else:
            ws = [1] * n
        fn = {None: "id", GM._fac_one_fn: "one", GM._fac_sq_fn: "sq"}.get(value_fn)
        if fn is not None:
            lines.append((f"gen factory {n} {owner} {rlist(ws)} {fn}", "approx" if random_weights else "exact",
                          vals if random_weights else V, None))
        else:
            # exp or an unknown value function: the model supplies owner-gating and the weight sums
            def post(mv, owner=owner, value_fn=value_fn):
                return [float(value_fn(float(x))) if c >> owner & 1 else 0.0 for c, x in enumerate(mv)]
            lines.append((f"gen factory {n} {owner} {rlist(ws)} id", "expfn", vals, post))
        return lines
    if fam == "cheer":
        owner, draws = int(ints[0]), [int(x) for x in ints[1:]]
        cheer = draws[-1]
        return [(f"gen cheerpick {owner} {nlist(draws)}", "exact", str(cheer), None),
                (f"gen cheer {n} {owner} {cheer}", "exact", V, None)]
    if fam == "cheernext":
        return [(f"gen cheernext {n} {int(ints[0])}", "exact", V, None)]
    if fam in ("graphdist", "graphnx"):
        M = np.array(game._graph_matrix, dtype=float)
        exact = bool(np.all(M == np.round(M)))
        return [(f"gen graph {n} {rlist(M.flatten())}", "exact" if exact else "approx", V if exact else vals, None)]
    if fam == "cycle":
        perm = [x for k_, x in log if k_ == "permutation"][0]
        return [(f"gen cycle {nlist(perm)}", "exact", f"M={rlist(np.array(game._graph_matrix).flatten())} {V}", None)]
    if fam in ("xos", "xos42"):
        k = kw.get("number_of_additive", 6)
        twin = np.random.default_rng(42 if fam == "xos42" else seed)
        ws = [twin.random() for _ in range(k * n)]
        return [(f"gen xos {n} {k} {rlist(ws)} {int(bool(kw.get('normalize', True)))} "
                 f"{int(bool(kw.get('normalize_additive', False)))}", "approx", vals, None)]
    if fam == "xs":
        ud = kw.get("num_unit_demand", 0)
        rnds = [x for k_, x in log if k_ == "random"]
        if ud:
            return [(f"gen xsud {n} {nlist(ints)} {rlist(rnds)}", "exactV", V, None)]
        return [(f"gen xs {n} {rlist(rnds)}", "exact", V, None)]
    if fam == "oxs":
        k = kw.get("number_of_xs", 6)
        rnds = [x for k_, x in log if k_ == "random"]
        return [(f"gen oxs {n} {k} {rlist(rnds)} {int(bool(kw.get('normalize', True)))}", "approx", vals, None)]
    if fam == "kbudget":
        return [(f"gen kbudget {n} {int(ints[0])}", "exact", V, None)]
    if fam == "coverage":
        idx = [x for k_, x in log if k_ == "choice"][0]
        return [(f"gen coverage {n} {kw.get('universum_mult', 2)} {nlist(idx)}", "exact", V, None)]
    return None


# ------------------------------------------------------------------------------------------------

def run(tier: str, budget: Budget, rnd, arg) -> StreamResult:
    from incomplete_cooperative import generators as GM

    Rec = make_recorder()
    res = StreamResult("generators")
    script = Script()
    post_checks = []      # (line_no, mode, expected, post, ctx)
    ns = (3, 4, 5) if tier == "quick" else (3, 4, 5, 6, 7, 8)
    rounds = 6 if tier == "quick" else 40
    keys = [k for k in GM.GENERATORS if k != "convex"]
    fams = {}
    for key in keys:
        fam, kw = family_of(key, GM.GENERATORS[key], GM)
        fams[key] = (fam, kw)
        if fam is None:
            res.notes.append(f"registry key {key!r} has no model family ({kw}); checked by the oracle only")
    res.count("registry-keys", len(keys))
    res.count("keys-with-model-family", sum(1 for k in keys if fams[k][0] is not None))

    per_key = {}

    def violate(key, n, seed, clause, detail):
        k_ = f"generator:{key}:{clause}"
        per_key[k_] = per_key.get(k_, 0) + 1
        res.count(f"violations:{k_}")
        if per_key[k_] > 3:          # keep room in the (capped) violation list for other failing sites
            return
        res.violation(f"generator {key!r}, n={n}, seed={seed}: {clause} {detail}",
                      {"kind": "generator", "key": key, "n": n, "seed": seed, "clause": clause, "detail": detail},
                      key=f"generator:{key}:{clause}")

    # ---- boundary draws and numpy-integer player counts (oracle on the real code only: in class, no raise)
    Boundary = make_boundary(Rec)
    NUMPY_COUNT_REJECTED_BY_THE_UNCHANGED_TREE = {"factory_cheerleader_next"}      # domain note: its numpy cheerleader draw + n arithmetic
    for key in keys:
        if not budget.ok():
            break
        fam, kw = fams[key]
        if fam in SEED_IGNORING:
            continue
        for n_b, side in ((3, "hi"), (4, "lo"), (5, "mixed"), (8, "hi")) if tier == "quick" else \
                [(n_, sd) for n_ in (3, 4, 5, 6, 7, 8) for sd in ("hi", "lo", "mixed")]:
            seed = rnd.randrange(2 ** 31)
            try:
                game = call(GM, key, n_b, Boundary(seed, side))
            except Exception as e:      # noqa: BLE001
                violate(key, n_b, seed, type(e).__name__, f"with every integers()/choice() draw on the {side} boundary of its range: {str(e)[:160]}")
                continue
            res.evaluations += 1
            res.count(f"boundary-draws:{side}")
            for clause, detail in oracle_values(key, fam, n_b, game)[:1]:
                violate(key, n_b, seed, clause, dict(detail, draws=f"on the {side} boundary"))
        # the player count as a numpy integer (an element of np.arange(3, 9), rng.integers(3, 9)): the same game as for the Python int
        if key not in NUMPY_COUNT_REJECTED_BY_THE_UNCHANGED_TREE:
            n_i = 3 + (len(key) % 3)
            seed = rnd.randrange(2 ** 31)
            try:
                v_int = np.array(call(GM, key, n_i, np.random.default_rng(seed)).get_values())
            except Exception:       # noqa: BLE001     reported by the main loop
                continue
            try:
                v_np = np.array(call(GM, key, np.int64(n_i), np.random.default_rng(seed)).get_values())
                res.count("player-count:np.int64")
                if not np.array_equal(v_int, v_np):
                    violate(key, n_i, seed, "numpy-player-count", "np.int64(n) gives another game than the Python int n")
            except Exception as e:      # noqa: BLE001
                violate(key, n_i, seed, "numpy-player-count", f"np.int64(n) raises {type(e).__name__}: {str(e)[:120]} (the Python int n works)")
    first_seen = []      # (key, n, seed, values) of seed-respecting calls, re-requested at the end in another order
    stop = False
    for rnd_i in range(rounds):
        # the property quantifies over n = 3..8: the quick tier visits 8, 7, 6 once per key, FIRST (tables of 256 entries,
        # uint8 arithmetic and the like break at exactly these sizes), then samples 3..5
        for n in ((8, 7, 6) + tuple(ns) if tier == "quick" and rnd_i == 0 else ns):
            if n >= 7 and rnd_i >= 8:
                continue
            for key in keys:
                if not budget.ok():
                    stop = True
                    break
                fam, kw = fams[key]
                seed = rnd.randrange(2 ** 31)
                rec = Rec(seed)
                last_owner = GM._LAST_OWNER
                try:
                    game = call(GM, key, n, rec)
                except Exception as e:
                    violate(key, n, seed, type(e).__name__, str(e)[:200])
                    res.count(f"raised:{key}:{type(e).__name__}")
                    res.evaluations += 1
                    continue
                res.evaluations += 1
                res.count(f"family:{fam}")
                res.count(f"n:{n}")
                bad = oracle_values(key, fam, n, game)
                vals = np.array(game.get_values())
                # determinism: an identically seeded plain generator gives the identical game
                if fam not in SEED_IGNORING and not bad:
                    try:
                        v2 = np.array(call(GM, key, n, np.random.default_rng(seed)).get_values())
                        v3 = np.array(call(GM, key, n, np.random.default_rng(seed)).get_values())
                        if not np.array_equal(v2, v3):
                            bad.append(("not-deterministic", {"first": v2.tolist()[:8], "second": v3.tolist()[:8]}))
                        elif not np.array_equal(vals, v2):
                            res.disagree("recording generator changes the game (harness assumption broken)",
                                         {"line": f"{key} n={n} seed={seed}", "impl": v2.tolist()[:8], "model": vals.tolist()[:8], "ctx": None})
                    except Exception as e:
                        bad.append((type(e).__name__, str(e)[:200]))
                for clause, detail in bad[:1]:
                    violate(key, n, seed, clause, detail)
                if bad:
                    continue
                if fam not in SEED_IGNORING:
                    first_seen.append((key, n, seed, vals, game))
                fv = [frac(x) for x in vals]
                if len(set(fv)) >= 3 and G.asymmetric(fv, n):
                    res.nontrivial.add((key, n, seed))
                if fam is None:
                    continue
                try:
                    lines = model_case(GM, key, fam, kw, n, seed, rec.log, game, last_owner)
                except Exception as e:
                    res.disagree("draws of the generator could not be recovered from the recorder",
                                 {"line": f"{key} n={n} seed={seed}", "impl": repr(rec.log)[:300],
                                  "model": f"{type(e).__name__}: {e}", "ctx": None})
                    continue
                ctx = {"key": key, "n": n, "seed": seed}
                for line, mode, expected, post in lines or []:
                    if mode == "exact":
                        script.add(line, expected, ctx)
                    else:
                        script.add(line, None, ctx)
                        # snapshot: the returned game object is deliberately modified later (history re-calls below)
                        snap = expected.copy() if isinstance(expected, np.ndarray) else copy.deepcopy(expected)
                        post_checks.append((len(script) - 1, mode, snap, post, ctx))
                    res.count(f"compare:{mode}")
                res.sample({"key": key, "n": n, "seed": seed, "draws": repr(rec.log)[:200], "values": vals.tolist()[:8]}, limit=4)
            if stop:
                break
        if stop:
            res.notes.append("budget exhausted before all rounds were done")
            break

    # determinism across call history: the same (key, n, seed) requested again after many other calls (other player
    # counts, other families, in a different order) must give the identical game — a memo or module-level state that
    # leaks between calls shows here and nowhere else
    again = list(first_seen)
    rnd.shuffle(again)
    again.sort(key=lambda t: -t[1])          # larger player counts first, then the smaller ones again
    for key, n, seed, vals, game0 in again[: (400 if tier == "quick" else 4000)]:
        if not budget.ok() and tier == "quick" and res.distribution.get("history-recalls", 0) > 60:
            break
        # consumers modify the games they are handed (ICG_Gym normalises a copy, scripts normalise in place): do the same to
        # the object returned by the first call — a generator that hands out a shared / cached object shows here
        try:
            if hasattr(game0, "set_values"):
                from incomplete_cooperative.normalize import normalize_game
                normalize_game(game0)
                game0.set_value(12345.0, __import__("incomplete_cooperative.coalitions", fromlist=["Coalition"]).Coalition(2 ** n - 1))
            elif hasattr(game0, "_graph_matrix"):
                game0._graph_matrix *= 3.0
            res.count("history-recalls:first-object-mutated")
        except Exception:           # noqa: BLE001
            pass
        try:
            v4 = np.array(call(GM, key, n, np.random.default_rng(seed)).get_values())
        except Exception as e:
            violate(key, n, seed, "history-" + type(e).__name__, str(e)[:200])
            continue
        res.count("history-recalls")
        if not np.array_equal(v4, vals):
            violate(key, n, seed, "not-deterministic-across-history",
                    {"first": vals.tolist()[:8], "again_after_other_calls": v4.tolist()[:8]})

    # the command-line path: the generator is selected and seeded through run.model.ModelInstance (seed → game_generator_rng →
    # one child stream per environment). Two instances with the same seed must draw the same hidden games — boundary seeds too.
    try:
        from incomplete_cooperative.run.model import ModelInstance
        mkeys = [k for k in keys if fams[k][0] not in SEED_IGNORING and fams[k][0] is not None]
        rnd.shuffle(mkeys)
        for key in mkeys[: (6 if tier == "quick" else 40)]:
            for seed in (0, 1, 2 ** 32, rnd.randrange(2 ** 31)):
                n = rnd.choice(ns)
                draws = []
                for rep in range(2):
                    inst = ModelInstance(number_of_players=n, game_generator=key, seed=seed, run_steps_limit=1)
                    env = inst.get_env()
                    draws.append((np.array(env.full_game.get_values()), np.array(inst.game_generator_fn().get_values())))
                    time.sleep(0.002)          # the default seed is a millisecond clock: never let two instances share a tick
                res.evaluations += 1
                res.count("model-instance-path")
                if not (np.array_equal(draws[0][0], draws[1][0]) and np.array_equal(draws[0][1], draws[1][1])):
                    violate(key, n, seed, "not-deterministic-through-ModelInstance",
                            {"first": draws[0][0].tolist()[:8], "second": draws[1][0].tolist()[:8]})
        # one ModelInstance re-configured in a sweep (a mutable dataclass: fields may be re-assigned between uses): every use
        # must answer for the configuration it has NOW — requested player count, requested generator family
        sweep_keys = [k for k in ("factory", "k_budget_generator", "xos", "graph_cycle", "xs") if k in keys]
        inst = ModelInstance(number_of_players=4, game_generator=sweep_keys[0], seed=rnd.randrange(2 ** 31), run_steps_limit=1)
        for step_ in range(6 if tier == "quick" else 30):
            if step_:
                if step_ % 2:
                    inst.number_of_players = rnd.choice([n_ for n_ in (3, 4, 5, 6) if n_ != inst.number_of_players])
                else:
                    inst.game_generator = rnd.choice([k_ for k_ in sweep_keys if k_ != inst.game_generator])
            key_, n_ = inst.game_generator, inst.number_of_players
            try:
                g1 = inst.game_generator_fn()
                e1 = inst.get_env()
                probs = []
                for label, game_ in (("game_generator_fn()", g1), ("get_env().full_game", e1.full_game)):
                    if game_.number_of_players != n_ or len(game_.get_values()) != 2 ** n_:
                        probs.append(f"{label} has {game_.number_of_players} players")
                    else:
                        b_ = oracle_values(key_, fams[key_][0], n_, game_)
                        if b_:
                            probs.append(f"{label}: {b_[0][0]}")
                if e1.incomplete_game.number_of_players != n_:
                    probs.append(f"the environment's incomplete game has {e1.incomplete_game.number_of_players} players")
            except Exception as e:      # noqa: BLE001
                probs = [f"raised {type(e).__name__}: {str(e)[:120]}"]
            res.evaluations += 1
            res.count("model-instance-reconfigured")
            if probs:
                violate(key_, n_, inst.seed, "re-configured-ModelInstance",
                        {"asked_for": [key_, n_], "problems": probs, "after_reassigning": "number_of_players / game_generator on one instance"})
                break
    except ImportError as e:       # run.model needs torch / sb3; absent ⇒ reported, not silently skipped
        res.notes.append(f"ModelInstance path not exercised: {e}")

    for b in script.diff():
        res.disagree("generator values", {k: b[k] for k in ("line", "impl", "model", "ctx")})
    for i, mode, expected, post, ctx in post_checks:
        out = script.outs[i]
        try:
            if out.startswith("err") or out == "bad-op":
                raise ValueError(out)
            mv = parse_vals(out)
            if mode == "exactV":
                ok = f"V={rlist(mv)}" == expected
            else:
                mf = post(mv) if mode == "expfn" else [float(x) for x in mv]
                ok = len(mf) == len(expected) and all(close(float(a), float(b)) for a, b in zip(mf, expected))
        except Exception:
            ok = False
        if not ok:
            res.disagree(f"generator values ({mode})",
                         {"line": script.lines[i][:400], "impl": (expected if isinstance(expected, str) else np.array(expected).tolist())[:16],
                          "model": out[:400], "ctx": ctx})
    return res


def replay(prop: str, payload: dict):
    from incomplete_cooperative import generators as GM
    inp = payload["input"]
    key, n, seed = inp["key"], inp["n"], inp["seed"]
    fam, _ = family_of(key, GM.GENERATORS[key], GM)
    try:
        game = call(GM, key, n, np.random.default_rng(seed))
    except Exception as e:
        return True, f"GENERATORS[{key!r}]({n}, default_rng({seed})) raises {type(e).__name__}: {e}"
    bad = oracle_values(key, fam, n, game)
    if not bad and fam not in SEED_IGNORING:
        v2 = call(GM, key, n, np.random.default_rng(seed)).get_values()
        if not np.array_equal(v2, game.get_values()):
            bad.append(("not-deterministic", {}))
    if bad:
        return True, f"GENERATORS[{key!r}]({n}, default_rng({seed})): {bad[0][0]} {bad[0][1]}"
    return False, f"GENERATORS[{key!r}]({n}, default_rng({seed})) returns a game in its class"
