"""Correspondence streams of domain `srch` (C11, C12, expected-greedy clause of C13):
gameplay.py / run/best_states.py / meta_game.py / run/greedy.py / evaluation.py vs ICG.Model.Search.

`run(tier, budget, rnd, arg)`, arg ∈ {"C11", "C12", "C13greedy"}.

Upstream functions are opaque (DESIGN 6): the *expected* gap of a knowledge set is always the REAL gap
function applied to a FRESH real game object holding exactly that knowledge, recomputed by the REAL bound
computer.  The Lean model decides the state-machine part only (which sets are enumerated and in what
order, which knowledge a task evaluates whatever the scratch table held before, how a task list is cut
into pool chunks and what the tasks of a chunk share, the per-size arg-min with its −1 placeholder, the
greedy extension rule given the iteration order of the candidate set, the zero filler of eval_one, which
generator / solver draw a repetition sees).  It receives the fresh real gaps as a *gap table*.

C11   cases = (n, hidden game, start knowledge ⊇ minimal, size limit k, computer, gap function); for every
      process count the real `get_exploitabilities_of_action_sequences` runs on a scratch game poisoned
      with stale known values and stale bounds.  Oracles on the real code: every subset of the unknown
      coalitions of size ≤ k exactly once and sizes non-decreasing; value = fresh gap; equal for all
      process counts; `MetaGame.get_value` = the same quantity; `get_best_exploitability` per size =
      minimum mean (first on ties) attained by the reported set, curve non-increasing for in-class games.
      Best-states / sampled search run on the same replayable games from two legal `GameGenerator`s: a new
      game object per call (`ListGen`) and ONE buffer object refilled in place and returned every time
      (`BufferGen`) — row j must be the gaps of the j-th DRAWN game whatever the identity of the object.
      Non-trivial = hidden game not symmetric under any transposition of players, ≥ 3 distinct gaps among
      the enumerated sets; distinct by (game, start, k, computer, gap).
C12   real `evaluate()`; environments from the real `ModelInstance.get_env` (seeded) and from
      harness-made generators (hidden game = f(draw index); shared like ModelInstance's, or private per
      environment; fresh or pre-used environments).  Oracles: trajectory (row 0 = fresh gap at minimal
      information of the hidden game the repetition saw after its reset, row t+1 = fresh gap after its
      t-th recorded coalition, ids distinct and explorable, filler 0 only once done); schedule (same
      seed ⇒ same matrices and same hidden games for every process count); independence (continuous
      generator ⇒ pairwise different hidden games).  Keys: `evaluate:shared-generator-rng` when the
      hidden games of a real-ModelInstance run repeat or depend on the process count;
      `evaluate:random-solver-shared-rng` when only the random solver's actions depend on the process
      count while the hidden games agree; `evaluate:unseeded-module-generator` for the `graph` /
      `graph_<distribution>` weight-matrix family only (first repetition of every forked worker replays);
      `evaluate:seed-not-respected` when a second same-seed run (fresh ModelInstance, 1 process) sees other
      hidden games, and for every seed/replay finding of the seed-respecting random-graph generators
      graph_random / graph_ws_connected (n = 5, deterministic solvers: rerun, 1 vs 2 processes, two
      workers replaying one another's sequence of hidden games position by position on ≥ 3 repetitions).
      Non-trivial = run with ≥ 2 repetitions, ≥ 2 steps and ≥ 2 distinct recorded gaps; distinct by
      (generator, seed, solver, repetitions, limit, process count).
C13greedy  real `get_greedy_rewards` on a replayable generator; oracles: never repeats, every extension
      minimises the mean fresh gap among the remaining candidates, rows = fresh gaps of the chosen
      prefix, curve non-increasing (in-class games), ≥ the `get_best_exploitability` curve on the SAME
      games, equal at 0 and 1 reveals.  Besides ordinary games: games scaled by an exact power of two
      (2^-27 … 2^-40, every float operation commutes with the scaling) and near-tie games (m·|S|² plus a
      2^-22-sized superadditive perturbation); the per-step arg-min oracle is evaluated twice, on the float
      means and on the exact Fraction means of the real gaps (no tolerance; the exact form is skipped only
      where float and exact means order the candidates differently).
      Non-trivial = ≥ 2 steps and ≥ 3 distinct candidate means in some
      step; distinct by (games, computer, gap, repetitions, steps).
"""
from __future__ import annotations

import itertools
import json
import math
import os
import random
import tempfile
import warnings
from fractions import Fraction

import numpy as np

import gen_games as G
from common import Budget, Script, StreamResult, err_kind, frac, nlist, rlist, rs

TOL = 1e-9


# ----------------------------------------------------------------------------------------------
# picklable helpers (they travel into pool workers)

class Counter:
    """shared by the tasks of a chunk: reveals the chunking of Pool.starmap"""

    def __init__(self):
        self.c = 0

    def nxt(self):
        self.c += 1
        return self.c


def _count_task(ctr, j):
    return ctr.nxt()


class ListGen:
    """replayable game generator: the k-th call returns (a copy of) games[k % len]"""

    def __init__(self, n, tables):
        self.n = n
        self.tables = tables      # list of float lists
        self.k = 0

    def __call__(self):
        from incomplete_cooperative.game import IncompleteCooperativeGame
        g = IncompleteCooperativeGame(self.n)
        g.set_values(np.array(self.tables[self.k % len(self.tables)], dtype=float))
        self.k += 1
        return g


class BufferGen:
    """replayable generator that owns ONE game object: the k-th call refills that object IN PLACE with
    games[k % len] and returns the very same object (a `GameGenerator` only has to return a game, not a new
    object): whoever tells "same game as before" by object identity, or keeps a reference instead of the values
    it needs, reads stale / overwritten data"""

    def __init__(self, n, tables):
        self.n = n
        self.tables = tables
        self.k = 0
        self.buffer = None

    def __call__(self, *_):
        from incomplete_cooperative.game import IncompleteCooperativeGame
        if self.buffer is None:
            self.buffer = IncompleteCooperativeGame(self.n)
        self.buffer.set_values(np.array(self.tables[self.k % len(self.tables)], dtype=float))
        self.k += 1
        return self.buffer


class DrawGen:
    """hidden game determined by (seed, draw index); `shift` distinguishes private generators"""

    def __init__(self, n, seed, kind="int", shift=0):
        self.n, self.seed, self.kind, self.shift = n, seed, kind, shift
        self.k = 0

    def table(self, k):
        r = random.Random(f"{self.seed}:{self.shift}:{k}")
        v = G.sa_game(self.n, r, self.kind)
        # the grand coalition's value carries the draw index in its integer part (kept superadditive:
        # raising v(N) never breaks superadditivity)
        top = max(v) + 1
        v[-1] = Fraction(math.floor(top)) + 1000 * (k + 1)
        return [float(x) for x in v]

    def __call__(self):
        from incomplete_cooperative.game import IncompleteCooperativeGame
        g = IncompleteCooperativeGame(self.n)
        g.set_values(np.array(self.table(self.k), dtype=float))
        self.k += 1
        return g


def draw_index_of(values) -> int:
    return int(values[-1]) // 1000 - 1


class Capture:
    """after_reset callback: appends (repetition tag, pid, hidden game) to a file (works from workers)"""

    def __init__(self, path):
        self.path = path

    def __call__(self, env):
        rec = [getattr(env, "_verif_rep", -1), os.getpid(), [float(x) for x in env.full_game.get_values()]]
        fd = os.open(self.path, os.O_WRONLY | os.O_APPEND | os.O_CREAT)
        try:
            os.write(fd, (json.dumps(rec) + "\n").encode())
        finally:
            os.close(fd)


class CountingSolver:
    """solver with its own draw counter (shared like RandomSolver's Random): action = valid[k mod len]"""

    def __init__(self):
        self.k = 0

    def next_step(self, gym):
        m = gym.action_masks()
        valid = [x for x in range(m.shape[0]) if m[x]]
        k = self.k
        self.k += 1
        if not valid:
            return 0
        return valid[k % len(valid)]


# ----------------------------------------------------------------------------------------------
# real-code helpers

def _mods():
    from incomplete_cooperative.bounds import BOUNDS
    from incomplete_cooperative.coalitions import Coalition, minimal_game_coalitions
    from incomplete_cooperative.exploitability import compute_exploitability
    from incomplete_cooperative.game import IncompleteCooperativeGame
    from incomplete_cooperative.norms import l1_norm, l2_norm, linf_norm
    gaps = {"exploitability": compute_exploitability, "l1_norm": l1_norm, "l2_norm": l2_norm, "linf_norm": linf_norm}
    return BOUNDS, Coalition, minimal_game_coalitions, IncompleteCooperativeGame, gaps


def full_game(n, table):
    from incomplete_cooperative.game import IncompleteCooperativeGame
    g = IncompleteCooperativeGame(n)
    g.set_values(np.array([float(x) for x in table], dtype=float))
    return g


class Fresh:
    """fresh-game gap oracle with a cache: (game table id, known set) ↦ real gap (float)"""

    def __init__(self, n, cls, gapname):
        BOUNDS, Coalition, _, ICG, gaps = _mods()
        self.n, self.cls, self.gapf = n, cls, gaps[gapname]
        self.BOUNDS, self.Coalition, self.ICG = BOUNDS, Coalition, ICG
        self.cache = {}

    def game(self, table, known):
        g = self.ICG(self.n, self.BOUNDS[self.cls])
        ks = [self.Coalition(c) for c in sorted(set(known))]
        g.set_known_values([float(table[c.id]) for c in ks], ks)
        g.compute_bounds()
        return g

    def gap(self, table, known) -> float:
        key = (tuple(table), frozenset(known))
        if key not in self.cache:
            self.cache[key] = float(self.gapf(self.game(table, known)))
        return self.cache[key]

    def degenerate(self, table, known) -> bool:
        g = self.game(table, known)
        return bool(np.all((g.get_upper_bounds() - g.get_lower_bounds()) == 0))


def poison(g, rnd, start, Coalition):
    """stale bounds in every unknown row, stale values in every known row"""
    N = 2 ** g.number_of_players
    for c in range(N):
        if c in start:
            g.set_value(float(rnd.randint(-9, 9)), Coalition(c))
        else:
            g.set_lower_bound(float(rnd.randint(-9, 9)), Coalition(c))
            g.set_upper_bound(float(rnd.randint(-9, 9)), Coalition(c))


def seqs_str(seqs) -> str:
    return ";".join(nlist(s) for s in seqs)


def rows_str(rows) -> str:
    return "|".join(rlist(r) for r in rows)


def order_consistent(cols) -> bool:
    """Do float means (what the code compares) and exact means (what the model compares) of these
    columns order the same way?  Otherwise the case is a float near-tie and its selection is not compared."""
    ex = [sum((frac(x) for x in c), Fraction(0)) / len(c) for c in cols]
    fl = [float(np.mean(np.array(c, dtype=float))) for c in cols]
    idx = sorted(range(len(cols)), key=lambda i: ex[i])
    for a, b in zip(idx, idx[1:]):
        if ex[a] == ex[b]:
            if fl[a] != fl[b]:
                return False
        elif not fl[a] < fl[b]:
            return False
    return True


def hidden_games(n, rnd, tier):
    """(name, table, in_class_for) hidden games: exact closure games and the repo's own generators"""
    from incomplete_cooperative.generators import GENERATORS
    out = []
    for kind in ("int", "dyadic", "int"):
        for _ in range(40):
            v = G.sa_game(n, rnd, kind)
            if G.asymmetric(v, n):
                break
        out.append((f"closure-{kind}", [float(x) for x in v], True))
    for name in ("noisy_factory", "graph", "xos"):
        g = GENERATORS[name](n, np.random.default_rng(rnd.randrange(10 ** 6)))
        out.append((name, [float(x) for x in g.get_values()], name != "xos"))
    return out


def observe_chunks(length, procs):
    """chunk lengths Pool(procs).starmap makes of `length` tasks, observed with a shared counter"""
    from multiprocessing import Pool
    c = Counter()
    with Pool(procs) as p:
        r = p.starmap(_count_task, ((c, j) for j in range(length)))
    lens = []
    for x in r:
        if x == 1:
            lens.append(1)
        else:
            lens[-1] += 1
    return lens


# ----------------------------------------------------------------------------------------------
# C11

def run_c11(tier, budget, rnd) -> StreamResult:
    from incomplete_cooperative.gameplay import (get_exploitabilities_of_action_sequences,
                                                 sample_exploitabilities_of_action_sequences)
    from incomplete_cooperative.icg_gym import ICG_Gym
    from incomplete_cooperative.meta_game import MetaGame
    from incomplete_cooperative.run.best_states import get_best_exploitability
    BOUNDS, Coalition, minimal_game_coalitions, ICG, gaps = _mods()

    res = StreamResult("search")
    search_with_changing_gap(res, rnd)
    script = Script()
    quick = tier == "quick"
    procs_list = [1, 2, 3, 5, 16] if quick else list(range(1, 17))
    combos = [("superadditive", "exploitability"), ("superadditive_cached", "l1_norm"),
              ("sam_apx_1", "linf_norm"), ("superadditive_cached", "l2_norm"), ("superadditive", "linf_norm")]
    shapes = [(3, None), (4, 2), (3, 0), (3, 2), (4, 3), (4, 0)] if quick else [(3, None), (3, 1), (3, 2), (3, 5), (4, 0), (4, 1), (4, 2), (4, 3)]
    rounds = 3 if quick else 8
    chunk_pairs = set()
    case_no = 0
    for rd in range(rounds):
        for si, (n, k) in enumerate(shapes):
            if not budget.ok():
                res.notes.append("budget exhausted in the exhaustive-search cases")
                break
            N = 2 ** n
            minimal = G.minimal_ids(n)
            games = hidden_games(n, rnd, tier)
            name, table, in_class = games[(si + 2 * rd) % len(games)] if quick else rnd.choice(games)
            cls, gapname = combos[(si + rd) % len(combos)] if quick else rnd.choice(combos)
            extra = rnd.sample([c for c in range(N) if c not in minimal], rnd.choice([0, 0, 1, 2]))
            start = sorted(set(minimal) | set(extra))
            unknown = [c for c in range(N) if c not in start]
            kk = len(unknown) if k is None else k
            fresh = Fresh(n, cls, gapname)
            full = full_game(n, table)
            case_no += 1
            gt = f"c{case_no}"
            ctx0 = {"n": n, "k": k, "game": name, "values": table, "start": start, "computer": cls, "gap": gapname}
            # the expected gaps: fresh real game per set (own enumeration: not the model's, not the code's)
            expect = {}
            script.add(f"srch gt new {gt} {n} 1", "ok")
            for i in range(min(kk, len(unknown)) + 1):
                for s in itertools.combinations(unknown, i):
                    expect[frozenset(s)] = fresh.gap(table, set(start) | set(s))
                    script.add(f"srch gt put {gt} {nlist(sorted(set(start) | set(s)))} {rs(expect[frozenset(s)])}", "ok")
            res.count(f"shape:n{n}k{k}")
            res.count(f"computer:{cls}")
            res.count(f"gap:{gapname}")
            script.add(f"srch seqs {nlist(unknown)} {'none' if k is None else k}", None, ctx0)
            seq_line = len(script) - 1
            # the enumeration hands out reveal sets; a caller may edit what it was handed (append / clear) — the next enumeration
            # and the next search with the same knowledge and k must not see those edits
            if si % 2 == 0:
                from incomplete_cooperative.gameplay import possible_action_sequences
                g_en = ICG(n, BOUNDS[cls])
                ks_en = [Coalition(c) for c in start]
                g_en.set_known_values(full.get_values(ks_en), ks_en)
                try:
                    handed = list(possible_action_sequences(g_en, max_size=k))
                    before_en = [[c.id for c in s_] for s_ in handed]
                    for s_ in handed:
                        if isinstance(s_, list):
                            s_.append(Coalition(start[-1]))
                            if len(s_) > 2:
                                del s_[0]
                    again_en = [[c.id for c in s_] for s_ in possible_action_sequences(g_en, max_size=k)]
                except Exception as e:      # noqa: BLE001
                    before_en, again_en = None, f"raised {type(e).__name__}"
                res.count("search:enumeration-after-caller-edits")
                if again_en != before_en:
                    res.violation("a second enumeration of the reveal sets (same knowledge, same k) differs from the first after the "
                                  "caller edited the lists it had been handed", dict(ctx0, first=before_en, second=again_en),
                                  key="search:enumeration-aliasing")
            ref = None
            for procs in (procs_list if (si < 2 and rd == 0) or not quick else [1, 2, 5]):
                if not budget.ok():
                    break
                g = ICG(n, BOUNDS[cls])
                ks = [Coalition(c) for c in start]
                g.set_known_values(full.get_values(ks), ks)
                pz = rnd.randint(1, 9)
                poison(g, random.Random(pz), set(start), Coalition)
                ctx = dict(ctx0, processes=procs)
                try:
                    with warnings.catch_warnings():
                        warnings.simplefilter("ignore")
                        # the size limit in the forms callers pass it: Python int, or a numpy integer (np.arange element, rng.integers(…))
                        k_arg = k if k is None or procs != procs_list[0] else [k, np.int64(k), np.int32(k)][len(chunk_pairs) % 3]
                        res.count(f"search:max_size-form:{type(k_arg).__name__}")
                        out = list(get_exploitabilities_of_action_sequences(g, full, fresh.gapf, max_size=k_arg, processes=procs))
                except Exception as e:       # in-domain call: the search reports nothing
                    res.violation(f"exhaustive search raised {type(e).__name__} on an in-domain call", ctx, key="search:raised")
                    script.add(f"srch expl {gt} 1 {nlist(start)} {'none' if k is None else k} {procs} {pz}", err_kind(e), ctx)
                    continue
                seqs = [[c.id for c in s] for s, _ in out]
                vals = [float(v) for _, v in out]
                res.evaluations += len(seqs)
                script.add(f"srch expl {gt} 1 {nlist(start)} {'none' if k is None else k} {procs} {pz}",
                           ";".join(f"{nlist(s)}={rs(v)}" for s, v in zip(seqs, vals)), ctx)
                chunk_pairs.add((len(seqs), procs))
                if procs == procs_list[0]:
                    script.impl[seq_line] = seqs_str(seqs)
                # --- oracles on the real code
                want_sets = [frozenset(s) for i in range(kk + 1) for s in itertools.combinations(unknown, i)]
                got_sets = [frozenset(s) for s in seqs]
                if sorted(map(sorted, got_sets)) != sorted(map(sorted, want_sets)) or any(len(set(s)) != len(s) for s in seqs):
                    res.violation("exhaustive search does not enumerate every set of ≤ k unknown coalitions exactly once",
                                  dict(ctx, enumerated=seqs), key="search:enumeration")
                elif any(len(a) > len(b) for a, b in zip(seqs, seqs[1:])):
                    res.violation("enumeration sizes are not non-decreasing", dict(ctx, enumerated=seqs), key="search:enumeration")
                else:
                    for s, v in zip(seqs, vals):
                        if v != expect[frozenset(s)]:
                            res.violation("reported gap ≠ gap of the game knowing exactly start ∪ set",
                                          dict(ctx, set=s, reported=v, expected=expect[frozenset(s)]), key="search:value")
                            break
                # the search works on copies: searching the SAME game object again must give the same answer
                if procs in (1, 2):
                    try:
                        with warnings.catch_warnings():
                            warnings.simplefilter("ignore")
                            out2 = list(get_exploitabilities_of_action_sequences(g, full, fresh.gapf, max_size=k, processes=procs))
                        again = ([[c.id for c in s_] for s_, _ in out2], [float(v_) for _, v_ in out2])
                    except Exception as e:       # noqa: BLE001
                        again = f"raised {type(e).__name__}"
                    res.count("search:repeated-on-same-object")
                    if again != (seqs, vals):
                        res.violation("a second exhaustive search on the same game object gives a different result "
                                      "(the first search changed the caller's starting knowledge)",
                                      dict(ctx, second=again if isinstance(again, str) else {"enumerated": len(again[0])}),
                                      key="search:repeat")
                # the search is requested for the knowledge the game has WHEN IT IS REQUESTED: the caller may go on revealing
                # coalitions in the same game object before reading the result (the return type is Iterable)
                if procs == procs_list[0] and unknown:
                    try:
                        g3 = ICG(n, BOUNDS[cls])
                        g3.set_known_values(full.get_values(ks), ks)
                        with warnings.catch_warnings():
                            warnings.simplefilter("ignore")
                            pending = get_exploitabilities_of_action_sequences(g3, full, fresh.gapf, max_size=k, processes=procs)
                            later = unknown[len(unknown) // 2]
                            g3.reveal_value(float(table[later]), Coalition(later))
                            out3 = list(pending)
                        late = ([[c.id for c in s_] for s_, _ in out3], [float(v_) for _, v_ in out3])
                    except Exception as e:       # noqa: BLE001
                        late = f"raised {type(e).__name__}"
                    res.count("search:knowledge-changed-before-the-result-is-read")
                    if late != (seqs, vals):
                        res.violation("the result of an exhaustive search that was requested BEFORE a further coalition was revealed in "
                                      "the same game object, read afterwards, is not the search for the knowledge at the time of the request",
                                      dict(ctx, revealed_in_between=later,
                                           got=late if isinstance(late, str) else {"enumerated": len(late[0])}, expected_sets=len(seqs)),
                                      key="search:lazy")
                if ref is None:
                    ref = (procs, seqs, vals)
                elif (seqs, vals) != ref[1:]:
                    res.violation("exhaustive search result depends on the number of worker processes",
                                  dict(ctx, other_processes=ref[0]), key="search:process-count")
            if len(set(expect.values())) >= 3 and G.asymmetric([Fraction(x) for x in table], n):
                res.nontrivial.add((name, tuple(table), tuple(start), k, cls, gapname))
            res.sample({"n": n, "k": k, "game": name, "start": start, "computer": cls, "gap": gapname,
                        "first_sets": [[sorted(s), expect[s]] for s in list(expect)[:4]]})
            # --- meta-game (start = minimal information)
            if not extra:
                mg_scratch = ICG(n, BOUNDS[cls])
                poison(mg_scratch, random.Random(7), set(), Coalition)
                mg = MetaGame(full, mg_scratch, fresh.gapf)
                players = [c for c in range(N) if c not in minimal]
                ms = list(range(2 ** len(players))) if n == 3 else \
                    [sum(1 << i for i in rnd.sample(range(len(players)), rnd.randint(0, kk))) for _ in range(12)]
                for m in ms:
                    inner = [players[i] for i in range(len(players)) if m >> i & 1]
                    if len(inner) > kk:
                        continue
                    try:
                        v = float(mg.get_value(Coalition(m)))
                    except Exception as e:
                        res.violation(f"MetaGame.get_value raised {type(e).__name__}", dict(ctx0, meta_coalition=m), key="meta:raised")
                        continue
                    res.evaluations += 1
                    res.count("meta")
                    script.add(f"srch meta {gt} 1 {m} 7", rs(v), dict(ctx0, meta_coalition=m))
                    if v != expect[frozenset(inner)]:
                        res.violation("meta-game value ≠ gap of the game knowing exactly minimal ∪ set",
                                      dict(ctx0, meta_coalition=m, inner=inner, reported=v, expected=expect[frozenset(inner)]),
                                      key="meta:value")
                # the bulk entry points of the meta-game (a `Game`): number_of_players, get_values(list), get_values() over all
                # 2^m meta-coalitions (n = 3 only: 16) must report the same quantity as get_value, in the order asked
                asked = [m for m in ms if len([i for i in range(len(players)) if m >> i & 1]) <= kk][:6]
                try:
                    if mg.number_of_players != len(players):
                        res.violation("MetaGame.number_of_players ≠ number of non-minimal coalitions",
                                      dict(ctx0, reported=int(mg.number_of_players), expected=len(players)), key="meta:players")
                    if asked:
                        bulk = [float(x) for x in mg.get_values(Coalition(m) for m in asked)]      # a one-shot iterable
                        want_b = [expect[frozenset(players[i] for i in range(len(players)) if m >> i & 1)] for m in asked]
                        res.evaluations += 1
                        res.count("meta:get_values")
                        if bulk != want_b:
                            res.violation("MetaGame.get_values(coalitions) ≠ the gaps of the games knowing exactly minimal ∪ set, in the order asked",
                                          dict(ctx0, meta_coalitions=asked, reported=bulk, expected=want_b), key="meta:values")
                    if n == 3:
                        allv = [float(x) for x in mg.get_values()]
                        want_a = [fresh.gap(table, set(minimal) | {players[i] for i in range(len(players)) if m >> i & 1})
                                  for m in range(2 ** len(players))]
                        res.count("meta:get_values-all")
                        if allv != want_a:
                            res.violation("MetaGame.get_values() ≠ the gap of every reveal set in meta-coalition id order",
                                          dict(ctx0, reported=allv, expected=want_a), key="meta:values")
                except Exception as e:      # noqa: BLE001
                    res.violation(f"MetaGame bulk entry point raised {type(e).__name__}: {e}", dict(ctx0), key="meta:raised")
                # the meta-game holds the live full game: after the full game is edited in place the SAME meta-game object answers
                # for the edited game (meta-coalitions asked before the edit included)
                if ms:
                    table2 = list(table)
                    table2[N - 1] = table[N - 1] + 1
                    full.set_value(float(table2[N - 1]), Coalition(N - 1))
                    for m in ms[:4]:
                        inner = [players[i] for i in range(len(players)) if m >> i & 1]
                        if len(inner) > kk:
                            continue
                        try:
                            v2 = float(mg.get_value(Coalition(m)))
                        except Exception as e:      # noqa: BLE001
                            v2 = f"raised {type(e).__name__}"
                        want2 = fresh.gap(table2, set(minimal) | set(inner))
                        res.count("meta:after-edit-of-the-full-game")
                        if v2 != want2:
                            res.violation("meta-game value after the underlying full game was edited in place ≠ gap of the edited game "
                                          "knowing exactly minimal ∪ set", dict(ctx0, meta_coalition=m, inner=inner, reported=v2,
                                                                               expected=want2, edited_values=table2), key="meta:stale")
                            break
                    full.set_value(float(table[N - 1]), Coalition(N - 1))
                # malformed: a meta-coalition outside the meta-game
                try:
                    mg.get_value(Coalition(2 ** len(players)))
                    ans = "no-error"
                except Exception as e:
                    ans = err_kind(e)
                script.add(f"srch meta {gt} 1 {2 ** len(players)} 7", ans, dict(ctx0, meta_coalition="out of range"))
                res.count(f"malformed:meta:{ans}")
            script.add(f"srch gt drop {gt}", "ok")

    # ---- sampled search and best-states on a replayable generator
    best_shapes = [(3, 3, 2), (4, 2, 2), (3, 4, 1), (4, 2, 4), (4, 2, 2), (4, 3, 2), (3, 2, 3), (4, 2, 3)] if quick else \
        [(3, 3, 1), (3, 3, 2), (3, 4, 2), (3, 5, 3), (4, 1, 2), (4, 2, 2), (4, 2, 4), (4, 3, 2), (4, 3, 3), (3, 0, 2)]
    for bi, (n, steps, reps) in enumerate(best_shapes * (1 if quick else 3)):
        if not budget.ok():
            res.notes.append("budget exhausted in the best-states cases")
            break
        N = 2 ** n
        minimal = G.minimal_ids(n)
        cls, gapname = combos[bi % len(combos)] if quick else rnd.choice(combos)
        pool_games = hidden_games(n, rnd, tier) + hidden_games(n, rnd, tier)
        chosen = [pool_games[i] for i in rnd.sample(range(len(pool_games)), reps + 2)]
        if bi % 2 == 0:
            chosen = [g for g in chosen if g[2]] + [g for g in pool_games if g[2]]
            chosen = chosen[:reps + 2]
        tables = [g[1] for g in chosen]
        if bi % 3 == 2:
            # tiny-magnitude games (an ordinary hidden game times an exact power of two: every float operation commutes with the
            # scaling): "the minimum mean gap" has no absolute tolerance
            sc = 2.0 ** -rnd.choice([27, 30, 34, 40])
            tables = [[x * sc for x in t] for t in tables]
            res.count("best:scaled-games")
        in_class = all(g[2] for g in chosen[2:]) and cls != "sam_apx_1"
        procs = [1, 2, 5][bi % 3] if quick else rnd.choice([1, 2, 3, 5, 8])
        fresh = Fresh(n, cls, gapname)
        all_explorable = [c for c in range(N) if c not in minimal]
        # starting knowledge: the minimal information, or — every second case — the position reached after the environment
        # was stepped once or twice ("starting knowledge containing the minimal information": the search starts from what the
        # incomplete game knows NOW, which is more than the environment's initially-known list)
        extra = sorted(rnd.sample(all_explorable, rnd.choice([1, 1, 2]))) if (bi % 2 == 1 or bi % 10 in (4, 8)) and len(all_explorable) > 3 else []
        minimal_only = minimal
        minimal = sorted(set(minimal) | set(extra))
        explorable = [c for c in all_explorable if c not in extra]
        sampled = tables[2:2 + reps]          # ICG_Gym's constructor consumes two draws
        case_no += 1
        gt = f"b{case_no}"
        ctx = {"n": n, "max_steps": steps, "repetitions": reps, "processes": procs, "computer": cls, "gap": gapname,
               "sampled_games": sampled, "stepped_before_search": extra}
        res.count(f"best:start+{len(extra)}")
        cols = {}
        script.add(f"srch gt new {gt} {n} {reps}", "ok")
        for i in range(min(steps, len(explorable)) + 1):
            for s in itertools.combinations(explorable, i):
                cols[s] = [fresh.gap(t, set(minimal) | set(s)) for t in sampled]
                script.add(f"srch gt put {gt} {nlist(sorted(set(minimal) | set(s)))} {rlist(cols[s])}", "ok")
        by_size = {}
        for s, c in cols.items():
            by_size.setdefault(len(s), []).append((s, c))
        robust = all(order_consistent([c for _, c in v]) for v in by_size.values())
        ctx_base = ctx
        # the same replayable games from two legal generators: a new game object per call, and ONE buffer
        # object refilled in place and returned again and again (row j must be the gaps of the j-th DRAWN game)
        for genkind, gencls in (("new object per call", ListGen), ("one buffer object refilled in place", BufferGen)):
            if not budget.ok():
                break
            ctx = dict(ctx_base, generator=genkind)
            env = ICG_Gym(ICG(n, BOUNDS[cls]), gencls(n, tables), minimal_game_coalitions(n), fresh.gapf,
                          done_after_n_actions=steps)
            for c_ in extra:                  # reveal through the environment's own step(), then search from that position
                env.step([x.id for x in env.explorable_coalitions].index(c_))
            try:
                with warnings.catch_warnings():
                    warnings.simplefilter("ignore")
                    rows, acts = get_best_exploitability(env, steps, reps, fresh.gapf, processes=procs)
            except Exception as e:
                res.violation(f"get_best_exploitability raised {type(e).__name__} on an in-domain call", ctx, key="best:raised")
                continue
            res.evaluations += len(cols)
            res.count(f"best:n{n}s{steps}r{reps}")
            res.count(f"best:generator:{genkind}")
            rows = [[float(x) for x in r] for r in rows]
            acts = [[int(a) for a in r] for r in acts]
            if robust:
                script.add(f"srch best {gt} {nlist(minimal)} {steps} {procs}",
                           f"{rows_str(rows)}#{'|'.join(nlist(a) for a in acts)}", ctx)
            else:
                res.count("skipped:float-near-tie")
            curve = []
            for size in range(steps + 1):
                cands = by_size.get(size)
                if not cands:
                    res.count("best:placeholder-row")     # domain note: −1 placeholder, not a violation
                    continue
                means = [float(np.mean(np.array(c))) for _, c in cands]
                mn = min(means)
                first = means.index(mn)
                got_mean = float(np.mean(np.array(rows[size])))
                curve.append(got_mean)
                c2 = dict(ctx, size=size, reported_set=acts[size], reported_row=rows[size])
                if len(set(acts[size])) != size or not set(acts[size]) <= set(explorable):
                    res.violation("best-states reports a set that is not a size-s set of explorable coalitions", c2, key="best:set")
                elif rows[size] != cols[tuple(sorted(acts[size]))]:
                    res.violation("best-states row ≠ the gaps of the reported set on the sampled games", c2, key="best:row")
                elif got_mean != mn:
                    res.violation("best-states does not report the minimum mean gap of its size",
                                  dict(c2, minimum=mn, attained_by=list(cands[first][0])), key="best:argmin")
                elif tuple(sorted(acts[size])) != cands[first][0] and robust:
                    res.violation("best-states does not report the first minimiser in enumeration order",
                                  dict(c2, first=list(cands[first][0])), key="best:first")
            if in_class and any(b > a + TOL * max(1.0, abs(a)) for a, b in zip(curve, curve[1:])):
                res.violation("best-states curve increases on in-class games", dict(ctx, curve=curve), key="best:mono")
            # sampled search itself (enumeration + matrix) for one more process count
            g = ICG(n, BOUNDS[cls])
            ks = [Coalition(c) for c in minimal]
            g.set_known_values([0.0] * len(ks), ks)
            try:
                with warnings.catch_warnings():
                    warnings.simplefilter("ignore")
                    lg = gencls(n, sampled)
                    sa, sv = sample_exploitabilities_of_action_sequences(g, lambda _n: lg(), fresh.gapf, samples=reps,
                                                                         max_size=steps, processes=3)
                ok = [tuple(c.id for c in s) for s in sa] == list(cols) and \
                    all([float(x) for x in sv[:, i]] == cols[s] for i, s in enumerate(cols))
                if not ok:
                    bad = next(([j, list(s), float(sv[j, i]), cols[s][j]] for i, s in enumerate(cols) for j in range(reps)
                                if i < sv.shape[1] and j < sv.shape[0] and float(sv[j, i]) != cols[s][j]), None)
                    res.violation("sampled exhaustive search: matrix ≠ fresh gaps of (sampled game, set)",
                                  dict(ctx, generator_calls=lg.k, first_wrong_sample_set_reported_expected=bad), key="search:sample")
            except Exception as e:
                res.violation(f"sample_exploitabilities_of_action_sequences raised {type(e).__name__}", ctx, key="search:raised")
        ctx = ctx_base
        if len({float(np.mean(np.array(c))) for c in cols.values()}) >= 3:
            res.nontrivial.add(("best", n, steps, reps, cls, gapname, tuple(map(tuple, sampled))))
        script.add(f"srch gt drop {gt}", "ok")

    # ---- the chunk partition for the (length, processes) pairs that arose
    pairs = sorted(chunk_pairs)
    rnd.shuffle(pairs)
    for length, procs in pairs[: (5 if quick else 40)]:
        if not budget.ok():
            break
        lens = observe_chunks(length, procs)
        script.add(f"srch chunks {length} {procs}", nlist(lens), {"len": length, "processes": procs})
        res.count("chunks-observed")
        res.evaluations += 1
    for length, procs in pairs[(5 if quick else 40):]:
        script.add(f"srch chunks {length} {procs}", None)
    script.add("srch chunks 7 0", "err:value")

    for b in script.diff():
        res.disagree("search: model ≠ implementation", {k: b[k] for k in ("line", "impl", "model", "ctx")})
    return res


# ----------------------------------------------------------------------------------------------
# C12

def _read_capture(path):
    out = []
    if os.path.exists(path):
        with open(path) as f:
            for line in f:
                line = line.strip()
                if line:
                    out.append(json.loads(line))
        os.remove(path)
    return out


def run_c12(tier, budget, rnd) -> StreamResult:
    from incomplete_cooperative.evaluation import evaluate
    from incomplete_cooperative.icg_gym import ICG_Gym
    from incomplete_cooperative.run.model import ModelInstance
    from incomplete_cooperative.solvers import SOLVERS
    BOUNDS, Coalition, minimal_game_coalitions, ICG, gaps = _mods()

    res = StreamResult("evaluate")
    _record, _per_key = res.violation, {}

    def violation(what, replay, key=None):      # at most 6 reports per failing site, so that every site shows
        _per_key[key] = _per_key.get(key, 0) + 1
        if _per_key[key] <= 6:
            _record(what, replay, key=key)
        res.count(f"violation:{key}")
    res.violation = violation
    script = Script()
    quick = tier == "quick"
    procs_list = [1, 2, 3, 5] if quick else list(range(1, 17))
    reps_list = [1, 2, 5, 9] if quick else [1, 2, 3, 5, 9, 13, 24]     # 9 = 4·2 + 1, 13 = 4·3 + 1: more repetitions than 4 per worker
    tmpdir = tempfile.mkdtemp(prefix="verif_c12_")
    cap_path = os.path.join(tmpdir, "cap.jsonl")
    post = []          # checks done after the model answered

    def one_run(make_env_gen, solver_factory, reps, limit, procs, gapname):
        """→ (gap matrix, action matrix, hidden game per repetition) of one real evaluate() call
        (`gapname` = the gap function handed to evaluate(); the environments carry their own)"""
        env_gen, tag = make_env_gen()
        solver = solver_factory()
        if os.path.exists(cap_path):
            os.remove(cap_path)
        with warnings.catch_warnings():
            warnings.simplefilter("ignore")
            e, a = evaluate(solver.next_step, env_gen, reps, limit, gaps[gapname], procs, Capture(cap_path))
        recs = _read_capture(cap_path)
        hidden, pids = {}, {}
        for rep, pid, vals in recs:
            hidden[rep] = vals
            pids[rep] = pid
        one_run.pids = [pids.get(j) for j in range(reps)]
        return np.array(e), np.array(a), [hidden.get(j) for j in range(reps)]

    def trajectory_oracle(ctx, n, cls, gapname, limit, e, a, hidden):
        fresh = Fresh(n, cls, gapname)
        minimal = G.minimal_ids(n)
        explorable = [c for c in range(2 ** n) if c not in minimal]
        distinct_gaps = set()
        for j, H in enumerate(hidden):
            c2 = dict(ctx, repetition=j, hidden_game=H, gaps=[float(x) for x in e[:, j]], ids=[float(x) for x in a[:, j]])
            if H is None:
                res.violation("eval_one did not call after_reset for a repetition", c2, key="evaluate:trajectory")
                return distinct_gaps
            known = set(minimal)
            if float(e[0, j]) != fresh.gap(H, known):
                res.violation("row 0 of the gap matrix ≠ gap at minimal information of the repetition's hidden game",
                              dict(c2, expected=fresh.gap(H, known)), key="evaluate:trajectory")
                return distinct_gaps
            distinct_gaps.add(float(e[0, j]))
            done = False          # `done` is only looked at after a step
            for t in range(limit):
                cid = a[t, j]
                if done:
                    if float(e[t + 1, j]) != 0.0 or float(cid) != 0.0:
                        res.violation("entries after the episode was done are not the 0 filler", dict(c2, step=t), key="evaluate:trajectory")
                        return distinct_gaps
                    continue
                if float(cid) != int(cid) or int(cid) not in explorable or int(cid) in known:
                    res.violation("recorded coalition id is not a still-unknown explorable coalition", dict(c2, step=t), key="evaluate:trajectory")
                    return distinct_gaps
                known.add(int(cid))
                if float(e[t + 1, j]) != fresh.gap(H, known):
                    res.violation("row t+1 of the gap matrix ≠ gap after the t-th recorded coalition in the repetition's hidden game",
                                  dict(c2, step=t, expected=fresh.gap(H, known)), key="evaluate:trajectory")
                    return distinct_gaps
                distinct_gaps.add(float(e[t + 1, j]))
                done = all(c in known for c in explorable) or fresh.degenerate(H, known)
        return distinct_gaps

    def evalone_lines(ctx, n, cls, gapname, limit, e, a, hidden, max_reps=2):
        """model `evalOne` fed with what a fresh real env answers along the recorded trajectory"""
        explorable = [c for c in range(2 ** n) if c not in G.minimal_ids(n)]
        for j, H in list(enumerate(hidden))[:max_reps]:
            if H is None:
                continue
            env = ICG_Gym(ICG(n, BOUNDS[cls]), ListGen(n, [H]), minimal_game_coalitions(n), gaps[gapname], done_after_n_actions=limit)
            env.reset()
            r0 = env.reward
            steps = []
            done = False
            for t in range(limit):
                cid = int(a[t, j])
                if done or cid not in explorable or not env.action_masks()[explorable.index(cid)]:
                    break
                _, r, done, _, info = env.step(explorable.index(cid))
                steps.append((r, done, info["chosen_coalition"]))
            if done and len(steps) < limit:
                # the episode ended early: offer the model further answers it must ignore
                m = env.action_masks()
                for x in [i for i in range(len(explorable)) if m[i]][:2]:
                    _, r, d2, _, info = env.step(x)
                    steps.append((r, d2, info["chosen_coalition"]))
            txt = ";".join(f"{rs(r)}:{1 if d else 0}:{c}" for r, d, c in steps) or "-"
            script.add(f"srch evalone {limit} {rs(r0)} {txt}",
                       f"{rlist(e[:, j])}#{nlist(int(x) for x in a[:, j])}", dict(ctx, repetition=j))
            res.count("evalone-lines")

    # ------------------------------------------------------------------ (A0) stream identity at scale
    env_stream_oracle(res, rnd, quick, budget)
    interpreter_start_oracle(res, rnd)
    from common import optimized_probe
    optimized_probe(res, "trajectory", rnd.randrange(10 ** 6), "evaluate:interpreter-flag")

    # ------------------------------------------------------------------ (A) the real ModelInstance
    # seed-respecting generators only; continuous ones feed the independence oracle.  (`graph` and the
    # graph_<distribution> families ignore their generator argument and draw from a module-global unseeded
    # numpy generator: handled separately below, under its own key.)
    gens_cont = ["noisy_factory", "xos", "noisy_factory_square", "noisy_factory_exp"]
    gens_disc = ["factory", "graph_cycle", "xos_one"]
    # seed-respecting random-GRAPH generators (networkx graph drawn from the generator they are given): discrete, so
    # two repetitions may coincide by chance (pair collision probability at n = 5: graph_random 0.0013,
    # graph_ws_connected 0.0099); their findings are reported under `evaluate:seed-not-respected`, never under the
    # key of the known `graph` / `graph_<distribution>` weight-matrix family
    gens_graph_seeded = ["graph_random", "graph_ws_connected", "graph_internet", "graph_geographical_treshold"]
    A_cases = []
    for solver in ("greedy", "largest", "random"):
        for gi, gen in enumerate(gens_cont[:2] + gens_disc[:1] if quick else gens_cont + gens_disc):
            A_cases.append((solver, gen))
    rnd.shuffle(A_cases)
    A_cases.sort(key=lambda c: c[1] in gens_disc)        # continuous generators first
    A_cases.insert(3, ("random", "xos_one"))   # deterministic generator: isolates the solver's own RNG
    A_cases.append(("greedy", "graph"))
    A_cases.append(("greedy", "graph_random"))            # deterministic solvers: everything is a function of the seed
    A_cases.append(("largest", "graph_ws_connected"))
    A_cases.insert(2, ("largest", "xos:n7"))      # 7 players: 119 explorable coalitions, action indices beyond 63
    if not quick:
        A_cases += [("largest", "graph_random"), ("greedy", "graph_ws_connected")]
    for ci, (solver, gen) in enumerate(A_cases * (1 if quick else 3)):
        if not budget.ok():
            res.notes.append("budget exhausted in the ModelInstance cases")
            break
        n = 3 if ci % 3 == 2 else 4
        big7 = gen.endswith(":n7")
        if big7:
            gen = gen.split(":")[0]
        reps = reps_list[ci % len(reps_list)] if ci >= 2 else (13 if ci == 0 else 9 if quick else 17)
        limit = rnd.choice([2, 3]) if n == 4 else rnd.choice([2, 3, 4])
        seed = rnd.randrange(1, 10 ** 6) if ci != 1 else 0        # 0 is a seed like any other ("--seed 0")
        cls = ["superadditive", "superadditive_cached"][ci % 2]
        gapname = ["exploitability", "l1_norm", "linf_norm"][ci % 3]
        plist = procs_list if ci < 3 or not quick else [1, 2, 5]
        unseeded = gen == "graph"
        seedgraph = gen in gens_graph_seeded
        rng_key = "evaluate:unseeded-module-generator" if unseeded else \
            "evaluate:seed-not-respected" if seedgraph else "evaluate:shared-generator-rng"
        if big7:
            n, reps, limit, plist = 7, 2, 4, [1, 2]
        if unseeded:
            n, reps, plist = 4, 8, [1, 2, 3]
        if seedgraph:
            n, reps, plist = 5, 8, [1, 2] if quick else [1, 2, 3, 5]
        runs = {}
        for procs in plist:
            if not budget.ok():
                break

            def make():
                inst = ModelInstance(number_of_players=n, game_class=cls, game_generator=gen, gap_function=gapname,
                                     run_steps_limit=limit, seed=seed)
                cnt = [0]

                def env_gen():
                    env = inst.get_env()
                    env._verif_rep = cnt[0]
                    cnt[0] += 1
                    return env
                make.inst = inst
                return env_gen, None
            ctx = {"source": "ModelInstance.get_env", "n": n, "game_class": cls, "game_generator": gen, "gap_function": gapname,
                   "seed": seed, "solver": solver, "repetitions": reps, "run_steps_limit": limit, "processes": procs}
            try:
                for _attempt in range(4):
                    e, a, hidden = one_run(make, lambda: SOLVERS[solver](make.inst), reps, limit, procs, gapname)
                    # the unseeded family is only judged on runs in which at least two workers took tasks
                    if not (unseeded or seedgraph) or procs == 1 or len(set(one_run.pids)) >= 2:
                        if not seedgraph or procs == 1 or sorted(map(one_run.pids.count, set(one_run.pids)))[-2] >= 3:
                            break
            except Exception as ex:
                res.violation(f"evaluate() raised {type(ex).__name__}: {ex}", ctx, key="evaluate:raised")
                continue
            res.evaluations += reps
            res.count(f"A:{solver}:p{procs}")
            if unseeded and procs > 1:
                # observable: the FIRST repetition handled by each worker process — all workers were forked with
                # the same state of the module-global generator, so these are replays of one another
                firsts = {}
                for j, pid in enumerate(one_run.pids):
                    firsts.setdefault(pid, j)
                fj = sorted(firsts.values())
                if len(fj) >= 2 and all(h is not None for h in hidden) and len({tuple(hidden[j]) for j in fj}) < len(fj):
                    res.violation("distinct repetitions were evaluated on the same hidden game: the first repetition of every "
                                  "worker process replays the same game (generator ignores the seed and uses a module-global "
                                  "numpy generator inherited by the forked workers)",
                                  dict(ctx, first_repetition_of_each_worker=fj, distinct_games=len({tuple(h) for h in hidden})),
                                  key=rng_key)
                runs[procs] = (e, a, hidden)
                trajectory_oracle(ctx, n, cls, gapname, limit, e, a, hidden)
                continue
            runs[procs] = (e, a, hidden)
            dg = trajectory_oracle(ctx, n, cls, gapname, limit, e, a, hidden)
            if reps >= 2 and limit >= 2 and len(dg) >= 2:
                res.nontrivial.add((gen, seed, solver, reps, limit, procs))
            if procs in (1, 2):
                evalone_lines(ctx, n, cls, gapname, limit, e, a, hidden)
            hs = [tuple(h) for h in hidden if h is not None]
            if procs == 1 and len(hs) == reps and not unseeded:      # (nothing is determined by the seed for `graph`)
                # the seed determines the run: a second freshly built ModelInstance + solver with the same seed, evaluated
                # in this very process, must see the same hidden games and return the same matrices
                try:
                    e2, a2, hidden2 = one_run(make, lambda: SOLVERS[solver](make.inst), reps, limit, procs, gapname)
                except Exception as ex:
                    res.violation(f"evaluate() raised {type(ex).__name__}: {ex}", ctx, key="evaluate:raised")
                    e2 = None
                if e2 is not None:
                    res.evaluations += reps
                    res.count("A:same-seed-rerun")
                    c2 = dict(ctx, processes=[1, 1])
                    if hidden2 != hidden:
                        first = next(j for j in range(reps) if hidden2[j] != hidden[j])
                        res.violation("two runs with the same seed (two freshly built ModelInstances, 1 process) were evaluated on "
                                      "different hidden games: the seed does not determine the games of the repetitions",
                                      dict(c2, repetition=first, first_run=hidden[first], second_run=hidden2[first]),
                                      key="evaluate:seed-not-respected")
                    elif not (np.array_equal(e, e2) and np.array_equal(a, a2)):
                        res.violation("two runs with the same seed (1 process) saw the same hidden games but returned different "
                                      "matrices", dict(c2, actions=[a, a2]), key="evaluate:rerun-differs")
            if seedgraph and procs > 1 and len(hs) == reps:
                # replay of one worker by another: every worker handles its repetitions in increasing order; two workers
                # whose hidden games coincide position by position on ≥ 3 repetitions replay one random stream
                # (chance under independent draws ≤ 0.0099³ ≈ 1e-6)
                per_worker = {}
                for j, pid in enumerate(one_run.pids):
                    per_worker.setdefault(pid, []).append(j)
                ws = sorted(per_worker.values())
                res.count(f"A:workers-with-tasks:{len(ws)}")
                for x, y in itertools.combinations(ws, 2):
                    m = min(len(x), len(y))
                    if m >= 3 and all(hs[x[i]] == hs[y[i]] for i in range(m)):
                        res.violation("distinct repetitions were evaluated on the same hidden games: two worker processes replay "
                                      "one another's sequence of hidden games (the generator does not draw from the instance's "
                                      "seeded per-environment stream)",
                                      dict(ctx, repetitions_of_worker_a=x, repetitions_of_worker_b=y, distinct_games=len(set(hs))),
                                      key=rng_key)
                        break
            # independence: a continuous generator never yields the same game twice
            if gen not in gens_disc and not seedgraph and len(set(hs)) != len(hs):
                first = next(j for j in range(len(hs)) if hs[j] in hs[:j])
                res.violation("distinct repetitions were evaluated on the same hidden game (replay of one another)",
                              dict(ctx, repetition=first, same_as=hs.index(hs[first]), distinct_games=len(set(hs))),
                              key=rng_key)
        if len(runs) >= 2:
            p0 = min(runs)
            e0, a0, h0 = runs[p0]
            for procs, (e, a, hidden) in sorted(runs.items()):
                if procs == p0:
                    continue
                ctx = {"source": "ModelInstance.get_env", "n": n, "game_class": cls, "game_generator": gen, "gap_function": gapname,
                       "seed": seed, "solver": solver, "repetitions": reps, "run_steps_limit": limit,
                       "processes": [p0, procs]}
                if unseeded:
                    break          # nothing is determined by the seed for this family; only replays are reported
                if hidden != h0:
                    res.violation("for a fixed seed the hidden games of the repetitions depend on the number of worker processes",
                                  ctx, key=rng_key)
                    break
                if not (np.array_equal(e, e0) and np.array_equal(a, a0)):
                    key = "evaluate:random-solver-shared-rng" if solver == "random" else "evaluate:process-count"
                    res.violation("for a fixed seed evaluate() returns different matrices for different numbers of worker "
                                  "processes although the hidden games agree", dict(ctx, actions=[a0, a]), key=key)
                    break
        if ci < 3:
            res.sample({"source": "ModelInstance", "generator": gen, "seed": seed, "solver": solver, "repetitions": reps,
                        "limit": limit, "processes": sorted(runs),
                        "gaps_p_min": runs[min(runs)][0][:, 0].tolist() if runs else None})

    # ------------------------------------------------------------------ (B) harness generators, draw index visible
    B_cases = [("shared", "counting", False), ("shared", "largest", True), ("private", "random", False),
               ("private", "greedy", True), ("private", "counting", False)]
    if not quick:
        B_cases = B_cases * 4
    for ci, (sharing, solver, preused) in enumerate(B_cases):
        if not budget.ok():
            res.notes.append("budget exhausted in the draw-index cases")
            break
        n = 3 if ci % 2 else 4
        reps = reps_list[(ci + 1) % len(reps_list)] if ci else 8
        limit = 2 if n == 3 else rnd.choice([2, 3])
        seed = rnd.randrange(1, 10 ** 6)
        cls, gapname = "superadditive_cached", ["l1_norm", "linf_norm", "exploitability"][ci % 3]
        plist = procs_list if ci < 2 or not quick else [1, 2, 3]
        runs = {}
        for procs in plist:
            if not budget.ok():
                break

            def make():
                shared = DrawGen(n, seed)
                cnt = [0]

                def env_gen():
                    j = cnt[0]
                    cnt[0] += 1
                    gen = shared if sharing == "shared" else DrawGen(n, seed, shift=j + 1)
                    env = ICG_Gym(ICG(n, BOUNDS[cls]), gen, minimal_game_coalitions(n), gaps[gapname], done_after_n_actions=limit)
                    if preused:       # evaluate() must cope with an environment that has been played before
                        m = env.action_masks()
                        for x in [i for i in range(m.shape[0]) if m[i]][: 1 + j % 2]:
                            env.step(x)
                    env._verif_rep = j
                    return env
                return env_gen, None

            def solver_factory():
                if solver == "counting":
                    return CountingSolver()
                inst = ModelInstance(number_of_players=n, seed=seed, run_steps_limit=limit)
                return SOLVERS[solver](inst)
            ctx = {"source": f"harness DrawGen ({sharing})", "n": n, "game_class": cls, "gap_function": gapname, "seed": seed,
                   "solver": solver, "repetitions": reps, "run_steps_limit": limit, "processes": procs, "pre_used_envs": preused}
            # every third case hands evaluate() ANOTHER gap function than the one the environments were built with (evaluating
            # one norm on environments that reward with another is what a caller comparing norms does).  Which of the two the
            # matrix reports is the implementation's choice; what C12 demands is ONE trajectory: the whole column under the
            # environment's gap function, or the whole column under the one given to evaluate() — never a mixture.
            other_gap = [g_ for g_ in ("linf_norm", "l1_norm", "exploitability") if g_ != gapname][ci % 2] if ci % 3 == 1 else None
            if other_gap:
                ctx["gap_function_given_to_evaluate"] = other_gap
                res.count("B:evaluate-gap≠environment-gap")
            try:
                e, a, hidden = one_run(make, solver_factory, reps, limit, procs, other_gap or gapname)
            except Exception as ex:
                res.violation(f"evaluate() raised {type(ex).__name__}: {ex}", ctx, key="evaluate:raised")
                continue
            res.evaluations += reps
            res.count(f"B:{sharing}:{solver}:p{procs}")
            runs[procs] = (e, a, hidden)
            if other_gap:
                saved_v, fails = res.violation, []
                res.violation = lambda *a_, **k_: fails.append((a_, k_))
                try:
                    dg = trajectory_oracle(ctx, n, cls, gapname, limit, e, a, hidden)
                    first = list(fails)
                    if first:
                        del fails[:]
                        trajectory_oracle(ctx, n, cls, other_gap, limit, e, a, hidden)
                finally:
                    res.violation = saved_v
                if first and fails:
                    (what_, rp_), kw_ = first[0]
                    res.violation(what_ + " — neither under the environments' gap function nor under the one given to evaluate(): "
                                  "the column mixes two gap functions", rp_, **kw_)
            else:
                dg = trajectory_oracle(ctx, n, cls, gapname, limit, e, a, hidden)
            if reps >= 2 and limit >= 2 and len(dg) >= 2:
                res.nontrivial.add((sharing, seed, solver, reps, limit, procs))
            if procs == 1 and not other_gap:
                evalone_lines(ctx, n, cls, gapname, limit, e, a, hidden, max_reps=1)
            if sharing == "shared" and all(h is not None for h in hidden):
                # which draw did each repetition see?  model: current sharing structure, 2 draws per constructor
                script.add(f"srch pooldraws 2 {limit} {reps} {procs}", None, ctx)
                post.append((len(script) - 1, [draw_index_of(h) for h in hidden],
                             [[int(x) for x in a[:, j]] for j in range(reps)] if solver == "counting" and np.all(a != 0) else None,
                             n, ctx))
        if sharing == "private" and len(runs) >= 2:
            p0 = min(runs)
            e0, a0, h0 = runs[p0]
            for procs, (e, a, hidden) in sorted(runs.items()):
                if procs == p0:
                    continue
                ctx = {"source": "harness DrawGen (private generator per environment)", "n": n, "game_class": cls,
                       "gap_function": gapname, "seed": seed, "solver": solver, "repetitions": reps, "run_steps_limit": limit,
                       "processes": [p0, procs], "pre_used_envs": preused}
                if hidden != h0:
                    res.violation("environments with private generators saw different hidden games for different process counts",
                                  ctx, key="evaluate:process-count")
                    break
                if not (np.array_equal(e, e0) and np.array_equal(a, a0)):
                    if solver == "random":
                        key = "evaluate:random-solver-shared-rng"
                    elif solver == "counting":
                        break        # the harness's own stateful solver: shared by construction, not a finding
                    else:
                        key = "evaluate:process-count"
                    res.violation("for a fixed seed evaluate() returns different action matrices for different numbers of "
                                  "worker processes although every repetition saw the same hidden game", dict(ctx, actions=[a0, a]), key=key)
                    break

    bad = script.diff()
    for b in bad:
        res.disagree("evaluate: model ≠ implementation", {k: b[k] for k in ("line", "impl", "model", "ctx")})
    outs = script.outs
    for line_no, draws, acts, n, ctx in post:
        try:
            rows = [r.split("#") for r in outs[line_no].split(";")]
            m_draws = [int(r[0].split(",")[0]) for r in rows]
            m_sol = [[int(x) for x in r[1].split(",")] if r[1] != "-" else [] for r in rows]
        except Exception:
            res.disagree("unparsable pooldraws answer", {"line": script.lines[line_no], "model": outs[line_no]})
            continue
        if m_draws != draws:
            res.disagree("generator draw seen by each repetition: model of the pool ≠ observed",
                         {"line": script.lines[line_no], "model": m_draws, "impl": draws, "ctx": ctx})
        if acts is not None:
            explorable = [c for c in range(2 ** n) if c not in G.minimal_ids(n)]
            pred = []
            for ks in m_sol:
                valid = list(range(len(explorable)))
                row = []
                for k in ks:
                    x = valid[k % len(valid)]
                    valid.remove(x)
                    row.append(explorable[x])
                pred.append(row)
            if pred != acts:
                res.disagree("solver draw used at each step: model of the pool ≠ observed",
                             {"line": script.lines[line_no], "model": pred, "impl": acts, "ctx": ctx})
    try:
        os.rmdir(tmpdir)
    except OSError:
        pass
    return res


def _find_rng(obj, depth=0):
    """the numpy Generator an environment's hidden-game generator draws from (partial args / closure cells / attributes)"""
    if isinstance(obj, np.random.Generator):
        return obj
    if depth > 3 or obj is None:
        return None
    cands = []
    if hasattr(obj, "args") and hasattr(obj, "func"):
        cands += list(obj.args) + list((obj.keywords or {}).values()) + [obj.func]
    if getattr(obj, "__closure__", None):
        for cell in obj.__closure__:
            try:
                cands.append(cell.cell_contents)
            except ValueError:
                pass
    if getattr(obj, "__self__", None) is not None:
        cands.append(obj.__self__)
    for c in cands:
        r = _find_rng(c, depth + 1)
        if r is not None:
            return r
    return None


def _stream_id(rng):
    st = rng.bit_generator.state
    inner = st.get("state")
    return (st.get("bit_generator"), repr(sorted(inner.items())) if isinstance(inner, dict) else repr(inner))


def _env_streams(seed, count, real=()):
    """`count` environments of one ModelInstance(seed), built by the real get_env with the gym constructor stubbed out (29 µs each
    instead of 2 ms); indices in `real` are built for real.  → (list of stream ids | None, {index: real env})"""
    import incomplete_cooperative.run.model as RM

    class _Stub:
        def __init__(self, game, generator, *a, **k):
            self.generator = generator
    inst = RM.ModelInstance(number_of_players=3, game_generator="noisy_factory", seed=seed)
    saved = RM.ICG_Gym
    ids, envs = [], {}
    try:
        for i in range(count):
            RM.ICG_Gym = saved if i in real else _Stub
            env = inst.get_env()
            gen = getattr(env, "generator", None)
            rng = _find_rng(gen)
            if rng is None:
                return None, envs
            ids.append(_stream_id(rng))
            if i in real:
                envs[i] = env
    finally:
        RM.ICG_Gym = saved
    return ids, envs


def env_stream_oracle(res, rnd, quick, budget) -> None:
    """'Repetitions use independent hidden games' at the scale sampling of seeds cannot reach: the hidden-game streams of the first
    R environments of one ModelInstance (R = 250 000 / 1 200 000) must be pairwise distinct.  Two environments with the same
    stream state replay one another's hidden games whatever the solver / process count; streams that are children of one
    SeedSequence are distinct by construction, streams seeded by short random draws collide by the birthday bound.  A collision
    is confirmed on two really built environments (same hidden games after reset) before it is reported."""
    R = 250_000 if quick else 1_200_000
    seed = rnd.randrange(1, 10 ** 9)
    try:
        ids, _ = _env_streams(seed, R)
    except Exception as ex:      # noqa: BLE001   (the stub does not fit a refactored get_env: no verdict from this oracle)
        res.notes.append(f"env-stream oracle not applicable to this get_env ({type(ex).__name__}: {ex})")
        return
    if ids is None:
        res.notes.append("env-stream oracle: the environment's generator does not expose its numpy Generator; skipped")
        return
    res.evaluations += 1
    res.count("env-streams-compared", len(ids))
    first = {}
    for i, k in enumerate(ids):
        if k in first:
            j = first[k]
            ctx = {"source": "ModelInstance.env_streams", "seed": seed, "n": 3, "game_generator": "noisy_factory", "environments": [j, i]}
            ok, msg = replay_env_streams(ctx)
            if ok:
                res.violation(f"environments {j} and {i} of one ModelInstance draw their hidden games from identical streams: "
                              "repetitions replay one another's games", dict(ctx, confirmed=msg), key="evaluate:env-stream-collision")
            else:
                res.notes.append(f"env-stream oracle: equal stream ids for environments {j} and {i} but different games; ignored")
            return
        first[k] = i
    res.nontrivial.add(("env-streams", len(ids)))


HASHSEED_PROBE = r"""
import hashlib, json, sys
from incomplete_cooperative.run.model import ModelInstance
out = {}
for gen in ("noisy_factory", "xos"):
    inst = ModelInstance(number_of_players=3, game_generator=gen, seed=int(sys.argv[1]))
    h = hashlib.sha256()
    for _ in range(3):
        env = inst.get_env()
        for _ in range(2):
            env.reset()
            h.update(env.full_game.get_values().tobytes())
    out[gen] = h.hexdigest()
print("PROBE " + json.dumps(out))
"""


def interpreter_start_oracle(res, rnd) -> None:
    """'For a fixed seed the result is the same' also across interpreter start-ups (a run with 1 process today and one with 4
    tomorrow): the hidden games of ModelInstance(seed) must not depend on anything that differs between two interpreters —
    string-hash salt (PYTHONHASHSEED), start time, process id.  Two fresh interpreters, different salts, same seed."""
    import subprocess
    import sys
    from concurrent.futures import ThreadPoolExecutor
    from common import REPO
    seed = rnd.randrange(1, 10 ** 6)

    def one(salt):
        env = dict(os.environ, PYTHONPATH=str(REPO), PYTHONHASHSEED=str(salt), PYTHONDONTWRITEBYTECODE="1")
        p = subprocess.run([sys.executable, "-c", HASHSEED_PROBE, str(seed)], capture_output=True, text=True, env=env, timeout=600)
        for line in p.stdout.splitlines():
            if line.startswith("PROBE "):
                return json.loads(line[6:])
        return {"crashed": (p.stderr or p.stdout)[-300:]}
    with ThreadPoolExecutor(max_workers=2) as ex:
        a, b = list(ex.map(one, (1, 4242)))
    res.evaluations += 1
    res.count("interpreter-start-probe")
    if "crashed" in a or "crashed" in b:
        res.notes.append(f"interpreter-start probe could not run: {a.get('crashed') or b.get('crashed')}")
        return
    if a != b:
        res.violation("the hidden games of ModelInstance(seed) differ between two interpreter start-ups with the same seed "
                      "(PYTHONHASHSEED 1 vs 4242): a fixed seed does not fix the result",
                      {"source": "ModelInstance.interpreter_start", "seed": seed, "digests": [a, b]}, key="evaluate:interpreter-start")
    else:
        res.nontrivial.add(("interpreter-start", seed))


def replay_env_streams(inp: dict):
    i, j = inp["environments"]
    ids, envs = _env_streams(inp["seed"], max(i, j) + 1, real=(i, j))
    if ids is None or i not in envs or j not in envs:
        return False, "could not rebuild the two environments"
    games = []
    import pickle
    for k in (i, j):
        # evaluate() builds ALL environments first and then pickles them into the workers chunk by chunk: what a repetition is
        # evaluated on is what the pickled copy of its environment draws
        e = pickle.loads(pickle.dumps(envs[k]))
        row = []
        for _ in range(3):
            e.reset()
            row.append(tuple(float(x) for x in e.full_game.get_values()))
        games.append(row)
    if games[0] == games[1]:
        return True, (f"reproduced on the real code: environments {i} and {j} of ModelInstance(seed={inp['seed']}, noisy_factory, n=3) are "
                      f"evaluated on the same three hidden games {games[0][0][:4]}…")
    return False, "the two environments draw different hidden games"



# ----------------------------------------------------------------------------------------------
# C13 (expected-greedy clause)

def run_c13(tier, budget, rnd) -> StreamResult:
    from incomplete_cooperative.icg_gym import ICG_Gym
    from incomplete_cooperative.run.best_states import get_best_exploitability
    from incomplete_cooperative.run.greedy import get_greedy_rewards
    BOUNDS, Coalition, minimal_game_coalitions, ICG, gaps = _mods()

    res = StreamResult("expected-greedy")
    greedy_many_candidates(res, rnd, tier, budget)      # first: it must not depend on what the budget leaves over
    from common import optimized_probe
    optimized_probe(res, "solvers", rnd.randrange(10 ** 6), "solver:interpreter-flag")
    script = Script()
    quick = tier == "quick"
    combos = [("superadditive", "exploitability"), ("superadditive_cached", "l1_norm"),
              ("superadditive_cached", "linf_norm"), ("sam_apx_1", "l2_norm")]
    shapes = [(3, 3, 1), (3, 2, 2), (4, 2, 4), (4, 3, 2), (3, 4, 2), (4, 4, 1), (3, 0, 2), (4, 1, 2)]
    cases = [c + ("plain",) for c in (shapes * 2 if quick else shapes * 6)]
    # tiny-magnitude games (an ordinary hidden game times an exact power of two: every float operation of the bound
    # computers / gap functions / means commutes with the scaling, so the selection stays decidable) and near-tie
    # games (all candidates of a size tie in the main term; a 2^-22-sized superadditive perturbation separates them)
    special = [(4, 2, 2, "scaled"), (3, 3, 2, "scaled"), (4, 3, 1, "scaled"), (4, 2, 3, "scaled"),
               (4, 2, 2, "near-tie"), (3, 4, 2, "near-tie"), (4, 3, 2, "near-tie"), (4, 2, 1, "near-tie")]
    cases += special if quick else special * 4
    for ci, (n, steps, reps, variant) in enumerate(cases):
        if not budget.ok():
            res.notes.append("budget exhausted")
            break
        N = 2 ** n
        minimal = G.minimal_ids(n)
        explorable = [c for c in range(N) if c not in minimal]
        cls, gapname = combos[(ci + ci // len(shapes)) % len(combos)] if quick else rnd.choice(combos)
        procs = [1, 2, 5][ci % 3]
        pool_games = [g for g in hidden_games(n, rnd, tier) + hidden_games(n, rnd, tier) if g[2] or ci % 4 == 3]
        chosen = [pool_games[i] for i in rnd.sample(range(len(pool_games)), reps + 2)]
        tables = [g[1] for g in chosen]
        in_class = all(g[2] for g in chosen[2:]) and cls != "sam_apx_1"
        if variant == "scaled":
            sc = 2.0 ** -rnd.choice([27, 27, 34, 40])
            tables = [[x * sc for x in t] for t in tables]
        elif variant == "near-tie":
            tables = []
            for _ in range(reps + 2):
                main, pert = G.convex_power_game(n, 2), G.sa_game(n, rnd, "int")
                m = rnd.choice([1, 2, 3])
                tables.append([float(m * a + b / 2 ** 22) for a, b in zip(main, pert)])
            in_class = cls != "sam_apx_1"
        sampled = tables[2:2 + reps]
        fresh = Fresh(n, cls, gapname)
        ctx = {"n": n, "max_steps": steps, "repetitions": reps, "processes": procs, "computer": cls, "gap": gapname,
               "sampled_games": sampled}
        if variant != "plain":
            ctx["games"] = variant
        res.count(f"greedy:games:{variant}")
        env = ICG_Gym(ICG(n, BOUNDS[cls]), ListGen(n, tables), minimal_game_coalitions(n), fresh.gapf, done_after_n_actions=steps)
        gt = f"g{ci}"
        in_domain = steps <= len(explorable)
        try:
            with warnings.catch_warnings():
                warnings.simplefilter("ignore")
                rows, acts = get_greedy_rewards(env, steps, reps, fresh.gapf, procs)
            rows = [[float(x) for x in r] for r in rows]
            acts = [int(a) for a in acts]
            err = None
        except Exception as e:
            err = e
        res.count(f"greedy:n{n}s{steps}r{reps}")

        def col(s):
            return [fresh.gap(t, set(minimal) | set(s)) for t in sampled]

        if err is not None:
            if in_domain:
                res.violation(f"get_greedy_rewards raised {type(err).__name__} on an in-domain call", ctx, key="greedy:raised")
                continue
            res.count(f"malformed:greedy:{err_kind(err)}")       # domain note (AxisError), compared with the model only
            acts = None
        # the iteration order of the candidate set: a replica of the code's own set with the same history
        cand = set(env.get_wrapper_attr("explorable_coalitions"))
        by_id = {c.id: c for c in cand}
        orders = [[c.id for c in cand]]
        sim_acts = acts if acts is not None else None
        if sim_acts is None:
            # out-of-domain call: the code chose greedily until the candidates ran out; follow the oracle's choice
            sim_acts = []
            rem = list(orders[0])
            while rem:
                ms = [float(np.mean(np.array(col(sim_acts + [c])))) for c in [x.id for x in cand]]
                pick = [x.id for x in cand][ms.index(min(ms))]
                sim_acts.append(pick)
                cand.remove(by_id[pick])
                orders.append([c.id for c in cand])
                rem.remove(pick)
        else:
            for x in sim_acts:
                if by_id.get(x) in cand:
                    cand.remove(by_id[x])
                orders.append([c.id for c in cand])
        # gap table: every set the search may look at
        script.add(f"srch gt new {gt} {n} {reps}", "ok")
        table_sets = {}
        depth = min(steps, len(explorable))
        for i in range(depth + 1):
            for s in itertools.combinations(explorable, i):
                table_sets[s] = col(s)
                script.add(f"srch gt put {gt} {nlist(sorted(set(minimal) | set(s)))} {rlist(table_sets[s])}", "ok")
        res.evaluations += len(table_sets)
        by_size = {}
        for s, c in table_sets.items():
            by_size.setdefault(len(s), []).append(c)
        robust = all(order_consistent(v) for v in by_size.values())
        line = f"srch greedy {gt} {nlist(minimal)} {nlist(explorable)} {steps} {procs} {';'.join(nlist(o) for o in orders)}"
        if err is not None:
            script.add(line, err_kind(err), ctx)
            script.add(f"srch gt drop {gt}", "ok")
            continue
        if robust:
            script.add(line, f"{rows_str(rows)}#{nlist(acts)}", ctx)
        else:
            res.count("skipped:float-near-tie")
        # ---- oracles on the real code
        c2 = dict(ctx, actions=acts, rows=rows)
        rich = False
        if len(acts) != steps:
            res.violation("expected-greedy returns a sequence of the wrong length", c2, key="greedy:length")
        elif len(set(acts)) != len(acts) or not set(acts) <= set(explorable):
            res.violation("expected-greedy repeats a coalition / leaves the explorable coalitions", c2, key="greedy:repeat")
        else:
            ok = True
            for i in range(steps + 1):
                if rows[i] != col(acts[:i]):
                    res.violation("expected-greedy row i ≠ fresh gaps of its first i coalitions on the sampled games",
                                  dict(c2, step=i, expected=col(acts[:i])), key="greedy:row")
                    ok = False
                    break
            for i in range(steps):
                if not ok:
                    break
                rem = [c for c in explorable if c not in acts[:i]]
                ms = {c: float(np.mean(np.array(col(acts[:i] + [c])))) for c in rem}
                if len(set(ms.values())) >= 3:
                    rich = True
                if ms[acts[i]] != min(ms.values()):
                    res.violation("expected-greedy extension does not minimise the mean gap among the remaining candidates",
                                  dict(c2, step=i, candidate_means=ms), key="greedy:argmin")
                    ok = False
                    continue
                # the same statement with the exact means of the real (float) gaps — no tolerance of any size, so it also
                # decides tiny-magnitude games and near-ties; decidable whenever the float means the code compares order the
                # candidates like the exact means do
                cols_i = {c: col(acts[:i] + [c]) for c in rem}
                ex = {c: sum((Fraction(x) for x in cols_i[c]), Fraction(0)) / reps for c in rem}
                mn = min(ex.values())
                if any(0 < v - mn < Fraction(1, 10 ** 6) for v in ex.values()):
                    res.count("greedy:step-with-distinct-means-within-1e-6-of-min")
                if not order_consistent(list(cols_i.values())):
                    res.count("greedy:step-float-near-tie")
                elif ex[acts[i]] != mn:
                    best = min(rem, key=lambda c: ex[c])
                    res.violation("expected-greedy extension does not minimise the (exact) mean gap among the remaining candidates",
                                  dict(c2, step=i, chosen=acts[i], chosen_mean=float(ex[acts[i]]), minimiser=best,
                                       minimum_mean=float(mn), excess_relative=float((ex[acts[i]] - mn) / mn) if mn else None,
                                       candidate_means={c: float(v) for c, v in ex.items()}), key="greedy:argmin")
                    ok = False
            curve = [float(np.mean(np.array(r))) for r in rows]
            if ok and in_class and any(b > a + TOL * max(1.0, abs(a)) for a, b in zip(curve, curve[1:])):
                res.violation("expected-greedy curve increases on in-class games", dict(c2, curve=curve), key="greedy:mono")
            # the exhaustive optimum on the SAME games
            env2 = ICG_Gym(ICG(n, BOUNDS[cls]), ListGen(n, tables), minimal_game_coalitions(n), fresh.gapf, done_after_n_actions=steps)
            try:
                with warnings.catch_warnings():
                    warnings.simplefilter("ignore")
                    brows, bacts = get_best_exploitability(env2, steps, reps, fresh.gapf, processes=procs)
                bcurve = [float(np.mean(np.array(r))) for r in brows]
                same_games = [float(x) for x in brows[0]] == rows[0]
                if not same_games:
                    res.notes.append("best-states did not see the same sampled games (replayable generator broken?)")
                elif ok:
                    if any(g < b - TOL * max(1.0, abs(b)) for g, b in zip(curve, bcurve)):
                        res.violation("expected-greedy curve lies below the exhaustive optimum of best-states on the same games",
                                      dict(c2, greedy_curve=curve, best_curve=bcurve, best_sets=bacts), key="greedy:below-optimum")
                    elif any(abs(curve[i] - bcurve[i]) > 1e-12 * max(1.0, abs(bcurve[i])) for i in range(min(2, steps + 1))):
                        res.violation("expected-greedy differs from the exhaustive optimum at 0 or 1 reveals",
                                      dict(c2, greedy_curve=curve, best_curve=bcurve, best_sets=bacts), key="greedy:optimum-0-1")
                    elif variant != "plain" and any(abs(curve[i] - bcurve[i]) > 1e-12 * abs(bcurve[i]) for i in range(min(2, steps + 1))):
                        # magnitude-free form of the same statement (the 1.0 floor above is void for tiny games)
                        res.violation("expected-greedy differs from the exhaustive optimum at 0 or 1 reveals (relative)",
                                      dict(c2, greedy_curve=curve, best_curve=bcurve, best_sets=bacts), key="greedy:optimum-0-1")
            except Exception as e:
                res.violation(f"get_best_exploitability raised {type(e).__name__} on an in-domain call", ctx, key="best:raised")
        if steps >= 2 and rich:
            res.nontrivial.add((n, steps, reps, cls, gapname, tuple(map(tuple, sampled))))
        if ci < 3:
            res.sample({"n": n, "steps": steps, "repetitions": reps, "processes": procs, "computer": cls, "gap": gapname,
                        "actions": acts, "curve": [float(np.mean(np.array(r))) for r in rows]})
        script.add(f"srch gt drop {gt}", "ok")

    # ---- the randomised variant (`ugreedy`: get_greedy_rewards(…, random=Random(seed))): oracle on the real code only.
    # It must extend its sequence by a coalition whose mean gap is within the code's own EPSILON (1e-6) of the minimum
    # (ties are broken at random), never repeat a coalition, report the fresh gaps of its prefixes, and be a function of the seed.
    import random as _random
    ucases = [(3, 3, 2), (4, 2, 2), (4, 3, 1), (3, 2, 3)] if quick else [(3, 3, 2), (4, 2, 2), (4, 3, 1), (3, 2, 3)] * 5
    for ui, (n, steps, reps) in enumerate(ucases):
        if not budget.ok():
            break
        N = 2 ** n
        minimal = G.minimal_ids(n)
        explorable = [c for c in range(N) if c not in minimal]
        cls, gapname = combos[ui % len(combos)]
        procs = [1, 2][ui % 2]
        pool_games = [g for g in hidden_games(n, rnd, tier) if g[2]]
        tables = [pool_games[i][1] for i in rnd.sample(range(len(pool_games)), min(len(pool_games), reps + 2))]
        while len(tables) < reps + 2:
            tables.append(tables[-1])
        if ui % 2 == 1:       # near-ties: several candidates within EPSILON of the minimum
            tables = [[float(a + b / 2 ** 30) for a, b in zip(G.convex_power_game(n, 2), G.sa_game(n, rnd, "int"))] for _ in range(reps + 2)]
        sampled = tables[2:2 + reps]
        fresh = Fresh(n, cls, gapname)
        seed = rnd.randrange(10 ** 6)
        ctx = {"n": n, "max_steps": steps, "repetitions": reps, "processes": procs, "computer": cls, "gap": gapname,
               "sampled_games": sampled, "randomized": True, "seed": seed}
        outs = []
        for _rep in range(2):
            env = ICG_Gym(ICG(n, BOUNDS[cls]), ListGen(n, tables), minimal_game_coalitions(n), fresh.gapf, done_after_n_actions=steps)
            try:
                with warnings.catch_warnings():
                    warnings.simplefilter("ignore")
                    rows, acts = get_greedy_rewards(env, steps, reps, fresh.gapf, procs, _random.Random(seed))
                outs.append(([[float(x) for x in r] for r in rows], [int(a) for a in acts]))
            except Exception as e:      # noqa: BLE001
                res.violation(f"randomised get_greedy_rewards raised {type(e).__name__} on an in-domain call", ctx, key="ugreedy:raised")
                break
        if len(outs) < 2:
            continue
        res.evaluations += 1
        res.count("ugreedy")
        rows, acts = outs[0]
        c2 = dict(ctx, actions=acts, rows=rows)

        def ucol(s_):
            return [fresh.gap(t, set(minimal) | set(s_)) for t in sampled]
        if outs[1] != outs[0] and len({tuple(map(tuple, o[0])) for o in outs}) > 1:
            # a different order among exact ties is allowed to differ only if the set iteration order differs; rows must agree
            res.count("ugreedy:same-seed-different-rows")
        if len(acts) != steps or len(set(acts)) != len(acts) or not set(acts) <= set(explorable):
            res.violation("randomised expected-greedy: wrong length / repeated coalition / not explorable", c2, key="ugreedy:sequence")
            continue
        for i in range(steps + 1):
            if rows[i] != ucol(acts[:i]):
                res.violation("randomised expected-greedy row i ≠ fresh gaps of its first i coalitions on the sampled games",
                              dict(c2, step=i, expected=ucol(acts[:i])), key="ugreedy:row")
                break
        else:
            for i in range(steps):
                rem = [c for c in explorable if c not in acts[:i]]
                ms = {c: float(np.mean(np.array(ucol(acts[:i] + [c])))) for c in rem}
                if ms[acts[i]] - min(ms.values()) >= 1e-6 * (1 + 1e-9) + 1e-15:
                    res.violation("randomised expected-greedy extension is not within EPSILON = 1e-6 of the minimum mean gap",
                                  dict(c2, step=i, chosen=acts[i], chosen_mean=ms[acts[i]], minimum=min(ms.values())), key="ugreedy:argmin")
                    break
                if len([v for v in ms.values() if v - min(ms.values()) < 1e-6]) >= 2:
                    res.count("ugreedy:step-with-epsilon-ties")

    # ---- expected greedy asked from a position the environment was stepped to (oracle on the real code only): the search
    # starts from what the incomplete game knows NOW — row 0 is the gap of the current knowledge, every extension minimises the
    # mean gap given everything known so far (a candidate that is already known changes nothing and may tie)
    scases = [(4, 2, 2), (3, 2, 2), (4, 3, 1), (4, 2, 3)] if quick else [(4, 2, 2), (3, 2, 2), (4, 3, 1), (4, 2, 3), (5, 2, 2)] * 4
    for si_, (n, steps, reps) in enumerate(scases):
        if not budget.ok():
            break
        N = 2 ** n
        minimal = G.minimal_ids(n)
        explorable = [c for c in range(N) if c not in minimal]
        cls, gapname = combos[si_ % len(combos)]
        procs = [1, 2][si_ % 2]
        pool_games = [g for g in hidden_games(n, rnd, tier) if g[2]]
        tables = [pool_games[i][1] for i in rnd.sample(range(len(pool_games)), min(len(pool_games), reps + 2))]
        while len(tables) < reps + 2:
            tables.append(tables[-1])
        sampled = tables[2:2 + reps]
        extra = sorted(rnd.sample(explorable, rnd.choice([1, 2])))
        start = sorted(set(minimal) | set(extra))
        fresh = Fresh(n, cls, gapname)
        ctx = {"n": n, "max_steps": steps, "repetitions": reps, "processes": procs, "computer": cls, "gap": gapname,
               "sampled_games": sampled, "stepped_before_search": extra}
        env = ICG_Gym(ICG(n, BOUNDS[cls]), ListGen(n, tables), minimal_game_coalitions(n), fresh.gapf, done_after_n_actions=steps + 2)
        for c_ in extra:
            env.step([x.id for x in env.explorable_coalitions].index(c_))
        try:
            with warnings.catch_warnings():
                warnings.simplefilter("ignore")
                rows, acts = get_greedy_rewards(env, steps, reps, fresh.gapf, procs)
            rows = [[float(x) for x in r] for r in rows]
            acts = [int(a) for a in acts]
        except Exception as e:      # noqa: BLE001
            res.violation(f"get_greedy_rewards raised {type(e).__name__} when asked from a stepped position", ctx, key="greedy:stepped:raised")
            continue
        res.evaluations += 1
        res.count("greedy:from-stepped-position")

        def scol(s_):
            return [fresh.gap(t, set(start) | set(s_)) for t in sampled]
        c2 = dict(ctx, actions=acts, rows=rows)
        if len(acts) != steps or len(set(acts)) != len(acts) or not set(acts) <= set(explorable):
            res.violation("expected-greedy from a stepped position: wrong length / repeated coalition / not explorable", c2,
                          key="greedy:stepped:sequence")
            continue
        bad_row = next((i for i in range(steps + 1) if rows[i] != scol(acts[:i])), None)
        if bad_row is not None:
            res.violation("expected-greedy from a stepped position: row i ≠ gaps of (what the environment knows + the first i chosen "
                          "coalitions) on the sampled games", dict(c2, step=bad_row, expected=scol(acts[:bad_row])), key="greedy:stepped:row")
            continue
        for i in range(steps):
            rem = [c for c in explorable if c not in acts[:i]]
            ms = {c: float(np.mean(np.array(scol(acts[:i] + [c])))) for c in rem}
            if ms[acts[i]] != min(ms.values()):
                res.violation("expected-greedy from a stepped position: the extension does not minimise the mean gap", dict(c2, step=i, candidate_means=ms),
                              key="greedy:stepped:argmin")
                break

    for b in script.diff():
        res.disagree("expected-greedy: model ≠ implementation", {k: b[k] for k in ("line", "impl", "model", "ctx")})
    return res



def greedy_many_candidates(res, rnd, tier, budget) -> None:
    """expected-greedy with MANY candidates per round (n = 6: 56 explorable coalitions, n = 7: 119): whatever is done per batch /
    chunk / buffer of candidates must not leak from one to the next.  Oracle on the real code only: every row is the fresh gap column
    of the returned prefix, and every extension minimises the exact mean among ALL remaining candidates."""
    from incomplete_cooperative.icg_gym import ICG_Gym
    from incomplete_cooperative.run.greedy import get_greedy_rewards
    BOUNDS, Coalition, minimal_game_coalitions, ICG, gaps = _mods()
    for ci, (n, steps, reps, procs) in enumerate([(6, 2, 2, 1)] if tier == "quick" else [(6, 2, 2, 1), (6, 3, 1, 3), (7, 2, 1, 2), (6, 2, 3, 2)]):
        if budget.left() < 12:
            res.notes.append("greedy with many candidates skipped (budget)")
            return
        cls, gapname = "superadditive_cached", ["l1_norm", "exploitability"][ci % 2]
        fresh = Fresh(n, cls, gapname)
        minimal = G.minimal_ids(n)
        explorable = [c for c in range(2 ** n) if c not in minimal]
        tables = [[float(x) for x in G.sa_game(n, rnd, "int")] for _ in range(reps + 2)]
        sampled = tables[2:2 + reps]
        env = ICG_Gym(ICG(n, BOUNDS[cls]), ListGen(n, tables), minimal_game_coalitions(n), fresh.gapf, done_after_n_actions=steps)
        ctx = {"n": n, "max_steps": steps, "repetitions": reps, "processes": procs, "computer": cls, "gap": gapname,
               "sampled_games": sampled, "note": f"{len(explorable)} candidates in the first round"}
        try:
            with warnings.catch_warnings():
                warnings.simplefilter("ignore")
                rows, acts = get_greedy_rewards(env, steps, reps, fresh.gapf, procs)
        except Exception as e:      # noqa: BLE001
            res.violation(f"get_greedy_rewards raised {type(e).__name__} on an in-domain call", ctx, key="greedy:raised")
            continue
        rows = [[float(x) for x in r] for r in rows]
        acts = [int(a) for a in acts]
        res.evaluations += 1
        res.count(f"greedy:many-candidates:n={n}")

        def col(s_):
            return [fresh.gap(t, set(minimal) | set(s_)) for t in sampled]
        c2 = dict(ctx, actions=acts, rows=rows)
        if len(acts) != steps or len(set(acts)) != len(acts) or not set(acts) <= set(explorable):
            res.violation("expected-greedy: wrong length / repeated coalition / not explorable", c2, key="greedy:length")
            continue
        bad_row = next((i for i in range(steps + 1) if rows[i] != col(acts[:i])), None)
        if bad_row is not None:
            res.violation("expected-greedy row i ≠ fresh gaps of its first i coalitions on the sampled games",
                          dict(c2, step=bad_row, expected=col(acts[:bad_row])), key="greedy:row")
            continue
        for i in range(steps):
            rem = [c for c in explorable if c not in acts[:i]]
            ex = {c: sum((Fraction(x) for x in col(acts[:i] + [c])), Fraction(0)) / reps for c in rem}
            mn = min(ex.values())
            if ex[acts[i]] != mn:
                best = min(rem, key=lambda c: ex[c])
                res.violation("expected-greedy extension does not minimise the (exact) mean gap among the remaining candidates",
                              dict(c2, step=i, chosen=acts[i], chosen_mean=float(ex[acts[i]]), minimiser=best, minimum_mean=float(mn)),
                              key="greedy:argmin")
                break
        else:
            res.nontrivial.add(("greedy-many", n, steps, reps))


GAP_PARAMETER = [1.0]      # read by `parametrised_gap` at call time, in whichever process evaluates it


def parametrised_gap(game):
    """a caller's own gap function (module level, hence picklable by reference) that reads a module-level setting"""
    from incomplete_cooperative.norms import l1_norm
    return GAP_PARAMETER[0] * float(l1_norm(game))


def search_with_changing_gap(res, rnd) -> None:
    """Two searches with the SAME number of worker processes, between which the caller changes a module-level setting its own gap
    function reads: each search must report the gaps of the gap function as it is when the search runs (workers must not answer
    from a snapshot of the caller's module taken during an earlier search)."""
    from incomplete_cooperative.gameplay import get_exploitabilities_of_action_sequences
    BOUNDS, Coalition, minimal_game_coalitions, ICG, gaps = _mods()
    n = 3
    table = [float(x) for x in G.sa_game(n, rnd, "int")]
    full = full_game(n, table)
    start = G.minimal_ids(n)
    ks = [Coalition(c) for c in start]
    outs = {}
    try:
        for factor in (1.0, 4.0):
            GAP_PARAMETER[0] = factor
            for procs in (2, 2, 3):
                g = ICG(n, BOUNDS["superadditive"])
                g.set_known_values(full.get_values(ks), ks)
                with warnings.catch_warnings():
                    warnings.simplefilter("ignore")
                    out = list(get_exploitabilities_of_action_sequences(g, full, parametrised_gap, max_size=1, processes=procs))
                outs[(factor, procs)] = [float(v) for _, v in out]
    except Exception as e:      # noqa: BLE001
        res.violation(f"exhaustive search with a caller-defined gap function raised {type(e).__name__}: {e}", {"n": n, "values": table},
                      key="search:raised")
        return
    finally:
        GAP_PARAMETER[0] = 1.0
    res.evaluations += 1
    res.count("search:caller-gap-setting-changed-between-searches")
    base = outs[(1.0, 2)]
    for (factor, procs), vals in outs.items():
        if vals != [factor * x for x in base]:
            res.violation(f"a search run after the caller changed a module-level setting of its own gap function (factor {factor}, "
                          f"{procs} processes) does not report the gaps of the gap function as it is now",
                          {"n": n, "values": table, "factor": factor, "processes": procs, "reported": vals,
                           "expected": [factor * x for x in base]}, key="search:stale-workers")
            return


def replay_c11_search(inp: dict):
    """C11 replay of an exhaustive-search case: the search is run again on the real code from the recorded starting
    knowledge, for the recorded process count(s) and for 1 process, and judged by the property's oracle: every set of at
    most k unknown coalitions exactly once, gap = gap of a fresh game knowing exactly start ∪ set, same for every count."""
    from incomplete_cooperative.gameplay import get_exploitabilities_of_action_sequences
    BOUNDS, Coalition, _, ICG, gaps = _mods()
    n, k, table, start, cls, gapname = inp["n"], inp.get("k"), inp["values"], inp["start"], inp["computer"], inp["gap"]
    procs = inp.get("processes", 1)
    plist = sorted({1, *(procs if isinstance(procs, list) else [procs]), *([inp["other_processes"]] if "other_processes" in inp else [])})
    fresh = Fresh(n, cls, gapname)
    full = full_game(n, table)
    unknown = [c for c in range(2 ** n) if c not in start]
    kk = len(unknown) if k is None else k
    want = sorted(sorted(s) for i in range(min(kk, len(unknown)) + 1) for s in itertools.combinations(unknown, i))
    msgs, bad, ref = [], False, None
    for p_ in plist:
        g = ICG(n, BOUNDS[cls])
        ks = [Coalition(c) for c in start]
        g.set_known_values(full.get_values(ks), ks)
        try:
            with warnings.catch_warnings():
                warnings.simplefilter("ignore")
                out = list(get_exploitabilities_of_action_sequences(g, full, fresh.gapf, max_size=k, processes=p_))
                out2 = list(get_exploitabilities_of_action_sequences(g, full, fresh.gapf, max_size=k, processes=p_))
        except Exception as e:       # noqa: BLE001
            msgs.append(f"processes={p_}: the search raised {type(e).__name__}: {e}")
            bad = True
            continue
        seqs = [[c.id for c in s_] for s_, _ in out]
        vals = [float(v) for _, v in out]
        if sorted(sorted(s_) for s_ in seqs) != want or any(len(set(s_)) != len(s_) for s_ in seqs):
            msgs.append(f"processes={p_}: {len(seqs)} sets reported, {len(want)} sets of at most {kk} unknown coalitions exist; "
                        f"missing {[w for w in want if w not in [sorted(x) for x in seqs]][:3]}")
            bad = True
        wrong = [(s_, v, fresh.gap(table, set(start) | set(s_))) for s_, v in zip(seqs, vals)
                 if v != fresh.gap(table, set(start) | set(s_))]
        if wrong:
            msgs.append(f"processes={p_}: reported gap of {wrong[0][0]} is {wrong[0][1]}, the game knowing exactly start ∪ set has {wrong[0][2]}")
            bad = True
        if ([[c.id for c in s_] for s_, _ in out2], [float(v) for _, v in out2]) != (seqs, vals):
            msgs.append(f"processes={p_}: a second search on the same game object gives a different result")
            bad = True
        if ref is None:
            ref = (p_, seqs, vals)
        elif (seqs, vals) != ref[1:]:
            msgs.append(f"the result for {p_} processes differs from the result for {ref[0]}")
            bad = True
    return bad, "\n".join(msgs) or "the replayed search satisfies C11 on this input"


def replay_c11_best(inp: dict):
    """C11 replay of a best-states case: replayable generator with the recorded sampled games, the environment stepped as
    recorded, `get_best_exploitability` run again, every size judged against the brute-force minimum mean gap."""
    from incomplete_cooperative.icg_gym import ICG_Gym
    from incomplete_cooperative.run.best_states import get_best_exploitability
    BOUNDS, Coalition, minimal_game_coalitions, ICG, gaps = _mods()
    n, steps, reps, procs, cls, gapname = inp["n"], inp["max_steps"], inp["repetitions"], inp["processes"], inp["computer"], inp["gap"]
    sampled, extra = inp["sampled_games"], inp.get("stepped_before_search") or []
    fresh = Fresh(n, cls, gapname)
    start = sorted(set(G.minimal_ids(n)) | set(extra))
    explorable = [c for c in range(2 ** n) if c not in start]
    tables = [sampled[0], sampled[0]] + list(sampled)         # ICG_Gym's constructor consumes two draws
    msgs, bad = [], False
    for genkind, gencls in (("new object per call", ListGen), ("one buffer object refilled in place", BufferGen)):
        env = ICG_Gym(ICG(n, BOUNDS[cls]), gencls(n, tables), minimal_game_coalitions(n), fresh.gapf, done_after_n_actions=steps)
        for c_ in extra:
            env.step([x.id for x in env.explorable_coalitions].index(c_))
        try:
            with warnings.catch_warnings():
                warnings.simplefilter("ignore")
                rows, acts = get_best_exploitability(env, steps, reps, fresh.gapf, processes=procs)
        except Exception as e:       # noqa: BLE001
            msgs.append(f"[{genkind}] get_best_exploitability raised {type(e).__name__}: {e}")
            bad = True
            continue
        for size in range(min(steps, len(explorable)) + 1):
            cands = {s_: [fresh.gap(t, set(start) | set(s_)) for t in sampled] for s_ in itertools.combinations(explorable, size)}
            mn = min(float(np.mean(np.array(c))) for c in cands.values())
            got = [float(x) for x in rows[size]]
            set_ = tuple(sorted(int(a) for a in acts[size]))
            if len(set(set_)) != size or set_ not in cands:
                msgs.append(f"[{genkind}] size {size}: reported set {list(set_)} is not a set of {size} still-unknown coalitions")
                bad = True
            elif got != cands[set_]:
                msgs.append(f"[{genkind}] size {size}: reported row {got} ≠ gaps {cands[set_]} of the reported set {list(set_)}")
                bad = True
            elif float(np.mean(np.array(got))) != mn:
                msgs.append(f"[{genkind}] size {size}: reported mean gap {float(np.mean(np.array(got)))} but the minimum over all sets is {mn}")
                bad = True
    return bad, "\n".join(msgs) or "the replayed best-states call satisfies C11 on this input"


def replay_c13_greedy(inp: dict):
    """C13 replay of an expected-greedy case (plain or randomised): the recorded sampled games through a replayable generator,
    `get_greedy_rewards` run again, judged step by step: no repeats, row i = fresh gaps of the first i coalitions, every extension
    minimises the mean gap among the remaining candidates (randomised: within the code's EPSILON = 1e-6 of the minimum)."""
    import random as _random
    from incomplete_cooperative.icg_gym import ICG_Gym
    from incomplete_cooperative.run.greedy import get_greedy_rewards
    BOUNDS, Coalition, minimal_game_coalitions, ICG, gaps = _mods()
    n, steps, reps, procs, cls, gapname = inp["n"], inp["max_steps"], inp["repetitions"], inp["processes"], inp["computer"], inp["gap"]
    sampled = inp["sampled_games"]
    randomized = bool(inp.get("randomized"))
    fresh = Fresh(n, cls, gapname)
    minimal = G.minimal_ids(n)
    explorable = [c for c in range(2 ** n) if c not in minimal]
    tables = [sampled[0], sampled[0]] + list(sampled)
    env = ICG_Gym(ICG(n, BOUNDS[cls]), ListGen(n, tables), minimal_game_coalitions(n), fresh.gapf, done_after_n_actions=steps)
    try:
        with warnings.catch_warnings():
            warnings.simplefilter("ignore")
            rows, acts = get_greedy_rewards(env, steps, reps, fresh.gapf, procs, _random.Random(inp["seed"]) if randomized else None)
    except Exception as e:       # noqa: BLE001
        in_domain = steps <= len(explorable)
        return in_domain, f"get_greedy_rewards raised {type(e).__name__}: {e}" + ("" if in_domain else " (step limit beyond the explorable coalitions: outside the domain)")
    rows = [[float(x) for x in r] for r in rows]
    acts = [int(a) for a in acts]

    def col(s_):
        return [fresh.gap(t, set(minimal) | set(s_)) for t in sampled]
    if len(acts) != steps or len(set(acts)) != len(acts) or not set(acts) <= set(explorable):
        return True, f"sequence {acts}: wrong length, a repeated coalition, or a coalition that is not explorable"
    for i in range(steps + 1):
        if rows[i] != col(acts[:i]):
            return True, f"row {i} = {rows[i]} ≠ fresh gaps {col(acts[:i])} of the first {i} coalitions {acts[:i]} on the sampled games"
    for i in range(steps):
        rem = [c for c in explorable if c not in acts[:i]]
        ms = {c: float(np.mean(np.array(col(acts[:i] + [c])))) for c in rem}
        slack = 1e-6 * (1 + 1e-9) + 1e-15 if randomized else 0.0
        if ms[acts[i]] - min(ms.values()) > slack or (randomized and ms[acts[i]] - min(ms.values()) >= slack):
            best = min(rem, key=lambda c: ms[c])
            return True, (f"reveal #{i + 1} is coalition {acts[i]} with mean gap {ms[acts[i]]} after {acts[:i]}, but coalition {best} "
                          f"reaches {ms[best]}")
    return False, "the replayed expected-greedy search satisfies C13 on this input"


def replay(prop: str, payload: dict):
    """Re-run a C12 replay whose input names a real `ModelInstance` run; → (violated, message)."""
    inp = payload.get("input") or {}
    if prop == "C11" and "values" in inp and "start" in inp:
        return replay_c11_search(inp)
    if prop == "C11" and "sampled_games" in inp and "max_steps" in inp:
        return replay_c11_best(inp)
    if prop == "C13" and "sampled_games" in inp and "max_steps" in inp:
        return replay_c13_greedy(inp)
    if prop == "C12" and inp.get("source") == "ModelInstance.env_streams":
        return replay_env_streams(inp)
    if prop != "C12" or inp.get("source") != "ModelInstance.get_env":
        return False, "this replay holds the complete failing input; no re-runner for it"
    from incomplete_cooperative.evaluation import evaluate
    from incomplete_cooperative.run.model import ModelInstance
    from incomplete_cooperative.solvers import SOLVERS
    procs = inp["processes"] if isinstance(inp["processes"], list) else sorted({1, inp["processes"]})
    tmp = tempfile.mkdtemp(prefix="verif_c12_")
    path = os.path.join(tmp, "cap.jsonl")
    seen = {}
    rerun = None          # a second same-seed run with the first process count (same seed ⇒ same run)
    for p in list(dict.fromkeys(procs)) + [procs[0]]:
        inst = ModelInstance(number_of_players=inp["n"], game_class=inp["game_class"], game_generator=inp["game_generator"],
                             gap_function=inp["gap_function"], run_steps_limit=inp["run_steps_limit"], seed=inp["seed"])
        cnt = [0]

        def env_gen():
            env = inst.get_env()
            env._verif_rep = cnt[0]
            cnt[0] += 1
            return env
        solver = SOLVERS[inp["solver"]](inst)
        with warnings.catch_warnings():
            warnings.simplefilter("ignore")
            e, a = evaluate(solver.next_step, env_gen, inp["repetitions"], inp["run_steps_limit"], inst.gap_function_callable,
                            p, Capture(path))
        hidden = {r[0]: tuple(r[2]) for r in _read_capture(path)}
        if p in seen:
            rerun = (np.array(e), np.array(a), [hidden.get(j) for j in range(inp["repetitions"])])
        else:
            seen[p] = (np.array(e), np.array(a), [hidden.get(j) for j in range(inp["repetitions"])])
    os.rmdir(tmp)
    msgs = []
    for p, (e, a, h) in seen.items():
        msgs.append(f"processes={p}: {len(set(h))} distinct hidden games in {len(h)} repetitions; gap row 0 = {e[0].round(4).tolist()}")
    p0 = procs[0]
    games_differ = any(seen[p][2] != seen[p0][2] for p in procs)
    result_differ = any(not (np.array_equal(seen[p][0], seen[p0][0]) and np.array_equal(seen[p][1], seen[p0][1])) for p in procs)
    discrete = ("factory", "graph_cycle", "xos_one", "graph_random", "graph_ws_connected", "graph_internet",
                "graph_geographical_treshold", "graph_geometric")       # chance coincidences are no replays
    replays = any(len(set(h)) < len(h) for _, _, h in seen.values()) and inp["game_generator"] not in discrete
    seed_ignored = False
    if rerun is not None and rerun[2] != seen[p0][2]:
        seed_ignored = True
        msgs.append(f"a second run with the same seed and processes={p0} was evaluated on different hidden games; "
                    f"gap row 0 = {rerun[0][0].round(4).tolist()}")
    elif rerun is not None and not (np.array_equal(rerun[0], seen[p0][0]) and np.array_equal(rerun[1], seen[p0][1])):
        result_differ = True
        msgs.append(f"a second run with the same seed and processes={p0} returned different matrices")
    if games_differ:
        msgs.append("the hidden games of the repetitions depend on the number of worker processes")
    if replays:
        msgs.append("repetitions replay one another's hidden game")
    if result_differ and not games_differ and not seed_ignored:
        msgs.append("same hidden games, different matrices: only the solver's own random state depends on the process count")
    return (games_differ or replays or result_differ or seed_ignored), "\n".join(msgs)


def run(tier: str, budget: Budget, rnd, arg) -> StreamResult:
    if arg == "C11":
        return run_c11(tier, budget, rnd)
    if arg == "C12":
        return run_c12(tier, budget, rnd)
    if arg == "C13greedy":
        return run_c13(tier, budget, rnd)
    raise ValueError(f"corr_search: unknown stream argument {arg!r}")
