"""Free-text fields of MANIFEST.json per property (kept next to the registry so they stay in step)."""

HOOK_COMMITS: list[str] = []

DESIGN_REF = {}

TECHNIQUE = {
    "default": "Lean 4 theorems about a hand-written model + differential correspondence check against the Python code",
}

LEVEL_NOTE = {
    "default": ("Trusted: Lean 4.33 kernel, Mathlib v4.33, axioms ⊆ {propext, Classical.choice, Quot.sound} (audited each run); the model is hand-written "
                "and tied to the code only by the correspondence streams of this run (bounded sampling, listed in the evidence); float rounding, numpy "
                "semantics and the Python harness are trusted/modelled, not verified."),
}

LEVEL_TEXT = {
    "C17": ("Theorems (all n, all values, all histories) that the table model keeps known ↔ set-and-not-unset, known ⇒ lower = upper = value, bulk bound "
            "setters leave known rows alone, fresh table knows exactly ∅ ↦ 0, negation swaps/negates/keeps knowledge and is an involution; the model is "
            "tied to game.py by replaying random operation histories (including malformed calls and aliasing probes over copies) on the real class and "
            "on the compiled model and diffing every live object after every operation."),
}

NOT_APPLICABLE = {}
