"""Free-text fields of MANIFEST.json per property (kept next to the registry so they stay in step)."""

HOOK_COMMITS: list[str] = []

DESIGN_REF = {}

TECHNIQUE = {
    "default": "Lean 4 theorems about a hand-written model + differential correspondence check against the Python code",
}

LEVEL_NOTE = {
    "default": ("Trusted: Lean 4.33 kernel, Mathlib v4.33, axioms ⊆ {propext, Classical.choice, Quot.sound} (audited each run); the model is hand-written "
                "and tied to the code only by the correspondence streams of this run (bounded sampling, listed in the evidence); float rounding, numpy "
                "semantics and the Python harness are trusted/modelled, not verified."),
}

LEVEL_TEXT = {
    "C17": ("Theorems (all n, all values, all histories) that the table model keeps known ↔ set-and-not-unset, known ⇒ lower = upper = value, bulk bound "
            "setters leave known rows alone, fresh table knows exactly ∅ ↦ 0, negation swaps/negates/keeps knowledge and is an involution; the model is "
            "tied to game.py by replaying random operation histories (including malformed calls and aliasing probes over copies) on the real class and "
            "on the compiled model and diffing every live object after every operation."),
}

NOT_APPLICABLE = {}

LEVEL_TEXT["C18"] = ("Theorems (every n, every mask) that each Coalition operator is the corresponding finite-set operation on {i | testBit i}, that size = card, "
                     "players is the sorted duplicate-free member list, from_players∘players = id, that the object-style and the id-array-style enumerations of "
                     "sub- and super-coalitions are duplicate-free and list exactly the subsets / supersets within n (hence agree), the relation table of bounds.py, "
                     "and that is_superadditive / is_monotone_decreasing / check_supermodularity decide exactly their definitions (with the tolerance); tied to the "
                     "code by exhaustive comparison over all coalitions n ≤ 8, all pairs n ≤ 5, all 6912 integer games of a small lattice and tolerance-boundary games.")

