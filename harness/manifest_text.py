"""Free-text fields of MANIFEST.json per property (kept next to the registry so they stay in step)."""

HOOK_COMMITS: list[str] = []   # no hook commits: the harness instruments from outside; /repo carries only `fix:` commits (KNOWN_FINDINGS.txt)

DESIGN_REF = {}

TECHNIQUE = {
    "default": "Lean 4 theorems about a hand-written model + differential correspondence check against the Python code",
}

LEVEL_NOTE = {
    "default": ("Trusted: Lean 4.33 kernel, Mathlib v4.33, axioms ⊆ {propext, Classical.choice, Quot.sound} (audited each run); the model is hand-written "
                "and tied to the code only by the correspondence streams of this run (bounded sampling, listed in the evidence); float rounding, numpy "
                "semantics and the Python harness are trusted/modelled, not verified."),
}

LEVEL_TEXT = {
    "C17": ("Theorems (all n, all values, all histories) that the table model keeps known ↔ set-and-not-unset, known ⇒ lower = upper = value, bulk bound "
            "setters leave known rows alone, fresh table knows exactly ∅ ↦ 0, negation swaps/negates/keeps knowledge and is an involution; the model is "
            "tied to game.py by replaying random operation histories (including malformed calls and aliasing probes over copies) on the real class and "
            "on the compiled model and diffing every live object after every operation."),
}

NOT_APPLICABLE = {}

LEVEL_TEXT["C18"] = ("Theorems (every n, every mask) that each Coalition operator is the corresponding finite-set operation on {i | testBit i}, that size = card, "
                     "players is the sorted duplicate-free member list, from_players∘players = id, that the object-style and the id-array-style enumerations of "
                     "sub- and super-coalitions are duplicate-free and list exactly the subsets / supersets within n (hence agree), the relation table of bounds.py, "
                     "and that is_superadditive / is_monotone_decreasing / check_supermodularity decide exactly their definitions (with the tolerance); tied to the "
                     "code by exhaustive comparison over all coalitions n ≤ 8, all pairs n ≤ 5, all 6912 integer games of a small lattice and tolerance-boundary games.")


LEVEL_TEXT["C05"] = ("Theorems for every n and every ordered field: model exploitability = Σ_S (upper−lower)/C(n,|S|) − upper(∅) (+ the general identity for arbitrary vectors), "
                     "= Σ_i Shapley_i(max-gain game_i) − v(N); non-negative when lower ≤ upper, zero iff all intervals degenerate, per-player domination over every completion in the box, "
                     "defined iff the grand coalition is known. Tied to exploitability.py / shapley.py by exact differential runs (values multiples of n!·2^-k so float64 is exact) on the real "
                     "class and a protocol stub, plus an exact-Fraction oracle of every clause on the real code. 'Within float rounding as computed' is made precise by ICG.ApproxShapley "
                     "(Props/FloatErrorShapley): with +, −, ×, ÷ of absolute error ≤ δ on the operations actually performed, in the code's order, every computed Shapley value is within "
                     "B(n,δ) = (2 + 2^n/n!)·δ of the exact one, the computed exploitability within n·B + (n+1)·δ, hence ≥ −that slack when lower ≤ upper (all three bounds attained by a witness); "
                     "rounded and exact computations raise on exactly the same inputs; relative-error (float64) bridge.")
LEVEL_TEXT["C06"] = ("Theorems for EVERY n (not n ≤ 7): the model's Shapley value equals the average marginal contribution over all n! orderings; efficiency, symmetry under every "
                     "permutation of players, null player, linearity, the two entry points agree. Tied to shapley.py by exact differential runs and an itertools n!-orderings oracle on the real code.")
LEVEL_TEXT["C19"] = ("Theorems for every sequence of saves from any store: an entry once present never changes, saving an existing name is the identity, a new name reads back as saved, "
                     "lookup = first entry saved under the name, insertion order preserved, decoded file = store. The entry codec (Output.json -> JSON tree -> Output.from_json, numpy tolist / np.array shape "
                     "inference, metadata stringification through json_serializer, func/run_type) is a concrete model whose round trip is PROVED (Props/C19Codec: exact for every r x c matrix with r >= 1 incl. "
                     "NaN/±inf, 0-row matrices lose their shape - a theorem with witness, metadata comes back as its idempotent stringification, concreteCodec instantiates the abstract codec so the "
                     "file-level theorems hold without a hypothesis for saveable entries). Tied to run/save.py by random save "
                     "histories through the real save_json / from_file (bit-exact floats, NaN, shapes) and by running solve / greedy / best_states in-process with the computing function wrapped.")
LEVEL_TEXT["C20"] = ("Theorems over a file-system operation model: every operation list obeying the decidable rename discipline leaves the target either old or complete-new at EVERY crash "
                     "index (atomicB_atomic), and every truncate-then-write list has a crash point that is neither (truncate_not_atomic). The model's input is the operation list OBSERVED from "
                     "the real save_json on each run; a failure is then injected at every operation and the bytes on disk are compared with the model's prediction and with old/new.")
LEVEL_NOTE["C19"] = LEVEL_NOTE["default"] + " Still assumed about json: loads(dumps(tree)) = reload(tree) at the level of JSON TEXT (decimal text of a float64, NaN/Infinity tokens, big ints); int->double rounding is a parameter (T1-T6 in lean/ICG/Model/Codec.lean)."
LEVEL_NOTE["C20"] = LEVEL_NOTE["default"] + " POSIX rename atomicity and visibility of completed writes after a process crash are assumed; crash granularity is one OS-level operation; the recording layer is cross-checked with strace in the thorough tier."
TECHNIQUE["C20"] = "Lean 4 theorems over an observed file-system operation list (all crash indices) + crash injection at every operation of the real save_json"

LEVEL_TEXT["C01"] = ("Theorems for every n and every ordered abelian group: on any table holding the values of a superadditive game on a knowledge set containing the minimal information, "
                     "with ARBITRARY stale content in unknown rows, both computers succeed, leave flags and known rows alone, and return lo ≤ v ≤ hi, lo ≤ hi, known rows exact (C01.sound); "
                     "the same after every admissible history of set / unset / reveal / un-reveal / bulk set / bulk reset / bound writes / computes (C01.histories*). Proof = refinement of the "
                     "in-place sweeps of bounds.py to a recursive spec (sa_eq_spec / sac_eq_spec) + soundness of the spec. Tie: all 1024 knowledge sets at n=4, all at n=3, sampled n=5..7, "
                     "random stale pre-fills and interleaved histories; relation demanded is dominance, so a sound-but-looser rewrite raises no C01 alarm.")
LEVEL_TEXT["C02"] = ("Theorems for every n: the computed lower vector is ≤ every superadditive completion and is itself a completion whenever one exists (minimum attained simultaneously); for every "
                     "unknown coalition some completion attains the computed upper bound; lower = best partition into known coalitions; upper = min over known supersets of v(T) − lower(T∖S). "
                     "Tie: equality of both computers with the model on the bounds stream, plus an independent brute-force partition / superset oracle on the real code.")
LEVEL_TEXT["C03"] = ("Theorems for every n and any linearly ordered value type with + and −: the reference and the cached computer return the SAME table on every table with minimal information and "
                     "lower = upper on known rows, are defined on exactly the same tables, the result does not depend on which size-sorted order numpy's argsort yields, and a memo that is only "
                     "extended with (n, f n) always answers f n. Tie: bounds stream with both computers + interleaved histories over several player counts in one interpreter with a digest of the "
                     "memoised structure before / after every compute.")
LEVEL_TEXT["C04"] = ("Theorems for every n, every repetition count r (so also the registered 1, 10, 100, 1000): sound for superadditive monotone games, never looser than the superadditive bounds, "
                     "monotone in r, lower bounds antitone along inclusion, upper ≤ every known sub-coalition's value and ≤ v(T) − lower(T∖S). Proof = refinement of the r+1 rounds to the spec "
                     "sequence samB / samUp + spec mathematics. Tie: bounds stream with sam:r, r ∈ 0..10, on coverage / budget / XOS games, all knowledge sets n ≤ 4.")
LEVEL_TEXT["C07"] = ("Theorems for every n: more knowledge (of the same game of the class) gives row-wise nested intervals for sa, sac and sam r; along every reveal path widths never grow; each of "
                     "exploitability (via the C05 identity), l1, l∞ and l2² is non-increasing, non-negative and zero at full knowledge. The l2 norm itself, √(l2²) over the reals, is proved non-increasing / non-negative / zero-iff-degenerate in Props/C07L2 (what stays trusted is that np.sqrt is the "
                     "correctly rounded real square root). Tie: every lattice edge between computed knowledge sets at n ≤ 4 on the real code + gap functions compared with the model on nested chains.")
LEVEL_TEXT["C08"] = ("Theorems for every n and all three computers: the result is a function of (known flags, values of known rows) alone whatever the stale rows hold; recomputing is the identity; "
                     "two admissible histories ending in the same knowledge give the same table; reveal∘compute∘un-reveal∘compute restores the whole table. Tie: stale-state histories "
                     "(scalar and bulk garbage writes, resets, un-reveals) on the real objects vs the model, with fresh-object, idempotence and undo oracles on the real code.")
LEVEL_TEXT["C10"] = ("Theorems for every n and every admissible draw: each registered construction (owner-gated factory with any monotone value function, cheerleader, upper-triangular graph, cycle, "
                     "additive, negated XOS, XS / unit-demand, OXS via min-convolution, K-budget, coverage) is superadditive, and XOS/XS/OXS/budget/coverage are monotone non-increasing with "
                     "v(∅)=0. Tie: every key of the LIVE registry (except convex) is run with a recording Generator and compared with the model fed the same draws, plus class predicates, "
                     "dtype, length and seed-determinism on the real output.")
LEVEL_TEXT["C11"] = ("Theorems: the enumeration lists every set of ≤ k unknown coalitions exactly once in non-decreasing size; the reported gap equals gap(compute(exactly start ∪ set)) for EVERY state "
                     "of the scratch table; for EVERY chunking of the task list (hence every worker count) the pool returns the sequential map; the real chunking is such a partition; meta-game = "
                     "same quantity; best-states = first minimiser of the mean per size, non-increasing for monotone gaps. Bound computer and gap are parameters; Lemmas/ComposeSearch + Props/Compose discharge the "
                     "monotonicity / non-negativity hypotheses for the real computers and gaps from C07 (best_curve, best_states_min, search_result). Tie: real search functions with "
                     "1..16 processes and poisoned scratch games.")
LEVEL_TEXT["C12"] = ("Theorems over the stated pool model: per repetition the matrices are that repetition's own trajectory; if a task's result is a function of the task alone every chunking gives the "
                     "sequential result; and for the model of the pre-fix code the negation (shared RNG ⇒ schedule dependence) by a decided witness. Tie: real evaluate() with 1..5 (thorough 1..16) "
                     "processes, hidden games captured per repetition, trajectories replayed on fresh environments. Two genuine defects remain as known findings (random solver RNG, module-global "
                     "unseeded graph generator).")
LEVEL_TEXT["C14"] = ("Theorems: the ranking is duplicate-free, sorted by size and exactly the masks with ≤ min(limit, m) bits (every m, limit); construction succeeds iff the rank table covers every id "
                     "(with decided witnesses of the two pre-fix defects); regret matching at a node yields a distribution supported on unused coalitions; the added regret is orthogonal to the "
                     "strategy; plus-clipping keeps regret ≥ 0; average strategy is a distribution with the same support rule; load∘save = id. By induction over every "
                     "history of iterations with non-negative terminal values (tree_invariant, every n ≥ 2, every limit, plain / plus) these hold at every node of every reachable state. Tie: real GameRegretMinimizer vs the exact Rat model, structure exact, float32 numbers within 1e-5. Scale equivariance (Props/Equivariance): for every c > 0 the whole history with terminal values × c gives the same current / cumulative / average strategies at every node and regrets × c "
                     "(plain and plus; errors preserved) — the theorem behind the stream's tolerance-free metamorphic oracle; the same file proves positive homogeneity and additive-shift equivariance of the "
                     "superadditive bounds and computers (sam is NOT shift-equivariant: kernel-decided counterexample), scale / shift invariance of the normal form with the exact side conditions, homogeneity of the gaps.")
LEVEL_TEXT["C15"] = ("Theorems for every n and ordered field: the in-place singleton-by-singleton loop equals the closed form w = v − Σ singletons; w is superadditive, ≥ 0, monotone, so w/w(N) ∈ [0,1] "
                     "with singletons 0 and grand 1, superadditive again; w(N) = 0 ⇒ w ≡ 0; graph game and its table normalise to the same values; denormalize∘normalize = id. Tie: exact stream "
                     "(strings) in both representations + float stream over every generator family with the property clauses as oracle. 'To float rounding' is made precise by ICG.ApproxNormalize "
                     "(Props/FloatErrorNormalize): under the standard relative-error model (each +, −, ×, ÷ the code performs, in its order, has relative error ≤ u) singletons normalise to exactly 0, the grand "
                     "coalition to within u of 1, every value into [−slack, 1+slack] with an explicit slack(u, n, M/w(N)), and denormalize∘normalize returns v within an explicit bound that is ≤ 71·(n+1)·u·M "
                     "(linear in u; exact at u = 0), provided the game lies outside the additive-tolerance window by a stated margin.")
LEVEL_NOTE["C12"] = LEVEL_NOTE["default"] + " multiprocessing.Pool chunking / pickling is modelled from measurements (DESIGN 3.6), not verified; the theorems quantify over all chunkings."
LEVEL_NOTE["C11"] = LEVEL_NOTE["C12"]
LEVEL_NOTE["C14"] = LEVEL_NOTE["default"] + " float32 arithmetic is outside the theorems."
LEVEL_NOTE["C10"] = LEVEL_NOTE["default"] + " That numpy distributions stay in their documented ranges, and networkx graph generators, are trusted."
TECHNIQUE["C12"] = "Lean 4 theorems over a process-pool model (all chunkings) + differential runs of the real evaluate() across worker counts"
TECHNIQUE["C11"] = "Lean 4 theorems (enumeration, value, all chunkings) + differential runs of the real search across worker counts"

LEVEL_TEXT["C09"] = ("Theorems by induction over every sequence of reset / step / unstep with valid actions from the constructor: known = initial ∪ {∅, N} ∪ revealed and carries the hidden values; "
                     "mask = explorable ∖ known; observation = normalised value at known explorable positions, 0 elsewhere; reward = −gap(compute(knowledge)) (≤ 0 for a non-negative gap); "
                     "info = id; done ↔ budget ∨ nothing left ∨ all widths 0; reset forgets everything but the minimal information of the new game; invalid calls raise and leave what the code "
                     "leaves. Computer and gap are parameters; Props/Compose instantiates them with the model's real computers (sa, sac, sam r) and real gap functions (l1, l∞, l2², exploitability; l2 over ℝ) and "
                     "DISCHARGES the hypotheses from C01/C04/C07/C08: reward defined and ≤ 0 at every reachable state of a game of the class, 0 at full knowledge, non-decreasing along reveals, valid calls "
                     "never raise, step-then-unstep restores reward / observation / mask / done. 'Never positive, up to float rounding': with ANY rounded subtraction and any addition that keeps non-negative operands "
                     "non-negative the rounded l1 / l∞ gaps are ≥ 0 exactly, so the reward is ≤ 0 with no slack (Props/FloatErrorNorms); for the exploitability gap the slack is the one of "
                     "ICG.ApproxShapley.exploitability_nonneg_approx. Tie: every reveal order at n=3, random walks at n=4,5 on the real ICG_Gym.")
LEVEL_TEXT["C13"] = ("Theorems at every state satisfying the C09 invariant: greedy / worst-greedy return the lowest-index valid action attaining the max / min immediate reward, largest the lowest-index "
                     "valid action of maximal size, random some valid action, and the environment afterwards equals the environment before (EnvEq, via the undo theorem); expected-greedy never "
                     "repeats, each extension minimises the mean gap among the candidates, its curve is non-increasing for monotone gaps, ≥ the exhaustive optimum and equal to it for 0 and 1 reveals. "
                     "Tie: real SOLVERS at every state (n=3 all, n=4,5 sampled) and real get_greedy_rewards vs get_best_exploitability on replayed games.")
LEVEL_TEXT["C16"] = ("Theorems on top of C09's invariant: mask k ↔ some explorable coalition of size k is unknown; a step with an allowed k reveals exactly the chosen previously-unknown coalition of that "
                     "size (for EVERY choice the sampler can make), reports it and returns the inner reward / done; observation = per-size sum of the inner observation, of length max explorable "
                     "size + 1 (= n with minimal knowledge, n ≥ 3). Tie: real ICG_Gym_Linear n = 3..6, the sampled coalition read from info and fed to the model.")

LEVEL_TEXT["C01"] += (" 'Within float rounding' is made precise by ICG.Approx (Props/FloatError): with any addition / subtraction of absolute error ≤ δ per operation the computed lower bound is within "
                      "(|S|−1)·δ and the upper bound within (n−|S|)·δ of the exact ones, so the computed interval widened by that slack contains every completion (approx_sound), and the slack is attained.")
