"""Free-text fields of MANIFEST.json per property (kept next to the registry so they stay in step)."""

HOOK_COMMITS: list[str] = []

DESIGN_REF = {}

TECHNIQUE = {
    "default": "Lean 4 theorems about a hand-written model + differential correspondence check against the Python code",
}

LEVEL_NOTE = {
    "default": ("Trusted: Lean 4.33 kernel, Mathlib v4.33, axioms ⊆ {propext, Classical.choice, Quot.sound} (audited each run); the model is hand-written "
                "and tied to the code only by the correspondence streams of this run (bounded sampling, listed in the evidence); float rounding, numpy "
                "semantics and the Python harness are trusted/modelled, not verified."),
}

LEVEL_TEXT = {
    "C17": ("Theorems (all n, all values, all histories) that the table model keeps known ↔ set-and-not-unset, known ⇒ lower = upper = value, bulk bound "
            "setters leave known rows alone, fresh table knows exactly ∅ ↦ 0, negation swaps/negates/keeps knowledge and is an involution; the model is "
            "tied to game.py by replaying random operation histories (including malformed calls and aliasing probes over copies) on the real class and "
            "on the compiled model and diffing every live object after every operation."),
}

NOT_APPLICABLE = {}

LEVEL_TEXT["C18"] = ("Theorems (every n, every mask) that each Coalition operator is the corresponding finite-set operation on {i | testBit i}, that size = card, "
                     "players is the sorted duplicate-free member list, from_players∘players = id, that the object-style and the id-array-style enumerations of "
                     "sub- and super-coalitions are duplicate-free and list exactly the subsets / supersets within n (hence agree), the relation table of bounds.py, "
                     "and that is_superadditive / is_monotone_decreasing / check_supermodularity decide exactly their definitions (with the tolerance); tied to the "
                     "code by exhaustive comparison over all coalitions n ≤ 8, all pairs n ≤ 5, all 6912 integer games of a small lattice and tolerance-boundary games.")


LEVEL_TEXT["C05"] = ("Theorems for every n and every ordered field: model exploitability = Σ_S (upper−lower)/C(n,|S|) − upper(∅) (+ the general identity for arbitrary vectors), "
                     "= Σ_i Shapley_i(max-gain game_i) − v(N); non-negative when lower ≤ upper, zero iff all intervals degenerate, per-player domination over every completion in the box, "
                     "defined iff the grand coalition is known. Tied to exploitability.py / shapley.py by exact differential runs (values multiples of n!·2^-k so float64 is exact) on the real "
                     "class and a protocol stub, plus an exact-Fraction oracle of every clause on the real code.")
LEVEL_TEXT["C06"] = ("Theorems for EVERY n (not n ≤ 7): the model's Shapley value equals the average marginal contribution over all n! orderings; efficiency, symmetry under every "
                     "permutation of players, null player, linearity, the two entry points agree. Tied to shapley.py by exact differential runs and an itertools n!-orderings oracle on the real code.")
LEVEL_TEXT["C19"] = ("Theorems for every sequence of saves from any store: an entry once present never changes, saving an existing name is the identity, a new name reads back as saved, "
                     "lookup = first entry saved under the name, insertion order preserved, decoded file = store under the codec round-trip hypothesis. Tied to run/save.py by random save "
                     "histories through the real save_json / from_file (bit-exact floats, NaN, shapes) and by running solve / greedy / best_states in-process with the computing function wrapped.")
LEVEL_TEXT["C20"] = ("Theorems over a file-system operation model: every operation list obeying the decidable rename discipline leaves the target either old or complete-new at EVERY crash "
                     "index (atomicB_atomic), and every truncate-then-write list has a crash point that is neither (truncate_not_atomic). The model's input is the operation list OBSERVED from "
                     "the real save_json on each run; a failure is then injected at every operation and the bytes on disk are compared with the model's prediction and with old/new.")
LEVEL_NOTE["C19"] = LEVEL_NOTE["default"] + " JSON float text round trip and numpy list conversion are the codec hypothesis of the theorems (sampled, not proved)."
LEVEL_NOTE["C20"] = LEVEL_NOTE["default"] + " POSIX rename atomicity and visibility of completed writes after a process crash are assumed; crash granularity is one OS-level operation; the recording layer is cross-checked with strace in the thorough tier."
TECHNIQUE["C20"] = "Lean 4 theorems over an observed file-system operation list (all crash indices) + crash injection at every operation of the real save_json"
