"""Registry: which Lean module and which correspondence streams decide each property."""

TRUSTED_BASE = [
    "Lean 4.33.0 kernel (thorough tier: re-checked by leanchecker); Mathlib v4.33.0 as pre-compiled",
    "axioms: subset of {propext, Classical.choice, Quot.sound}, audited per theorem on every run; no native_decide / bv_decide / own axioms / sorry",
    "the hand-written Lean model is tied to /repo only as far as this run's correspondence streams reach (see coverage.streams)",
    "Lean compiler + runtime for the native model driver; the Python harness and its canonicalisation; CPython, numpy",
]

_BOUNDS_RULE = ("cases = (n, exact superadditive game, knowledge set K ⊇ minimal information, computer, adversarial stale pre-fill); "
                "all K for n=3,4, Bernoulli K for n=5..7; non-trivial = at least one unknown coalition, ≥ 2 distinct interval widths, "
                "game not symmetric under any transposition of players; distinct by (game, K, computer)")

PROPS = {
    "C01": {"lean": "ICG.Props.C01", "streams": [("corr_bounds", "C01"), ("corr_hist", "C01")], "rule": _BOUNDS_RULE,
            "assumptions": ["float rounding is outside the theorems; exact stream uses integer/dyadic values on which float64 arithmetic is exact"],
            "quick_s": 60, "thorough_s": 600},
    "C02": {"lean": "ICG.Props.C02", "streams": [("corr_bounds", "C02")], "rule": _BOUNDS_RULE, "quick_s": 60, "thorough_s": 600},
    "C03": {"lean": "ICG.Props.C03", "streams": [("corr_bounds", "C03"), ("corr_hist", "C03")], "rule": _BOUNDS_RULE, "quick_s": 60, "thorough_s": 600},
    "C04": {"lean": "ICG.Props.C04", "streams": [("corr_bounds", "C04")], "rule": _BOUNDS_RULE, "quick_s": 90, "thorough_s": 900},
    "C07": {"lean": "ICG.Props.C07", "streams": [("corr_bounds", "C07")], "rule": _BOUNDS_RULE, "quick_s": 60, "thorough_s": 600},
    "C08": {"lean": "ICG.Props.C08", "streams": [("corr_bounds", "C08"), ("corr_hist", "C08")], "rule": _BOUNDS_RULE, "quick_s": 60, "thorough_s": 600},
    "C17": {"lean": "ICG.Props.C17", "streams": [("corr_table", "C17")],
            "rule": ("random histories of 40 public value operations (set / unset / reveal / un-reveal / bulk set / bulk reset / bulk and scalar bound "
                     "writes / copy / negate / getters, ~10% malformed) on n = 1..5 over several live objects; non-trivial = history with ≥ 6 distinct "
                     "(operation, outcome) kinds; distinct by history"),
            "quick_s": 60, "thorough_s": 600},
}
