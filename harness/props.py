"""Registry: which Lean module and which correspondence streams decide each property."""

TRUSTED_BASE = [
    "Lean 4.33.0 kernel (thorough tier: re-checked by leanchecker); Mathlib v4.33.0 as pre-compiled",
    "axioms: subset of {propext, Classical.choice, Quot.sound}, audited per theorem on every run; no native_decide / bv_decide / own axioms / sorry",
    "the hand-written Lean model is tied to /repo only as far as this run's correspondence streams reach (see coverage.streams)",
    "Lean compiler + runtime for the native model driver; the Python harness and its canonicalisation; CPython, numpy",
]

_BOUNDS_RULE = ("cases = (n, exact superadditive game, knowledge set K ⊇ minimal information, computer, adversarial stale pre-fill); "
                "all K for n=3,4, Bernoulli K for n=5..7; non-trivial = at least one unknown coalition, ≥ 2 distinct interval widths, "
                "game not symmetric under any transposition of players; distinct by (game, K, computer)")

_ENV_RULE = ("cases = (n, hidden-game family, computer matching the family, gap function, budget None/0..3, initial list minimal / without ∅,N / with extras / with duplicates) × "
             "operation lists; 15 families from GENERATORS plus 6 exact families; n = 3: every reveal order (so every sequence without repetition is a prefix) followed by un-reveals; "
             "n = 4, 5: random walks with ~12% invalid actions; linear env n = 3..6; non-trivial = asymmetric hidden game, ≥ 2 explorable coalitions, ≥ 2 distinct rewards seen; "
             "distinct by (configuration, operation list)")

PROPS = {
    "C01": {"lean": ["ICG.Props.C01", "ICG.Props.FloatError"], "streams": [("corr_bounds", "C01"), ("corr_hist", "C01")], "rule": _BOUNDS_RULE,
            "assumptions": ["float rounding is outside the theorems; exact stream uses integer/dyadic values on which float64 arithmetic is exact"],
            "quick_s": 60, "thorough_s": 600},
    "C02": {"lean": "ICG.Props.C02", "streams": [("corr_bounds", "C02"), ("corr_hist", "C02")], "rule": _BOUNDS_RULE, "quick_s": 60, "thorough_s": 600},
    "C03": {"lean": "ICG.Props.C03", "streams": [("corr_bounds", "C03"), ("corr_hist", "C03")], "rule": _BOUNDS_RULE, "quick_s": 60, "thorough_s": 600},
    "C04": {"lean": "ICG.Props.C04", "streams": [("corr_bounds", "C04"), ("corr_hist", "C04")], "rule": _BOUNDS_RULE, "quick_s": 90, "thorough_s": 900},
    "C07": {"lean": ["ICG.Props.C07", "ICG.Props.C07Gaps", "ICG.Props.C07L2"], "streams": [("corr_bounds", "C07"), ("corr_shapley", "C07"), ("corr_env", "C07env")], "rule": _BOUNDS_RULE, "quick_s": 60, "thorough_s": 600},
    "C08": {"lean": ["ICG.Props.C08", "ICG.Lemmas.EnvUndo"], "streams": [("corr_bounds", "C08"), ("corr_hist", "C08"), ("corr_env", "C08env")], "rule": _BOUNDS_RULE, "quick_s": 60, "thorough_s": 600},
    "C17": {"lean": ["ICG.Props.C17", "ICG.Props.C17Alg"], "streams": [("corr_table", "C17")],
            "rule": ("random histories of 40 public value operations (set / unset / reveal / un-reveal / bulk set / bulk reset / bulk and scalar bound "
                     "writes / copy / negate / getters, ~10% malformed) on n = 1..5 over several live objects; non-trivial = history with ≥ 6 distinct "
                     "(operation, outcome) kinds; distinct by history"),
            "quick_s": 60, "thorough_s": 600},
    "C18": {"lean": ["ICG.Props.C18", "ICG.Props.C18pred"], "streams": [("corr_bits", "C18")],
            "rule": ("all coalitions n=1..8 (thorough 1..10): every Coalition operator with int operand, len, players, from_players (shuffled, duplicates), "
                     "inverted, object/id sub-/super-enumerations, coalition_ids.players/get_size (+ ids >= 2^n -> err:assert), helpers; all pairs n<=5 (<=6): "
                     "& | - in == disjoint; rows and size-sorted order of _get_sub_super_coalition_structure n<=6 (<=8); predicates: ALL 6912 games of the n=3 "
                     "lattice (non-singletons -1..2, singletons 0/+-1, v(0)=0), random int/dyadic games n=3..5 (SA, SAM, convex, additive, broken, v(0)!=0) and "
                     "tolerance-boundary games (dyadic family exact in float64; default-tolerance family with margin >= 2^-40*scale). non-trivial = coalition "
                     "with >=2 players and not grand; incomparable overlapping pair; game whose verdicts (sa, mono, supermod) are not all equal or tolerance "
                     "game with margin < 2^-20; distinct by (part, n, ids/values)"),
            "assumptions": ["predicates are modelled for complete games (get_values() of an incomplete game raises before any predicate logic; that is C17)",
                            "float rounding is outside the theorems; predicate inputs are exact in float64 or have a margin far above rounding"],
            "trusted": ["enumerations compared as sorted lists, all_sorted as size-sorted permutation, check_supermodularity as none/viol (triple checked by the oracle)"],
            "quick_s": 60, "thorough_s": 600},
    "C05": {"lean": ["ICG.Props.C05", "ICG.Props.FloatErrorShapley"], "streams": [("corr_shapley", "C05")], "quick_s": 40, "thorough_s": 600,
            "rule": ("cases = (n=1..6 quick / 1..8 thorough, known flags, lower, upper) with entries multiples of n!·2^-k (exact in float64); 70% well-formed tables "
                     "(∅ known 0, known ⇒ lo=hi, lo≤hi), 30% arbitrary vectors, ~10% malformed (grand coalition unknown → err:value), ~12% degenerate; real class and "
                     "plain-Python IncompleteGame stub; random completions (vertex/interior/max-gain) for domination; non-trivial = ≥2 distinct non-zero widths and (lo,hi) "
                     "not invariant under any transposition of players; distinct by (n, known, lo, hi)"),
            "assumptions": ["float rounding is outside the theorems; exact stream inputs make every float64 intermediate exact; separate float sub-stream with rel. tolerance 1e-9"]},
    "C06": {"lean": "ICG.Props.C06", "streams": [("corr_shapley", "C06")], "quick_s": 40, "thorough_s": 600,
            "rule": ("cases = (n, complete game) of kinds random / null-player / additive / unit / unanimity, values multiples of n!·2^-k; both entry points on the real class "
                     "and a plain-Python Game stub; oracle = average over all n! orderings by itertools (n ≤ 6 quick / 7 thorough, factorial-free closed form above), "
                     "efficiency, random relabelling, null players, linearity; ~10% malformed (one coalition unknown → err:value; non-player index); non-trivial = game not "
                     "invariant under any transposition; distinct by (n, values)"),
            "trusted": ["Mathlib's List.permutations as the meaning of 'all orderings' (pinned by orderings_complete; orderings_exec avoids it)"]},
    "C19": {"lean": ["ICG.Props.C19", "ICG.Props.C19Codec", "ICG.Lemmas.CodecArr", "ICG.Lemmas.CodecMeta"], "streams": [("corr_store", "C19"), ("corr_codec", "C19")],
            "rule": ("random save histories (1..8 saves, names from a pool with ~25% deliberate repeats incl. '', unicode, quotes, newline; shapes 1x1..4x4 and 12..40 square-ish; "
                     "2-D float / 2-D int / (k,1) int / NaN-padded 3-D actions; cells NaN, ±inf, -0.0, 1e300, subnormals; metadata Path / callable / int / float / None / list / tuple) "
                     "through the real save_json + get_outputs_from_file + Output.from_file, plus solve / greedy / best_states in-process (n=3,4; 1-2 steps; 1-3 repetitions) with the "
                     "computing function wrapped; saves also go through a symlinked spelling of the directory and from a forked child; every 2nd history contains saves that "
                     "legitimately raise (un-serialisable metadata keys / circular reference / missing func) and must leave data.json byte-identical; 3 (quick) / 25 (thorough) histories "
                     "go through save() with all SAVERS (Agg) with NaN/±inf gap cells; the caller's Output is checked unmodified after every save; "
                     "non-trivial = history with a repeated name, >=2 names and a NaN cell, and every command run; distinct by history / run index. "
                     "Codec stream (corr_codec), four sub-streams regenerated from (sub, seed): `in` = Outputs r=1..4 x c=1..5 with float64 cells (integers, dyadics, negative, 1e300, 2^1000, "
                     "DBL_MAX, 5e-324, -0.0, NaN, ±inf), actions float NaN-padded / int / (k,1) / 3-D NaN-padded / bool, a Namespace with str/int/float/bool/None/list/tuple/nested dict/Path/objects "
                     "and key types str/int/bool/None/float incl. colliding keys (~12% legitimately raise), through the real Output.json + dumps + loads + from_json, save_json + from_file and "
                     "get_outputs_from_file on 6-entry files; `out` = degenerate shapes (0 rows / 0 columns / 1-d / 0-d), model vs code only; `raw` = hand-made JSON entries, bare np.array / tolist / "
                     "reload; `meta` = metadata values alone; non-trivial there = in-domain Output with >= 2 gap cells holding a NaN and a finite non-integer and metadata with a non-JSON value"),
            "assumptions": ["the entry codec is a concrete model at the level of JSON value trees (Model/Codec.lean) with the round trip PROVED (Props/C19Codec: matrix_roundtrip, metadata_roundtrip, entry_roundtrip, "
                            "concreteCodec + file_roundtrip_concrete …); what stays assumed (T1-T6 in Model/Codec.lean): json text, i.e. loads(dumps(tree)) = reload(tree) incl. float decimal text and NaN/Infinity tokens; "
                            "the text of float dict keys; int->double rounding (a parameter, sampled); numpy beyond the modelled fragment answers `unmodelled`; circular references / raising reprs are not PyVal trees; "
                            "'eval' in repr(func) exact only for callables and printable str/Path",
                            "'saved matrices are the computed ones' is checked on the commands by wrapping evaluate / get_greedy_rewards / get_best_exploitability, not proved"],
            "trusted": ["JSON text encoding/decoding of float64, int->double rounding (numpy array<->list conversion is modelled and proved for the fragment used)"], "quick_s": 75, "thorough_s": 600},
    "C20": {"lean": "ICG.Props.C20", "streams": [("corr_store", "C20")],
            "rule": ("the file-system operations of the real save_json are observed (os.* and io.open wrapped in the harness process; same io buffering classes as the interpreter) for "
                     "histories with 0..5 earlier runs x result sizes 1x1..70x60 (1..8 written chunks) x new / existing name x stale temp file; the list is fed to the model "
                     "(atomicB + predicted content per k) and a crash is injected at EVERY operation k on a fresh copy; non-trivial = >=1 earlier run and >=2 written chunks; "
                     "every 4th save has its results directory on another file system than tempfile.gettempdir() (/dev/shm, …; noted when unavailable); stale temp files, "
                     "also longer than the new content, are planted; distinct by (earlier runs, size, index); thorough: strace cross-check of the observed list"),
            "assumptions": ["POSIX rename atomicity; a completed write(2) is visible after the process dies; crash granularity = one os-level operation (DESIGN 3.7)",
                            "path-based reading of descriptor operations is exact because the discipline forbids touching the temporary after the rename"],
            "trusted": ["the recording layer (_RecRaw under the interpreter's own BufferedWriter/TextIOWrapper); strace agreement is checked in the thorough tier"],
            "theorems_relying": "ICG.C20.atomicB_atomic / atomic (observed list accepted by atomicB => old-or-new at every k); ICG.C20.truncate_not_atomic (present code)",
            "quick_s": 60, "thorough_s": 600},
    "C11": {"lean": ["ICG.Props.C11", "ICG.Lemmas.ComposeSearch"], "streams": [("corr_search", "C11")], "quick_s": 60, "thorough_s": 600,
            "rule": ("cases = (n ∈ {3,4}, hidden game from the closure int/dyadic games or the repo generators noisy_factory/graph/xos, start ⊇ minimal plus 0..2 extra coalitions, k, "
                     "one of five (computer, gap function) pairs — three computers, all four gap functions); scratch game poisoned with stale values and bounds; processes {1,2,3,5,16} "
                     "quick, 1..16 thorough; meta-game at n=3 (all) and n=4 (sampled); best-states on a replayable generator; observed pool chunking against the model; "
                     "non-trivial = asymmetric game and ≥ 3 distinct gaps; distinct by (game, start, k, computer, gap)"),
            "assumptions": ["bound computer and gap function are opaque parameters of the theorems and of the stream (expected gap = real gap function on a fresh real game with exactly that knowledge)",
                            "selections on float near-ties are not compared with the model (counted as skipped:float-near-tie); the oracle still runs"],
            "trusted": ["CPython multiprocessing.Pool chunking / pickling semantics as modelled in DESIGN 3.6 (observed against the model on every run)"]},
    "C12": {"lean": "ICG.Props.C12", "streams": [("corr_search", "C12")], "quick_s": 60, "thorough_s": 600,
            "rule": ("real evaluate() with greedy / largest / random on a real ModelInstance using seed-respecting generators, plus harness DrawGen environments (shared or private, fresh or "
                     "pre-used); repetitions {1,2,5,8}, processes {1,2,3,5} (thorough: repetitions {1,2,3,5,8,13,24}, processes 1..16); trajectory oracle replays every repetition's "
                     "recorded actions on a fresh env over the hidden game captured by after_reset; non-trivial = ≥ 2 repetitions, ≥ 2 steps, ≥ 2 distinct recorded gaps"),
            "assumptions": ["Pool / pickling semantics are modelled (DESIGN 3.6), not verified: 'proof over the stated process model'"],
            "trusted": ["CPython multiprocessing.Pool; numpy Generator.spawn independence"]},
    "C14": {"lean": ["ICG.Props.C14", "ICG.Props.Equivariance"], "streams": [("corr_regret", "C14")], "quick_s": 60, "thorough_s": 600,
            "rule": ("case = (n, limit, plus, history of regret_min_iteration calls); n=3 limits 1..8 ×3 histories, n=4 limits {1,2,5,9,10,12} (thorough: all 1..12, n=5 limits 1..3) × plain/plus; "
                     "terminal losses non-negative multiples of 1/8 or sparse 0/1; used_actions = all coalition sets of size min(limit,m), shuffled, sometimes partial / with dropped singletons; "
                     "exact comparison of structure and error kinds, float32 numbers vs exact Rat with tolerance 1e-5·max(1,‖·‖∞) and a float-tie guard; save/load through /tmp; non-trivial = "
                     "constructed, ≥2 iterations, some node non-uniform and some node with revealed coalitions on the uniform fallback; distinct by (n, limit, plus, history); "
                     "every checkpoint is loaded three times (twice at once, once after the first loaded minimiser ran on) and compared with a deep copy taken at save time and with a "
                     "never-saved twin; plus 6 ensembles (thorough: 30) of 2–4 minimisers and checkpoints of them alive at once (same/different n, plain/plus) with iterations, strategy / "
                     "average queries, saves and loads interleaved, each member against its own model instance, its own oracle and its solo run, bit for bit"),
            "assumptions": ["float32 rounding is outside the theorems", "np.save / np.load / json trusted",
                            "the induction over whole iterations (tree_invariant) is for the repaired policy: stored limit ≤ min(m, limit) and a rank table covering every id"],
            "trusted": ["table length and stored limit are read off the real object and fed to the model (Policy.explicit)"]},
    "C15": {"lean": ["ICG.Props.C15", "ICG.Props.FloatErrorNormalize"], "streams": [("corr_normalize", "C15")], "quick_s": 40, "thorough_s": 600,
            "rule": ("exact sub-stream: integer/dyadic SA games (closure, negative / non-zero singletons, additive, nearly additive) with power-of-two (or 0) surplus, n=1..5, and integer "
                     "matrices with junk below the diagonal as GraphCooperativeGame and as its table; normalize_game / denormalize_game compared as strings with the model incl. the closed "
                     "form; ~12% malformed (partial tables -> err:value, short singleton info -> err:index). tolerance-window sub-stream: v = Σa_i + s·u (dyadic mixtures of unanimity games), "
                     "singletons of magnitudes 1..2^46, s at 0 / deep / just below / last float ≤ / first float > / just above / far above Fraction(1e-9)·|Σ singletons|; only float64-exact "
                     "cases; string comparison of normalize / closed form / denormalize; oracle with no tolerance. float sub-stream: every live GENERATORS key except convex, n=3..5, "
                     "tolerance 1e-9, oracle = property clauses. non-trivial = n>=3, a non-zero singleton (or >=2 distinct graph weights), non-zero surplus, >=3 distinct normalised values; "
                     "distinct by (representation, values)"),
            "assumptions": ["float rounding is outside the theorems; 'superadditive again' on floats uses absolute tolerance 1e-9, not the library's atol=0 predicate",
                            "a game with 0 < w(N) ≤ 1e-9·|Σ singletons| is treated as additive by the repaired code: its normal form is 0 and de-normalising restores it only to within "
                            "1e-9·|Σ singletons| (ICG.C15.window_behaviour, denormalize_window, denormalize_normalize_bound)",
                            "graph form = tabulated form is claimed for superadditive graph games"]},
    "C10": {"lean": "ICG.Props.C10", "streams": [("corr_generators", "C10")], "quick_s": 40, "thorough_s": 600,
            "rule": ("every live GENERATORS key except convex x n=3..5 (quick) / 3..8 (thorough) x seeds from VERIF_SEED; family recognised by registered function + partial keywords "
                     "(unknown -> notes, oracle only); recording Generator subclass (xos*: twin replay; graph families: exposed weight matrix); exact comparison for integer/unit/max-only "
                     "families, 1e-12 relative elsewhere; oracle: returns, n, length 2^n, float64, finite, v[0]==0, SA (exact rationals, rtol 1e-9), monotone for XOS/XS/OXS/budget/coverage, "
                     "seed-determinism except graph_generator keys and predictible_factory. non-trivial = >=3 distinct values and not symmetric under any transposition; distinct by (key,n,seed)"),
            "trusted": ["numpy distributions stay in their documented ranges; networkx graph generators"]},
    "C09": {"lean": ["ICG.Props.C09", "ICG.Props.Compose", "ICG.Lemmas.ComposeCore", "ICG.Props.FloatErrorNorms"], "streams": [("corr_env", "C09")], "quick_s": 60, "thorough_s": 600, "rule": _ENV_RULE,
            "assumptions": ["bound computer and gap function are parameters of the theorems; the stream takes bounds and gaps from the real code on a fresh real game with the same knowledge",
                            "the normalised hidden game is an input (real normalize_game); 'reward never positive' is proved under the hypothesis that the gap is non-negative (C07)"]},
    "C13": {"lean": ["ICG.Props.C13", "ICG.Lemmas.ExpectedGreedy"], "streams": [("corr_env", "C13"), ("corr_search", "C13greedy")], "quick_s": 90, "thorough_s": 900,
            "rule": _ENV_RULE + " Expected-greedy: real get_greedy_rewards for several (n, steps, repetitions) shapes, processes {1,2,5}; candidate-set order taken from a replica Python set; "
                    "comparison with get_best_exploitability on the same replayed games.",
            "assumptions": ["'leaves the environment exactly as it found it' is equality of every field and of table rows < 2^n (EnvEq)",
                            "expected-greedy: monotonicity of the gap under more knowledge is a hypothesis (it is C07)"]},
    "C16": {"lean": "ICG.Props.C16", "streams": [("corr_env", "C16")], "quick_s": 60, "thorough_s": 600, "rule": _ENV_RULE,
            "assumptions": ["the coalition sampled by np.random.choice is an input of the model, which checks that it was a legal choice",
                            "'of length n' holds exactly when a coalition of size n-1 is explorable (proved: length = max explorable size + 1)"]},
    # not one of the 20 given properties: the `multiplicative` sub-package, modelled and proved as part of growing the model over the
    # system's behaviour; run with `harness/check.py X-mul`; not in MANIFEST.json (tools_gen_manifest.py lists C01..C20 only)
    "X-mul": {"lean": ["ICG.Props.Mul", "ICG.Lemmas.MulFactor", "ICG.Lemmas.MulXos", "ICG.Lemmas.MulApprox", "ICG.Lemmas.MulCompose",
                       "ICG.Lemmas.MulPin10Game", "ICG.Lemmas.MulPin10"],
              "streams": [("corr_mul", "X-mul")], "quick_s": 40, "thorough_s": 600,
              "rule": ("five sub-streams on real objects: factor (n = 0..5 quick / 0..7 thorough; dyadic complete / approximated / incomplete games, ~40 % malformed), kr "
                       "(_get_k_r_values, n = 0..64 plus a sample up to 10^6), xos / maxsub (n = 1..6 / 1..8 on five exact game families), maxxos (candidates, approximation, "
                       "end to end for several alpha / beta / eps, two pinned counterexample games and one beta < 1/2 case under a watchdog); oracle on the real code: attained "
                       "upper bound >= 1, relations between the factors, telescoping, subset / size / queried form, approximation <= game on submodular families; distinct by (part, n, inputs)"),
              "assumptions": ["math.sqrt: k-values are symbolic, comparisons decided by squaring (4^k < n); IEEE rounding outside the theorems (exact dyadic inputs, three-point eps guard)"],
              "trusted": ["float64 sqrt and rounding of the threshold schedule"]},
}
