"""Registry: which Lean module and which correspondence streams decide each property."""

TRUSTED_BASE = [
    "Lean 4.33.0 kernel (thorough tier: re-checked by leanchecker); Mathlib v4.33.0 as pre-compiled",
    "axioms: subset of {propext, Classical.choice, Quot.sound}, audited per theorem on every run; no native_decide / bv_decide / own axioms / sorry",
    "the hand-written Lean model is tied to /repo only as far as this run's correspondence streams reach (see coverage.streams)",
    "Lean compiler + runtime for the native model driver; the Python harness and its canonicalisation; CPython, numpy",
]

_BOUNDS_RULE = ("cases = (n, exact superadditive game, knowledge set K ⊇ minimal information, computer, adversarial stale pre-fill); "
                "all K for n=3,4, Bernoulli K for n=5..7; non-trivial = at least one unknown coalition, ≥ 2 distinct interval widths, "
                "game not symmetric under any transposition of players; distinct by (game, K, computer)")

PROPS = {
    "C01": {"lean": "ICG.Props.C01", "streams": [("corr_bounds", "C01"), ("corr_hist", "C01")], "rule": _BOUNDS_RULE,
            "assumptions": ["float rounding is outside the theorems; exact stream uses integer/dyadic values on which float64 arithmetic is exact"],
            "quick_s": 60, "thorough_s": 600},
    "C02": {"lean": "ICG.Props.C02", "streams": [("corr_bounds", "C02")], "rule": _BOUNDS_RULE, "quick_s": 60, "thorough_s": 600},
    "C03": {"lean": "ICG.Props.C03", "streams": [("corr_bounds", "C03"), ("corr_hist", "C03")], "rule": _BOUNDS_RULE, "quick_s": 60, "thorough_s": 600},
    "C04": {"lean": "ICG.Props.C04", "streams": [("corr_bounds", "C04")], "rule": _BOUNDS_RULE, "quick_s": 90, "thorough_s": 900},
    "C07": {"lean": "ICG.Props.C07", "streams": [("corr_bounds", "C07")], "rule": _BOUNDS_RULE, "quick_s": 60, "thorough_s": 600},
    "C08": {"lean": "ICG.Props.C08", "streams": [("corr_bounds", "C08"), ("corr_hist", "C08")], "rule": _BOUNDS_RULE, "quick_s": 60, "thorough_s": 600},
    "C17": {"lean": "ICG.Props.C17", "streams": [("corr_table", "C17")],
            "rule": ("random histories of 40 public value operations (set / unset / reveal / un-reveal / bulk set / bulk reset / bulk and scalar bound "
                     "writes / copy / negate / getters, ~10% malformed) on n = 1..5 over several live objects; non-trivial = history with ≥ 6 distinct "
                     "(operation, outcome) kinds; distinct by history"),
            "quick_s": 60, "thorough_s": 600},
    "C18": {"lean": ["ICG.Props.C18", "ICG.Props.C18pred"], "streams": [("corr_bits", "C18")],
            "rule": ("all coalitions n=1..8 (thorough 1..10): every Coalition operator with int operand, len, players, from_players (shuffled, duplicates), "
                     "inverted, object/id sub-/super-enumerations, coalition_ids.players/get_size (+ ids >= 2^n -> err:assert), helpers; all pairs n<=5 (<=6): "
                     "& | - in == disjoint; rows and size-sorted order of _get_sub_super_coalition_structure n<=6 (<=8); predicates: ALL 6912 games of the n=3 "
                     "lattice (non-singletons -1..2, singletons 0/+-1, v(0)=0), random int/dyadic games n=3..5 (SA, SAM, convex, additive, broken, v(0)!=0) and "
                     "tolerance-boundary games (dyadic family exact in float64; default-tolerance family with margin >= 2^-40*scale). non-trivial = coalition "
                     "with >=2 players and not grand; incomparable overlapping pair; game whose verdicts (sa, mono, supermod) are not all equal or tolerance "
                     "game with margin < 2^-20; distinct by (part, n, ids/values)"),
            "assumptions": ["predicates are modelled for complete games (get_values() of an incomplete game raises before any predicate logic; that is C17)",
                            "float rounding is outside the theorems; predicate inputs are exact in float64 or have a margin far above rounding"],
            "trusted": ["enumerations compared as sorted lists, all_sorted as size-sorted permutation, check_supermodularity as none/viol (triple checked by the oracle)"],
            "quick_s": 60, "thorough_s": 600},
}
