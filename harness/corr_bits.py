"""Correspondence stream `bits` (C18): coalitions.py / coalition_ids.py / game_properties.py /
supermodularity_check.py  vs  ICG.Model.Bits + ICG.Model.Predicates.

Four parts, one driver process:

  coalitions : every coalition c of n = 1..8 (quick) / 1..10 (thorough): every `Coalition` operator with an int
               operand, `len`, `players`, `from_players` (shuffled, with duplicates), `inverted`, the object
               and the id enumerations of sub- and super-coalitions, `coalition_ids.players/get_size`, the
               helpers; ids c ≥ 2^n for the asserting id functions (`err:assert`)
  pairs      : every pair (a, b) of n ≤ 5 (quick) / ≤ 6 (thorough): `& | - in == disjoint`
  structure  : rows of `bounds._get_sub_super_coalition_structure(n)` and its size-sorted order
  predicates : `is_superadditive`, `is_monotone_decreasing`, `is_sam`, `check_supermodularity` on complete
               `IncompleteCooperativeGame`s: ALL games of a lattice on n = 3 (non-singleton values in −1..2,
               singleton values in 0/±1, v(∅) = 0: 6912 games), random integer / dyadic games n = 3..5
               (superadditive, SAM, convex, additive, unstructured, v(∅) ≠ 0), and tolerance-boundary games

What is compared with the model (weakest sufficient tie): values exactly; every enumeration as a *sorted*
list (whether the order also agrees is only counted: `order:*`); `all_sorted` only as "a permutation of all
coalitions, non-decreasing in size" (numpy's argsort is unstable); error kinds; `check_supermodularity` as
`none` / `viol` (the returned triple is checked by the oracle: it must violate the definition; whether it is
the same triple as the model's first one is only counted).

Oracle on the real code (independent of the model): finite-set semantics with Python `frozenset`s; object and
id enumerations equal as sets and duplicate-free; predicates = textbook definitions on exact `Fraction`s.

Float discipline of the predicate part: integer games and the *dyadic* tolerance family (values m + e·2^-30,
rtol = 2^-30, atol, tol multiples of 2^-30) are exact in float64, so the tolerance boundary is hit exactly (incl.
equality).  The *default-tolerance* family (rtol = 1e-9, tol = 1e-10 as exact rationals of those floats, values
like 1 + 1e-10) is only generated with a margin to the boundary that is ≥ 2^-40·scale, far above float rounding.

non-trivial = a coalition with ≥ 2 players that is not the grand coalition; a pair of incomparable, overlapping
coalitions (where `-` differs from `^`); a game on which the verdicts (sa, mono, supermodular) are not all equal,
or a tolerance game whose exact margin to the boundary is below 2^-20.  Distinct by (part, n, ids / values).
"""
from __future__ import annotations

import itertools
import os
from fractions import Fraction

import numpy as np

import gen_games as G
from common import Budget, Script, StreamResult, err_kind, is_exact_float, nlist, rlist, rs

PART_ALL = ("coalitions", "pairs", "structure", "predicates")


def S(c: int) -> frozenset:
    return frozenset(i for i in range(c.bit_length()) if c >> i & 1)


def ident(s) -> int:
    return sum(1 << i for i in s)


def slist(xs) -> str:
    return nlist(sorted(int(x) for x in xs))


def call(f):
    """(answer, exception kind) of a call"""
    try:
        return f(), None
    except Exception as e:  # noqa: BLE001
        return None, err_kind(e)


# ------------------------------------------------------------------------------------------------------
# textbook definitions on exact numbers

def o_sa(v, n, rtol, atol):
    """(verdict, smallest distance of a decisive comparison to its boundary)"""
    N = 2 ** n
    ok = True
    margin = None
    for a in range(N):
        rest = (N - 1) ^ a
        for b in G.submasks(rest):
            lhs, u = v[a] + v[b], v[a | b]
            if lhs <= u:
                continue
            bound = atol + rtol * abs(u)
            m = abs(abs(lhs - u) - bound)
            margin = m if margin is None else min(margin, m)
            if not abs(lhs - u) <= bound:
                ok = False
    return ok, margin


def o_mono(v, n):
    return all(v[x] >= v[c] for c in range(2 ** n) for x in G.submasks(c))


def o_supermod(v, n, tol):
    """(no violation?, margin)"""
    N = 2 ** n
    ok = True
    margin = None
    for T in range(N):
        for i in range(n):
            if T >> i & 1:
                continue
            for s in G.submasks(T):
                if s == T:
                    continue
                lhs = v[s | 1 << i] - v[s]
                rhs = v[T | 1 << i] - v[T] + tol
                m = abs(lhs - rhs)
                margin = m if margin is None else min(margin, m)
                if lhs > rhs:
                    ok = False
    return ok, margin


def violates(v, n, tol, T, s, i) -> bool:
    return (T < 2 ** n and 0 <= i < n and not T >> i & 1 and s & T == s and s != T
            and v[s | 1 << i] - v[s] > v[T | 1 << i] - v[T] + tol)


# ------------------------------------------------------------------------------------------------------

def part_coalitions(res, script, post, tier, budget, rnd):
    from incomplete_cooperative import coalition_ids as cid
    from incomplete_cooperative.coalitions import (Coalition, all_coalitions, exclude_coalition, get_sub_coalitions,
                                                   get_super_coalitions, grand_coalition, minimal_game_coalitions,
                                                   player_to_coalition)
    nmax = 10
    for n in range(1, nmax + 1):
        N = 2 ** n
        full = frozenset(range(n))
        # quick tier: n = 9, 10 are sampled (always including the coalitions that use the two highest players)
        if tier == "quick" and n > 8:
            cs_n = sorted({0, N - 1, N // 2, N // 4, N // 2 + 1, N // 2 + N // 4, 255, 256, 257} |
                          {rnd.randrange(N) for _ in range(40)} | {rnd.randrange(N // 2, N) for _ in range(20)})
        else:
            cs_n = range(N)
        # helpers of the whole game
        ids = [c.id for c in all_coalitions(n)]
        script.add(f"bits all {n}", None, {"n": n})
        post.append((len(script) - 1, "enum", ("all", ids)))
        if ids != list(range(N)):
            res.violation("all_coalitions(n) is not the list of all 2^n coalitions", {"n": n}, key="all_coalitions")
        gid = grand_coalition(n).id
        script.add(f"bits grand {n}", str(gid))
        if S(gid) != full:
            res.violation("grand_coalition(n) ≠ {0..n-1}", {"n": n}, key="grand_coalition")
        mg = [c.id for c in minimal_game_coalitions(n)]
        script.add(f"bits minimal {n}", None, {"n": n})
        post.append((len(script) - 1, "set", ("minimal", mg)))
        if {S(x) for x in mg} != {frozenset(), full} | {frozenset([i]) for i in range(n)}:
            res.violation("minimal_game_coalitions(n) ≠ {∅, N, singletons}", {"n": n}, key="minimal_game_coalitions")
        for i in range(n + 1):
            pid = player_to_coalition(i).id
            script.add(f"bits single {i}", str(pid))
            if S(pid) != frozenset([i]):
                res.violation("player_to_coalition(i) ≠ {i}", {"i": i}, key="player_to_coalition")
        res.evaluations += 3 + n + 1
        for c in cs_n:
            if not budget.ok():
                res.notes.append(f"coalitions: budget exhausted at n={n} c={c}")
                return
            C = Coalition(c)
            sc = S(c)
            ctx = {"n": n, "c": c}
            bad = []
            pl = list(C.players)
            script.add(f"bits size {c}", str(len(C)), ctx)
            script.add(f"bits players {c}", nlist(pl), ctx)
            if len(C) != len(sc):
                bad.append("len")
            if pl != sorted(sc):
                bad.append("players")
            dup = pl + [rnd.choice(pl) for _ in range(rnd.randint(0, 3))] if pl else []
            rnd.shuffle(dup)
            fid = Coalition.from_players(dup).id
            script.add(f"bits from {nlist(dup)}", str(fid), ctx)
            if fid != c:
                bad.append("from_players")
            inv = C.inverted(n).id
            script.add(f"bits inverted {c} {n}", str(inv), ctx)
            if S(inv) != full - sc:
                bad.append("inverted")
            # player operands: every player of the game and one beyond it
            for i in range(n + 1):
                a_in = i in C
                a_add, a_sub, a_or, a_and = (C + i).id, (C - i).id, (C | i).id, (C & i).id
                script.add(f"bits hasplayer {c} {i}", "1" if a_in else "0", ctx)
                script.add(f"bits addp {c} {i}", str(a_add), ctx)
                script.add(f"bits subp {c} {i}", str(a_sub), ctx)
                script.add(f"bits orp {c} {i}", str(a_or), ctx)
                script.add(f"bits andp {c} {i}", str(a_and), ctx)
                if (a_in != (i in sc) or S(a_add) != sc | {i} or S(a_sub) != sc - {i} or S(a_or) != sc | {i}
                        or S(a_and) != sc & {i}):
                    bad.append(f"player operand {i}")
            # enumerations
            sub_obj = [x.id for x in get_sub_coalitions(C)]
            sup_obj = [x.id for x in get_super_coalitions(C, n)]
            sub_id = [int(x) for x in cid.sub_coalitions(np.int32(c), n)]
            sup_id = [int(x) for x in cid.super_coalitions(np.int32(c), n)]
            for nm, line, lst in (("subobj", f"bits subobj {c}", sub_obj), ("superobj", f"bits superobj {c} {n}", sup_obj),
                                  ("subid", f"bits subid {c} {n}", sub_id), ("superid", f"bits superid {c} {n}", sup_id)):
                script.add(line, None, ctx)
                post.append((len(script) - 1, "enum", (nm, lst)))
            exp_sub = {x for x in range(N) if x & c == x}
            exp_sup = {x for x in range(N) if x & c == c}
            if {S(x) for x in sub_obj} != {S(x) for x in exp_sub} or len(set(sub_obj)) != len(sub_obj):
                bad.append("get_sub_coalitions")
            if {S(x) for x in sup_obj} != {S(x) for x in exp_sup} or len(set(sup_obj)) != len(sup_obj):
                bad.append("get_super_coalitions")
            if set(sub_id) != exp_sub or len(set(sub_id)) != len(sub_id):
                bad.append("coalition_ids.sub_coalitions")
            if set(sup_id) != exp_sup or len(set(sup_id)) != len(sup_id):
                bad.append("coalition_ids.super_coalitions")
            if set(sub_obj) != set(sub_id):
                bad.append("object and id sub-coalitions differ")
            if set(sup_obj) != set(sup_id):
                bad.append("object and id super-coalitions differ")
            pid = [int(x) for x in cid.players(np.int32(c), n)]
            sz = int(cid.get_size(np.int32(c), n))
            script.add(f"bits playersid {c} {n}", nlist(pid), ctx)
            script.add(f"bits sizeid {c} {n}", str(sz), ctx)
            if pid != sorted(sc) or sz != len(sc):
                bad.append("coalition_ids.players/get_size")
            # exclude_coalition over all coalitions (small n) or a random sub-list
            if n <= 6:
                pool = list(range(N))
            else:
                pool = [rnd.randrange(N) for _ in range(24)]
            ex = [x.id for x in exclude_coalition(C, map(Coalition, pool))]
            script.add(f"bits exclude {c} {nlist(pool)}", None, ctx)
            post.append((len(script) - 1, "enum", ("exclude", ex)))
            if sorted(ex) != sorted(x for x in pool if not (S(x) & sc)):
                bad.append("exclude_coalition")
            res.evaluations += 11 + 5 * (n + 1)
            res.count(f"coalition:n={n}")
            if 2 <= len(sc) and c != N - 1:
                res.nontrivial.add(("c", n, c))
            for b in bad:
                res.violation(f"{b}: disagrees with finite-set semantics", {"n": n, "coalition": c, "operation": b},
                              key=f"coalition:{b.split(' ')[0]}")
            if n == 3 and c == 5:
                res.sample({"n": n, "coalition": c, "sub_obj": sub_obj, "sub_id": sub_id, "super_obj": sup_obj, "super_id": sup_id})
        # ids beyond the game: the id functions assert, the object ones do not care
        for c in sorted({N, N + 1, 2 * N - 1, N + rnd.randrange(N)}):
            ctx = {"n": n, "c": c, "out_of_range": True}
            for nm, f in (("subid", lambda: cid.sub_coalitions(np.int32(c), n)),
                          ("superid", lambda: cid.super_coalitions(np.int32(c), n)),
                          ("playersid", lambda: cid.players(np.int32(c), n)),
                          ("sizeid", lambda: [cid.get_size(np.int32(c), n)])):
                a, e = call(f)
                script.add(f"bits {nm} {c} {n}", None, ctx)
                if e is not None:
                    post.append((len(script) - 1, "exact", (nm, e)))
                else:       # an implementation that stops asserting: compare what it returns
                    post.append((len(script) - 1, "enum", (nm, [int(x) for x in a])))
                res.count(f"out-of-range:{nm}:{e or 'ok'}")
                res.evaluations += 1
            sup = [x.id for x in get_super_coalitions(Coalition(c), n)]
            script.add(f"bits superobj {c} {n}", None, ctx)
            post.append((len(script) - 1, "enum", ("superobj", sup)))
            res.evaluations += 1


def part_pairs(res, script, post, tier, budget, rnd):
    from incomplete_cooperative.coalitions import Coalition, disjoint_coalitions
    nmax = 5 if tier == "quick" else 6
    for n in range(1, nmax + 1):
        N = 2 ** n
        for a in range(N):
            if not budget.ok():
                res.notes.append(f"pairs: budget exhausted at n={n} a={a}")
                return
            A, sa = Coalition(a), S(a)
            for b in range(N):
                if n > 1 and a < N // 2 and b < N // 2:
                    continue            # the pair was covered with n-1 players (ids do not depend on n)
                B, sb = Coalition(b), S(b)
                ctx = {"n": n, "a": a, "b": b}
                r_and, r_or, r_sub = (A & B).id, (A | B).id, (A - B).id
                r_in, r_eq, r_ne, r_dis = B in A, A == B, A != B, disjoint_coalitions(A, B)
                script.add(f"bits and {a} {b}", str(r_and), ctx)
                script.add(f"bits or {a} {b}", str(r_or), ctx)
                script.add(f"bits sub {a} {b}", str(r_sub), ctx)
                script.add(f"bits contains {a} {b}", "1" if r_in else "0", ctx)
                script.add(f"bits eq {a} {b}", "1" if r_eq else "0", ctx)
                script.add(f"bits disjoint {a} {b}", "1" if r_dis else "0", ctx)
                res.evaluations += 6
                bad = []
                if S(r_and) != sa & sb:
                    bad.append("&")
                if S(r_or) != sa | sb:
                    bad.append("|")
                if S(r_sub) != sa - sb:
                    bad.append("-")
                if r_in != (sb <= sa):
                    bad.append("in")
                if r_eq != (sa == sb) or r_ne != (sa != sb):
                    bad.append("==")
                if r_dis != (not (sa & sb)):
                    bad.append("disjoint_coalitions")
                if hash(A) != hash(Coalition(a)):
                    bad.append("hash")
                for op in bad:
                    res.violation(f"Coalition `{op}` disagrees with finite-set semantics", {"n": n, "a": a, "b": b, "operator": op},
                                  key=f"pair:{op}")
                if (sa & sb) and not sa <= sb and not sb <= sa:
                    res.nontrivial.add(("p", a, b))
            res.count(f"pairs:n={n}", N)
    res.sample({"pair": (6, 3), "6-3": 4, "6&3": 2, "6|3": 7})


def part_structure(res, script, post, tier, budget, rnd):
    from incomplete_cooperative import bounds as B
    nmax = 6 if tier == "quick" else 8
    for n in range(1, nmax + 1):
        if not budget.ok():
            res.notes.append(f"structure: budget exhausted at n={n}")
            return
        N = 2 ** n
        allc, all_sorted, struct = B._get_sub_super_coalition_structure(n)
        allc = [int(x) for x in allc]
        all_sorted = [int(x) for x in all_sorted]
        if allc != list(range(N)):
            res.violation("structure: all_coalitions is not 0..2^n-1", {"n": n}, key="struct:all")
        sizes = [len(S(x)) for x in all_sorted]
        if sorted(all_sorted) != list(range(N)) or sizes != sorted(sizes):
            res.violation("structure: all_sorted is not a size-sorted permutation of all coalitions", {"n": n, "all_sorted": all_sorted},
                          key="struct:sorted")
        script.add(f"bits sorted {n}", None, {"n": n})
        post.append((len(script) - 1, "sorted", (n, all_sorted)))
        for c in range(N):
            row = [int(x) for x in struct[c]]
            script.add(f"bits struct {n} {c}", ",".join(str(x) for x in row), {"n": n, "c": c})
            exp = [(-2 if d == 0 else 0 if d == c else 2 if d & c == c else 1 if d & c == d else -1) for d in range(N)]
            if row != exp:
                res.violation("structure row ≠ (sub ↦ 1, super ↦ 2, self ↦ 0, ∅ ↦ −2, else −1)", {"n": n, "coalition": c, "row": row},
                              key="struct:row")
            res.evaluations += 1
        res.count(f"structure:n={n}", N)


def lattice_games():
    """all games on n = 3 with v(∅) = 0, singletons in {−1,0,1}, other coalitions in −1..2"""
    for sing in itertools.product((-1, 0, 1), repeat=3):
        for rest in itertools.product((-1, 0, 1, 2), repeat=4):
            v = [0] * 8
            v[1], v[2], v[4] = sing
            v[3], v[5], v[6], v[7] = rest
            yield [Fraction(x) for x in v]


E30 = Fraction(1, 2 ** 30)
RT_DEFAULT = Fraction(1e-9)
TOL_DEFAULT = Fraction(1e-10)


def tolerance_games(rnd, n):
    """(values, rtol, atol, tol, use_defaults, exact_family)"""
    N = 2 ** n
    out = []
    w = [rnd.randint(1, 3) for _ in range(n)]
    add = [Fraction(sum(w[i] for i in range(n) if c >> i & 1)) for c in range(N)]
    big = [c for c in range(N) if G.popcount(c) >= 2]
    # dyadic family: exact in float64, hits the boundary exactly
    for _ in range(6):
        v = list(add)
        U = rnd.choice(big)
        k = rnd.choice([-1, 0, 1, int(add[U]) - 1, int(add[U]), int(add[U]) + 1, rnd.randint(0, 12)])
        v[U] = add[U] - k * E30
        if rnd.random() < 0.5:
            c2 = rnd.randrange(1, N)
            v[c2] += rnd.randint(-3, 3) * E30
        rtol = rnd.choice([E30, E30, 2 * E30, Fraction(0)])
        atol = rnd.choice([Fraction(0), Fraction(0), E30, 3 * E30])
        tol = rnd.choice([Fraction(0), E30, 2 * E30, 3 * E30])
        out.append((v, rtol, atol, tol, False, True))
    # default tolerances (rtol = 1e-9, atol = 0, tol = 1e-10), perturbations well away from the boundary
    for _ in range(6):
        v = list(add)
        U = rnd.choice(big)
        f = rnd.choice([0.0, 0.1, 0.5, 0.9, 1.1, 2.0, 10.0, -0.5, -2.0])
        scale = rnd.choice([1e-9 * float(add[U]), 1e-10, 1e-10, 1e-8])
        v[U] = Fraction(float(add[U]) - f * scale)
        if rnd.random() < 0.3:
            v[U] = Fraction(float(add[U]) * (1.0 + 1e-10))
        out.append((v, RT_DEFAULT, Fraction(0), TOL_DEFAULT, True, False))
    return out


def random_games(rnd, n, turn=None):
    kind = (lambda kinds_: kinds_[turn % len(kinds_)] if turn is not None else rnd.choice(kinds_))(["sa", "sa", "sa-broken", "sam", "sam-broken", "convex", "convex-broken", "additive", "neg-additive",
                       "random", "random", "v0", "v0-small-among-huge", "near-additive-huge", "huge-opposite-parts"] + (["matching", "matching-one-split", "matching-one-split"] if n >= 4 else []))
    N = 2 ** n
    if kind == "huge-opposite-parts":
        # two players with huge values of opposite sign whose union is small: the documented tolerance is relative to |v(U)|, not to
        # the size of the parts — a violation (or a margin) of 1 or 2 at such a coalition is far above it
        H = rnd.choice([10 ** 10, 2 ** 34, 2 ** 40])
        i_, j_ = rnd.sample(range(n), 2)
        w = [rnd.randint(-2, 3) for _ in range(n)]
        w[i_], w[j_] = H, -H + rnd.randint(-2, 3)
        v = [Fraction(sum(w[k_] for k_ in range(n) if c >> k_ & 1)) for c in range(N)]
        both = [c for c in range(N) if c >> i_ & 1 and c >> j_ & 1]
        if rnd.random() < 0.6:
            # exactly the pair {i, j} is lowered: the ONLY violated split is ({i}, {j}), whose parts are the two huge values
            v[(1 << i_) | (1 << j_)] += rnd.choice([-2, -1])
        else:
            v[rnd.choice(both)] += rnd.choice([-2, -1, 1, 2])
        return kind, v
    if kind == "near-additive-huge":
        # an additive cost game of magnitude 10^6 … 2^40 with ONE coalition moved by 1 (or 1/2): additive "to within 1e-6 relative",
        # and not additive — monotonicity and superadditivity are exact statements about it
        w = [-rnd.choice([10 ** 6, 2 ** 30, 2 ** 40]) * rnd.randint(0, 3) for _ in range(n)]
        v = [Fraction(sum(w[i] for i in range(n) if c >> i & 1)) for c in range(N)]
        c_ = rnd.choice([c for c in range(N) if G.popcount(c) >= 2])
        v[c_] += rnd.choice([1, -1, Fraction(1, 2), 2])
        return kind, v
    if kind == "v0-small-among-huge":
        # a superadditive (or cost: negated, for is_sam) game of magnitude 2^40 whose EMPTY coalition has a small non-zero value: the only
        # split that rejects a positive v(∅) outright is S = T = ∅ (2·v(∅) ≤ v(∅)); in every other split v(∅) drowns in the tolerance
        base = G.sa_game(n, rnd, "int", neg_singletons=False) if rnd.random() < 0.6 else G.sam_game(n, rnd)
        v = [x * 2 ** 40 for x in base]
        v[0] = Fraction(rnd.choice([1, 1, Fraction(1, 2), 3, -1]))
        return kind, v
    if kind.startswith("matching"):
        # matching games (value = best total of disjoint weighted pairs inside the coalition): superadditive, and every
        # constraint that binds is a split into two parts of >= 2 players.  `one-split`: the value of ONE coalition U of >= 4
        # players is lowered by 1/2, so that superadditivity fails ONLY at U and ONLY for splits with both parts >= 2 players
        # (every split that peels off a single player still holds) — invisible to any check that looks at singleton splits only.
        w = [[rnd.randint(1, 6) for _ in range(n)] for _ in range(n)]
        v = [Fraction(0)] * N
        for c in sorted(range(N), key=G.popcount):
            ps = [i for i in range(n) if c >> i & 1]
            best = Fraction(0)
            for a in range(len(ps)):
                for b_ in range(a + 1, len(ps)):
                    rest = c & ~(1 << ps[a]) & ~(1 << ps[b_])
                    best = max(best, w[ps[a]][ps[b_]] + v[rest])
            v[c] = best
        if kind == "matching-one-split":
            U = rnd.choice([c for c in range(N) if G.popcount(c) >= 4])
            v[U] -= Fraction(1, 2)
        return kind, v
    if kind.startswith("sa"):
        v = G.sa_game(n, rnd, rnd.choice(["int", "dyadic"]), neg_singletons=rnd.random() < 0.5,
                      v0=Fraction(rnd.choice([0, 0, -1])))
    elif kind.startswith("sam"):
        v = G.sam_game(n, rnd)
    elif kind.startswith("convex"):
        w = [rnd.randint(0, 3) for _ in range(n)]
        q = rnd.choice([1, 2])
        v = [Fraction(sum(w[i] for i in range(n) if c >> i & 1) ** q + (G.popcount(c) ** 2 if rnd.random() < 2 else 0))
             for c in range(N)]
    elif kind == "additive":
        v = G.additive_game(n, rnd, rnd.choice(["int", "dyadic"]))
    elif kind == "neg-additive":
        v = [-x for x in G.additive_game(n, rnd, "int")]
    elif kind == "v0":
        v = [Fraction(rnd.randint(-2, 2)) for _ in range(N)]
        v[0] = Fraction(rnd.choice([-1, 1, 2]))
    else:
        v = [Fraction(rnd.randint(-3, 3), rnd.choice([1, 1, 2])) for _ in range(N)]
        v[0] = Fraction(0)
    if kind.endswith("broken"):
        c = rnd.randrange(1, N)
        v[c] += rnd.choice([-2, -1, 1, 2, Fraction(1, 2)])
    return kind, v


def part_predicates(res, script, post, tier, budget, rnd):
    from incomplete_cooperative.game import IncompleteCooperativeGame
    from incomplete_cooperative.game_properties import is_monotone_decreasing, is_sam, is_superadditive
    from incomplete_cooperative.supermodularity_check import check_supermodularity

    min_margin = Fraction(1, 2 ** 40)

    def one(n, v, rtol, atol, tol, defaults, exact, tag):
        """run the four real predicates on a complete game; protocol lines; oracle"""
        assert all(is_exact_float(x) for x in v)
        o_s, m_s = o_sa(v, n, rtol, atol)
        o_m = o_mono(v, n)
        o_sd, _ = o_sa(v, n, RT_DEFAULT, Fraction(0))          # is_sam always uses the defaults
        o_c, m_c = o_supermod(v, n, tol)
        scale = max([abs(x) for x in v] + [Fraction(1)])
        if not exact:
            m_sd = o_sa(v, n, RT_DEFAULT, Fraction(0))[1]
            ms = [m for m in (m_s, m_c, m_sd) if m is not None]
            if ms and min(ms) < min_margin * scale:
                res.count("predicates:skipped (float rounding could decide)")
                return
        g = IncompleteCooperativeGame(n)
        g.set_values(np.array([float(x) for x in v], dtype=float))
        vs = rlist(v)
        replay = {"n": n, "values": [rs(x) for x in v], "rtol": rs(rtol), "atol": rs(atol), "tolerance": rs(tol), "family": tag}
        if defaults:
            r_s, e_s = call(lambda: bool(is_superadditive(g)))
            r_c, e_c = call(lambda: check_supermodularity(g))
        else:
            r_s, e_s = call(lambda: bool(is_superadditive(g, rtol=float(rtol), atol=float(atol))))
            r_c, e_c = call(lambda: check_supermodularity(g, float(tol)))
        r_m, e_m = call(lambda: bool(is_monotone_decreasing(g)))
        r_sam, e_sam = call(lambda: bool(is_sam(g)))
        b = lambda x: "1" if x else "0"  # noqa: E731
        script.add(f"bits issa {n} {rs(rtol)} {rs(atol)} {vs}", e_s or b(r_s), replay)
        script.add(f"bits ismono {n} {vs}", e_m or b(r_m), replay)
        script.add(f"bits issam {n} {rs(RT_DEFAULT)} 0 {vs}", e_sam or b(r_sam), replay)
        script.add(f"bits supermod {n} {rs(tol)} {vs}", e_c or ("none" if r_c is None else "viol"), replay)
        if e_c is None and r_c is not None:
            post.append((len(script) - 1, "triple", (r_c[0].id, r_c[1].id, int(r_c[2]))))
        res.evaluations += 4
        res.count(f"predicates:{tag}:n={n}")
        res.count(f"verdict:sa={b(o_s)} mono={b(o_m)} supermod={b(o_c)}")
        if e_s or r_s != o_s:
            res.violation("is_superadditive ≠ its definition (∀ disjoint a, b: v(a)+v(b) ≤ v(a∪b) or within tolerance)",
                          dict(replay, observed=e_s or r_s, expected=o_s), key="pred:is_superadditive")
        if e_m or r_m != o_m:
            res.violation("is_monotone_decreasing ≠ its definition (∀ S ⊆ T: v(S) ≥ v(T))",
                          dict(replay, observed=e_m or r_m, expected=o_m), key="pred:is_monotone_decreasing")
        if e_sam or r_sam != (o_sd and o_m):
            res.violation("is_sam ≠ superadditive ∧ monotone decreasing",
                          dict(replay, observed=e_sam or r_sam, expected=o_sd and o_m), key="pred:is_sam")
        if e_c or (r_c is None) != o_c:
            res.violation("check_supermodularity = None does not coincide with supermodularity (with tolerance)",
                          dict(replay, observed=e_c or repr(r_c), expected=o_c), key="pred:check_supermodularity")
        elif r_c is not None and not violates(v, n, tol, r_c[0].id, r_c[1].id, int(r_c[2])):
            res.violation("check_supermodularity returned a triple (T, S, i) that does not violate supermodularity",
                          dict(replay, observed=[r_c[0].id, r_c[1].id, int(r_c[2])]), key="pred:check_supermodularity:triple")
        ms = [m for m in (m_s, m_c) if m is not None]
        if len({o_s, o_m, o_c}) > 1 or (tag.startswith("tol") and ms and min(ms) < Fraction(1, 2 ** 20)):
            res.nontrivial.add(("g", n, tuple(v), rtol, atol, tol))
        if tag.startswith("tol") and ms and min(ms) == 0:
            res.count("predicates:exactly on the tolerance boundary")

    # the lattice (exhaustive in both tiers; a third of it if the budget is very short)
    games = list(lattice_games())
    for k, v in enumerate(games):
        if not budget.ok():
            res.notes.append(f"predicates: budget exhausted after {k} of {len(games)} lattice games")
            break
        one(3, v, RT_DEFAULT, Fraction(0), TOL_DEFAULT, True, False, "lattice")
    else:
        res.count("predicates:lattice complete")
    rounds = 150 if tier == "quick" else 1500
    for r in range(rounds):
        if not budget.ok():
            res.notes.append(f"predicates: budget exhausted after {r} random rounds")
            break
        n = rnd.choice([3, 3, 4, 4, 5])
        kind, v = random_games(rnd, n, turn=r)          # the kinds take turns: every kind is visited in every run
        huge_kind = kind in ("huge-opposite-parts", "near-additive-huge", "v0-small-among-huge")
        if (rnd.random() < 0.5) if not huge_kind else (r // 18) % 3 != 2:
            # the huge kinds hold (half-)integers below 2^42: every float operation of the predicates is exact on them, and their
            # margins (≥ 1/2) are far from every tolerance product — no "float rounding could decide" guard needed (it is relative to
            # the largest magnitude and would drop exactly these games)
            one(n, v, RT_DEFAULT, Fraction(0), TOL_DEFAULT, True, huge_kind, f"random-{kind}")
        else:
            one(n, v, rnd.choice([Fraction(0), Fraction(1, 8), Fraction(1, 2)]), rnd.choice([Fraction(0), Fraction(1, 2), Fraction(1)]),
                rnd.choice([Fraction(0), Fraction(1, 2), Fraction(1), Fraction(-1, 2)]), False, True, f"random-{kind}-dyadic-tolerance")
        if r % 3 == 0:
            for (tv, rtol, atol, tol, defaults, exact) in tolerance_games(rnd, n):
                one(n, tv, rtol, atol, tol, defaults, exact, "tol-dyadic" if exact else "tol-default")
    if len(res.samples) < 6:
        res.sample({"game": "n=3 lattice", "values": [rs(x) for x in games[4321]]}, limit=6)


def part_aliasing(res, script, post, tier, budget, rnd):
    """Aliasing probe (real code only): a caller edits, in place, the arrays the id-array functions handed out; later
    enumerations and predicates must be unaffected (the functions return fresh arrays — a shared / memoised one would be
    corrupted by this).  The per-n structure cache of bounds.py is NOT touched: it is documented as shared."""
    from incomplete_cooperative import coalition_ids as cid
    from incomplete_cooperative.game import IncompleteCooperativeGame
    from incomplete_cooperative.game_properties import is_monotone_decreasing, is_superadditive
    for n in (2, 3, 4):
        N = 2 ** n
        for m in range(0, n + 1):
            a = cid.get_all_coalitions(m)
            a |= 1                                   # "all coalitions containing player 0", written in place
        for c in range(N):
            cid.sub_coalitions(np.int32(c), n)[...] = 0
            cid.super_coalitions(np.int32(c), n)[...] = N - 1
            cid.players(np.int32(c), n)[...] = 0
        res.count("aliasing:arrays-edited-in-place")
        for c in range(N):
            sub = sorted(int(x) for x in cid.sub_coalitions(np.int32(c), n))
            sup = sorted(int(x) for x in cid.super_coalitions(np.int32(c), n))
            res.evaluations += 2
            if sub != [x for x in range(N) if x & c == x] or sup != [x for x in range(N) if x & c == c]:
                res.violation("after a caller edited a returned id array in place, sub/super-coalition enumeration is wrong "
                              "(the arrays are shared between calls)", {"n": n, "coalition": c, "sub": sub, "super": sup},
                              key="aliasing:enumeration")
                break
        if list(int(x) for x in cid.get_all_coalitions(n)) != list(range(N)):
            res.violation("get_all_coalitions returns an array a previous caller edited", {"n": n}, key="aliasing:get_all_coalitions")
        # a game violating superadditivity only at a pair of coalitions without player 0, and one violating monotonicity there
        g = IncompleteCooperativeGame(n)
        vals = np.zeros(N)
        if n >= 3:
            vals[2] = vals[4] = 1.0
            vals[6] = 1.0                           # v({1}) + v({2}) = 2 > 1 = v({1,2})
            vals[7:] = 5.0
            vals[3] = vals[5] = 1.0
            g.set_values(vals)
            res.evaluations += 1
            if is_superadditive(g):
                res.violation("is_superadditive accepts v({1})+v({2}) > v({1,2}) after a caller edited a returned id array in place",
                              {"n": n, "values": vals.tolist()}, key="aliasing:is_superadditive")
            vals2 = -np.array([bin(x).count("1") for x in range(N)], dtype=float)
            vals2[6] = 0.0                          # v({1,2}) = 0 > v({1}) = −1: not monotone non-increasing
            g2 = IncompleteCooperativeGame(n)
            g2.set_values(vals2)
            if is_monotone_decreasing(g2):
                res.violation("is_monotone_decreasing accepts v({1,2}) > v({1}) after a caller edited a returned id array in place",
                              {"n": n, "values": vals2.tolist()}, key="aliasing:is_monotone_decreasing")


def run(tier: str, budget: Budget, rnd, arg) -> StreamResult:
    res = StreamResult("bits")
    script = Script()
    post: list = []
    parts = [(part_coalitions, 0.30), (part_pairs, 0.15), (part_structure, 0.10), (part_predicates, 0.45)]
    total = max(budget.left(), 1.0)
    for f, share in parts:
        sub = Budget(min(budget.left(), total * share + 1.0))
        f(res, script, post, tier, sub, rnd)
    part_aliasing(res, script, post, tier, budget, rnd)      # last: it deliberately scribbles on returned arrays
    part_fresh_order(res, tier, budget, rnd)
    for b in script.diff(_compare):
        res.disagree("bits answer", {k: b[k] for k in ("line", "impl", "model", "ctx", "kind")})
    outs = script.outs
    for i, kind, data in post:
        got = outs[i]
        line = script.lines[i]
        if got == "bad-op":
            continue        # already reported by diff()
        if kind == "exact":
            nm, want = data
            if got != want:
                res.disagree(f"{nm}", {"line": line, "impl": want, "model": got, "ctx": script.ctx[i]})
        elif kind in ("enum", "set"):
            nm, lst = data
            want = slist(set(lst) if kind == "set" else lst)
            if got.startswith("err:"):
                res.disagree(f"enumeration {nm}", {"line": line, "impl": want, "model": got, "ctx": script.ctx[i]})
                continue
            m = [] if got == "-" else [int(x) for x in got.split(",")]
            canon = nlist(sorted(set(m) if kind == "set" else m))
            if canon != want:
                res.disagree(f"enumeration {nm} (as sorted lists)", {"line": line, "impl": want, "model": canon, "ctx": script.ctx[i]})
            else:
                res.count(f"order:{nm}:{'same' if m == [int(x) for x in lst] else 'different'}")
        elif kind == "sorted":
            n, impl_sorted = data
            m = [] if got == "-" else [int(x) for x in got.split(",")]
            msz = [len(S(x)) for x in m]
            if sorted(m) != list(range(2 ** n)) or msz != sorted(msz) or msz != [len(S(x)) for x in impl_sorted]:
                res.disagree("all_sorted (size-sorted permutation)", {"line": line, "impl": nlist(impl_sorted), "model": got})
            else:
                res.count(f"order:all_sorted:{'same' if m == impl_sorted else 'different'}")
        elif kind == "triple":
            if got not in ("none", "viol"):
                res.count(f"supermod triple:{'same' if got == ','.join(str(x) for x in data) else 'different'}")
    return res


def _compare(want: str, got: str) -> bool:
    """`supermod` lines answer `T,S,i` on the model side: compared as none / viol"""
    return want == got or (want == "viol" and got not in ("none", "bad-op") and not got.startswith("err:"))


def replay(prop: str, payload: dict):
    """Re-run a replay's input on the real code with the oracle of this stream."""
    from incomplete_cooperative.coalitions import Coalition
    inp = payload.get("input", {})
    if "values" in inp:
        from incomplete_cooperative.game import IncompleteCooperativeGame
        from incomplete_cooperative.game_properties import is_monotone_decreasing, is_sam, is_superadditive
        from incomplete_cooperative.supermodularity_check import check_supermodularity
        n = inp["n"]
        v = [Fraction(x) for x in inp["values"]]
        rtol, atol, tol = Fraction(inp["rtol"]), Fraction(inp["atol"]), Fraction(inp["tolerance"])
        g = IncompleteCooperativeGame(n)
        g.set_values(np.array([float(x) for x in v], dtype=float))
        got = {"sa": call(lambda: bool(is_superadditive(g, rtol=float(rtol), atol=float(atol)))),
               "mono": call(lambda: bool(is_monotone_decreasing(g))), "sam": call(lambda: bool(is_sam(g))),
               "supermod": call(lambda: check_supermodularity(g, float(tol)) is None)}
        want = {"sa": o_sa(v, n, rtol, atol)[0], "mono": o_mono(v, n),
                "sam": o_sa(v, n, RT_DEFAULT, Fraction(0))[0] and o_mono(v, n), "supermod": o_supermod(v, n, tol)[0]}
        bad = {k: (got[k], want[k]) for k in want if got[k][1] is not None or got[k][0] != want[k]}
        return bool(bad), f"predicates (observed, expected) that differ: {bad}" if bad else "predicates agree with their definitions"
    if "a" in inp and "b" in inp:
        a, b = inp["a"], inp["b"]
        A, B = Coalition(a), Coalition(b)
        bad = []
        if S((A & B).id) != S(a) & S(b):
            bad.append("&")
        if S((A | B).id) != S(a) | S(b):
            bad.append("|")
        if S((A - B).id) != S(a) - S(b):
            bad.append("-")
        if (B in A) != (S(b) <= S(a)):
            bad.append("in")
        return bool(bad), f"operators disagreeing with set semantics on ({a}, {b}): {bad}"
    if "order" in inp:
        bad = fresh_order_run(inp["order"])
        return bool(bad), (f"fresh interpreter, player counts used in the order {inp['order']}: {bad[:3]}" if bad else
                           f"fresh interpreter, order {inp['order']}: every coalition agrees with finite-set semantics")
    if "coalition" in inp and "n" in inp:
        bad = coalition_oracle(inp["n"], inp["coalition"])
        return bool(bad), (f"coalition {inp['coalition']} on {inp['n']} players: operations disagreeing with finite-set "
                           f"semantics: {bad}" if bad else "all coalition operations agree with finite-set semantics")
    return False, "this replay holds the complete failing input; no automatic replayer for this kind"


def coalition_oracle(n: int, c: int) -> list[str]:
    """finite-set oracle of one coalition on the real code (replay helper; same checks as `part_coalitions`)"""
    from incomplete_cooperative import coalition_ids as cid
    from incomplete_cooperative.coalitions import Coalition, exclude_coalition, get_sub_coalitions, get_super_coalitions
    N = 2 ** n
    C, sc, full = Coalition(c), S(c), frozenset(range(n))
    bad = []
    pl = list(C.players)
    if len(C) != len(sc):
        bad.append("len")
    if pl != sorted(sc):
        bad.append("players")
    if Coalition.from_players(pl + pl).id != c:
        bad.append("from_players")
    if S(C.inverted(n).id) != full - sc:
        bad.append("inverted")
    for i in range(n + 1):
        if ((i in C) != (i in sc) or S((C + i).id) != sc | {i} or S((C - i).id) != sc - {i} or S((C | i).id) != sc | {i}
                or S((C & i).id) != sc & {i}):
            bad.append(f"player operand {i}")
    sub_obj = [x.id for x in get_sub_coalitions(C)]
    sup_obj = [x.id for x in get_super_coalitions(C, n)]
    sub_id = [int(x) for x in cid.sub_coalitions(np.int32(c), n)]
    sup_id = [int(x) for x in cid.super_coalitions(np.int32(c), n)]
    exp_sub = {x for x in range(N) if x & c == x}
    exp_sup = {x for x in range(N) if x & c == c}
    for nm, lst, exp in (("get_sub_coalitions", sub_obj, exp_sub), ("get_super_coalitions", sup_obj, exp_sup),
                         ("coalition_ids.sub_coalitions", sub_id, exp_sub), ("coalition_ids.super_coalitions", sup_id, exp_sup)):
        if set(lst) != exp or len(set(lst)) != len(lst):
            bad.append(nm)
    if [int(x) for x in cid.players(np.int32(c), n)] != sorted(sc) or int(cid.get_size(np.int32(c), n)) != len(sc):
        bad.append("coalition_ids.players/get_size")
    if [x.id for x in exclude_coalition(C, map(Coalition, range(N)))] != [x for x in range(N) if not (S(x) & sc)]:
        bad.append("exclude_coalition")
    return bad


# ----------------------------------------------------------------------------------------------
# first-use order: module-level state (tables extended on demand, memoised structures) must not depend on the ORDER in
# which player counts are first used within one interpreter.  The in-process parts above visit n in ascending order, so
# this oracle runs the finite-set oracle in FRESH interpreters that start at a large n / jump / descend.

FRESH_ORDERS_QUICK = [[10], [10, 9, 8], [7, 10, 9], [9, 4, 10]]
FRESH_ORDERS_THOROUGH = FRESH_ORDERS_QUICK + [[10, 8], [8, 10], [6, 9], [9, 6, 10, 3], [5, 10, 7]]


def fresh_order_run(order: list[int]) -> list[dict]:
    """in a fresh interpreter: for n in `order`, the finite-set oracle of every coalition of n players"""
    import json
    import subprocess
    import sys
    from common import REPO
    env = dict(os.environ, PYTHONPATH=f"{REPO}:{os.path.dirname(os.path.abspath(__file__))}", PYTHONDONTWRITEBYTECODE="1")
    p = subprocess.run([sys.executable, os.path.abspath(__file__), "--fresh-order", ",".join(map(str, order))],
                       capture_output=True, text=True, env=env, timeout=900)
    for line in p.stdout.splitlines():
        if line.startswith("FRESH "):
            return json.loads(line[6:])
    return [{"order": order, "crashed": (p.stderr or p.stdout)[-400:]}]


def part_fresh_order(res, tier, budget, rnd) -> None:
    from concurrent.futures import ThreadPoolExecutor
    orders = FRESH_ORDERS_QUICK if tier == "quick" else FRESH_ORDERS_THOROUGH
    with ThreadPoolExecutor(max_workers=4) as ex:
        outs = list(ex.map(fresh_order_run, orders))
    for order, bad in zip(orders, outs):
        res.evaluations += 1
        res.count("fresh-order:" + "-".join(map(str, order)))
        if bad and "crashed" in bad[0]:
            res.violation(f"a fresh interpreter visiting player counts in the order {order} crashed: {bad[0]['crashed'][-200:]}",
                          {"order": order}, key="bits:first-use-order:crash")
        elif bad:
            b = bad[0]
            res.violation(f"in a fresh interpreter that uses player counts in the order {order}, coalition {b['coalition']} of {b['n']} players: "
                          f"{b['bad']} disagree with finite-set semantics ({len(bad)} coalitions affected)",
                          {"order": order, "n": b["n"], "coalition": b["coalition"], "bad": b["bad"]}, key="bits:first-use-order")
        else:
            res.nontrivial.add(("fresh-order", tuple(order)))


if __name__ == "__main__":
    import json
    import os
    import sys
    if len(sys.argv) == 3 and sys.argv[1] == "--fresh-order":
        out = []
        for n_ in [int(x) for x in sys.argv[2].split(",")]:
            for c_ in range(2 ** n_):
                bad_ = coalition_oracle(n_, c_)
                if bad_:
                    out.append({"n": n_, "coalition": c_, "bad": bad_})
        print("FRESH " + json.dumps(out[:50]))
