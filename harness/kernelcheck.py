#!/usr/bin/env python3
"""Kernel cross-check of the compiled model driver (DESIGN.md section 4).

The correspondence streams drive a COMPILED native executable of the Lean model.  This module takes driver
batches as recorded in `common.DRIVER_SAMPLES` (input lines + the answers the compiled driver printed), turns
a sample of them into closed Lean statements

    theorem kc_i : <model function> <literal input> = <literal observed output> := by decide +kernel

and has the Lean KERNEL evaluate them (`lake env lean ICG/KernelCheck/Generated.lean`).  `decide +kernel`
asks the kernel to reduce `Decidable.decide p` to `true` by unfolding the model definitions — the very
definitions the theorems of lean/ICG/Props are about; neither compiled code nor the interpreter takes part,
and `#print axioms` of every statement shows ⊆ {propext, Classical.choice, Quot.sound}.

Supported protocol lines (grammar: lean/ICG/Driver/{Tab,Bits,Shp}.lean):
  tab   new set unset reveal unreveal setlo sethi setvalues setknown bounds compute spec dump known getvalue
        getvalues getknown getknowns full copy neg drop        (add / eq involve two objects: the target of `add`
        is picked up again at its next dump, `eq` is skipped)
        A statement is one *segment* of one object's history: from `tab new` (or from the table its previous
        `tab dump` printed) through every operation up to and including the next `tab dump`, asserting every
        answer line in between (ok / err:kind / getter results / the dump).
  bits  every operation of Driver/Bits.lean
  shp   every operation of Driver/Shp.lean
Rationals: inputs become Lean `Rat` literals (`7/2`, `-3/4`), observed outputs become pairs (numerator,
denominator) compared with `(r.num, r.den)` of the model's result, so an un-normalised or differently signed
fraction printed by the compiled code is a mismatch, too.

API:  statements_from_batches(batches) -> list[str];  check(batches, max_statements=40, timeout=600) -> dict.
`python harness/kernelcheck.py` runs a self-test (see `main`).
"""
from __future__ import annotations

import math
import os
import re
import shutil
import signal
import subprocess
import sys
import tempfile
import time
from dataclasses import dataclass, field
from fractions import Fraction
from pathlib import Path

sys.path.insert(0, str(Path(__file__).resolve().parent))

import common  # noqa: E402
from common import LEAN  # noqa: E402

GENERATED = "ICG/KernelCheck/Generated.lean"
STD_AXIOMS = {"propext", "Classical.choice", "Quot.sound"}
ERR_KINDS = {"err:assert": "assert", "err:value": "value", "err:index": "index", "err:attr": "attr",
             "err:nan": "nan", "err:other": "other"}

# Size limits: what the kernel evaluates comfortably (measured; every result carries the measured kernel seconds per
# statement kind and size in `by_kind`).  n = 6 bound computations are feasible too (sa 11 s, sac 16 s, sam:1 37 s and
# 2–3 GB of memory per statement): raise the three `tab.compute.*` entries to 6 to include them.
MAX_N = {"tab.compute.sa": 5, "tab.compute.sac": 5, "tab.compute.sam": 5, "tab.spec": 4, "tab": 5,
         "bits": 6, "bits.struct": 6, "bits.pred": 5, "shp": 6, "shp.expl": 5}
# Estimated kernel seconds of one bound computation by computer and n (SAM: first + per extra repetition), and of
# the cheap statement kinds by n.  Only used to keep a sample within its time budget; nothing depends on the values.
COMPUTE_COST = {"sa": {0: .05, 1: .05, 2: .05, 3: .25, 4: .6, 5: 2.5, 6: 11.0},
                "sac": {0: .05, 1: .05, 2: .05, 3: .25, 4: .8, 5: 3.5, 6: 16.0},
                "sam": {0: .05, 1: .05, 2: .05, 3: .3, 4: 1.0, 5: 4.2, 6: 23.0}}
SAM_ROUND_COST = {0: .02, 1: .02, 2: .02, 3: .12, 4: .8, 5: 3.0, 6: 12.0}
SMALL_COST = {0: .05, 1: .05, 2: .05, 3: .05, 4: .1, 5: .3, 6: 1.5}


def compute_cost(comp: str, n: int) -> float:
    """`comp` is sa | sac | sam:r"""
    if n > 6:
        return 1e9
    if comp.startswith("sam:"):
        return COMPUTE_COST["sam"][n] + int(comp[4:]) * SAM_ROUND_COST[n]
    return COMPUTE_COST[comp][n]


def small_cost(n: int, factor: float = 1.0) -> float:
    return factor * SMALL_COST.get(n, 5.0)


_FLAT_COST = {"bits." + k for k in ("size", "players", "from", "single", "grand", "and", "or", "sub", "contains", "eq",
                                    "disjoint", "andp", "orp", "subp", "addp", "hasplayer", "inverted", "exclude")} | {"shp.contrib"}
MAX_OPS = 14              # operations in one `tab` segment
MAX_COMPUTES = 3          # bound computations in one `tab` segment
MAX_NAT = 10 ** 30        # coalition ids / players as literals
MAX_BITS_LIST = 80        # longest expected list in a `bits` statement


class Unsupported(Exception):
    pass


# ----------------------------------------------------------------------------------------------
# protocol text -> Lean literals

_NAT = re.compile(r"[0-9]+\Z")
_INT = re.compile(r"-?[0-9]+\Z")


def p_nat(s: str) -> int:
    if not _NAT.match(s):
        raise Unsupported(f"not a natural: {s[:20]}")
    v = int(s)
    if v > MAX_NAT:
        raise Unsupported("natural too large for a statement")
    return v


def p_rat(s: str) -> Fraction:
    """`p` or `p/q` as the driver parses it (Proto.parseRat?): integer numerator, natural non-zero denominator."""
    parts = s.split("/")
    if len(parts) == 1 and _INT.match(parts[0]):
        return Fraction(int(parts[0]))
    if len(parts) == 2 and _INT.match(parts[0]) and _NAT.match(parts[1]) and int(parts[1]) != 0:
        return Fraction(int(parts[0]), int(parts[1]))
    raise Unsupported(f"not a rational: {s[:20]}")


def p_list(s: str, f):
    return [] if s in ("-", "") else [f(x) for x in s.split(",")]


def p_optnats(s: str):
    return None if s == "none" else p_list(s, p_nat)


def p_known(s: str) -> list[bool]:
    if not re.match(r"[01]*\Z", s):
        raise Unsupported("known string")
    return [ch == "1" for ch in s]


def l_rat(x: Fraction) -> str:
    """an input rational as a Lean `Rat` term (numeral, or numeral / numeral)"""
    if x.denominator == 1:
        return str(x.numerator) if x >= 0 else f"-{-x.numerator}"
    return f"{x.numerator}/{x.denominator}" if x > 0 else f"-{-x.numerator}/{x.denominator}"


def l_rat_arg(x: Fraction) -> str:
    """an input rational in argument position"""
    return f"({l_rat(x)} : Rat)"


def l_rats(xs) -> str:
    return "[" + ", ".join(l_rat(x) for x in xs) + "]"


def l_nats(xs) -> str:
    return "[" + ", ".join(str(x) for x in xs) + "]"


def l_ints(xs) -> str:
    return "[" + ", ".join(str(x) for x in xs) + "]"


def l_optnats(xs) -> str:
    return "none" if xs is None else f"(some {l_nats(xs)})"


def l_bools(xs) -> str:
    return "[" + ", ".join("true" if b else "false" for b in xs) + "]"


def l_bool(s: str) -> str:
    if s not in ("0", "1"):
        raise Unsupported("boolean answer")
    return "true" if s == "1" else "false"


def q_text(s: str) -> str:
    """an OBSERVED rational `p` / `p/q`, kept exactly as printed: the pair (numerator, denominator)"""
    parts = s.split("/")
    if len(parts) == 1 and _INT.match(parts[0]):
        return f"({int(parts[0])}, 1)"
    if len(parts) == 2 and _INT.match(parts[0]) and _NAT.match(parts[1]):
        return f"({int(parts[0])}, {int(parts[1])})"
    raise Unsupported(f"not a printed rational: {s[:20]}")


def qs_text(s: str) -> str:
    return "[" + ", ".join(p_list(s, q_text)) + "]"


def l_err(ans: str) -> str:
    return "." + ERR_KINDS[ans]


def except_ans(ans: str, ok) -> str:
    """`.ok <literal>` / `.error .kind` for an answer of an `Except Err _` valued operation"""
    if ans in ERR_KINDS:
        return f".error {l_err(ans)}"
    return f".ok {ok(ans)}"


def ilog2_exact(m: int) -> int:
    if m <= 0 or m & (m - 1):
        raise Unsupported("row count is not a power of two")
    return m.bit_length() - 1


# ----------------------------------------------------------------------------------------------
# candidates

@dataclass
class Candidate:
    kind: str                 # e.g. "tab.compute.sa", "tab.ops", "bits.subobj", "shp.shapley"
    n: int                    # player count (or a size measure) the statement is about
    prop: str                 # the Lean proposition
    source: list = field(default_factory=list)     # (protocol line, observed answer) pairs it was made from
    origin: tuple | None = None                    # `tab`: the (`tab new …`, answer) or (`tab dump …`, answer) it starts from

    def shown(self, k: int = 8, width: int = 300) -> list[str]:
        src = ([self.origin] if self.origin else []) + list(self.source)
        if len(src) > k:
            src = src[:2] + [("…", "…")] + src[-(k - 3):]
        return [f"{ln[:width]}  ->  {ans[:width]}" for ln, ans in src]

    def replay(self):
        """a self-contained mini batch (lines, answers) that yields this statement again, when there is one"""
        src = list(self.source)
        if self.kind.startswith("tab."):
            if not self.origin or not self.origin[0].startswith("tab new "):
                return None
            src = [self.origin] + src
            if len({ln.split()[2] for ln, _ in src}) != 1:
                return None
        return [ln for ln, _ in src], [a for _, a in src]
    cost: float = 0.1         # estimated kernel time in seconds (measured table below), used to stay within the budget

    def theorem(self, name: str, negate: bool = False) -> str:
        if negate:
            return f"theorem {name} : ¬ ({self.prop}) := by decide +kernel"
        return f"theorem {name} : {self.prop} := by decide +kernel"


def parse_dump(ans: str):
    parts = ans.split(" ")
    if len(parts) != 3 or not (parts[0].startswith("K=") and parts[1].startswith("L=") and parts[2].startswith("U=")):
        raise Unsupported("dump answer")
    return p_known(parts[0][2:]), parts[1][2:], parts[2][2:]


def computer_lit(s: str) -> tuple[str, str]:
    if s == "sa":
        return ".sa", "sa"
    if s == "sac":
        return ".sac", "sac"
    m = re.match(r"sam:([0-9]+)\Z", s)
    if m:
        return f"(.sam {int(m.group(1))})", "sam"
    raise Unsupported("computer")


class _Obj:
    """what is known about one driver object: where its current segment starts and what happened since"""

    def __init__(self, start: str | None, n: int | None, origin: tuple | None = None):
        self.start = start            # Lean `Start` literal, None when the origin is not expressible
        self.n = n
        self.origin = origin
        self.ops: list[tuple[str, str, str]] = []       # (Lean Op, Lean Ans, (line, answer))
        self.kinds: list[str] = []

    def clone(self) -> "_Obj":
        o = _Obj(self.start, self.n, self.origin)
        o.ops = list(self.ops)
        o.kinds = list(self.kinds)
        return o


def _ans_status(ans: str) -> str:
    if ans == "ok":
        return ".ok"
    if ans in ERR_KINDS:
        return f".err {l_err(ans)}"
    raise Unsupported(f"status answer {ans[:20]}")


def _tab_candidates(lines: list[str], answers: list[str], out: list[Candidate]) -> None:
    objs: dict[str, _Obj] = {}

    def flush(name: str) -> None:
        """emit the pending segment of `name` (it ends with a dump, or the object goes away)"""
        o = objs.get(name)
        if o is None or o.start is None or not o.ops or o.n is None:
            return
        interesting = [k for k in o.kinds if k not in ("set", "status")]
        if not interesting:
            return
        ncomp = sum(1 for k in o.kinds if k.startswith("compute") or k == "spec")
        if len(o.ops) > MAX_OPS or ncomp > MAX_COMPUTES:
            return
        comp = [k[len("compute:"):] for k in o.kinds if k.startswith("compute:")]
        kind = "tab." + ("compute." + comp[0].split(":")[0] if comp else ("spec" if "spec" in o.kinds else "ops"))
        if o.n > MAX_N.get(kind, MAX_N["tab"]):
            return
        cost = small_cost(o.n, 0.5 + 0.1 * len(o.ops)) + sum(compute_cost(c, o.n) for c in comp) \
            + 2.0 * small_cost(o.n) * o.kinds.count("spec")
        prop = (f"KC.tabRun {o.start}\n    [" + ",\n     ".join(op for op, _, _ in o.ops) + "]\n  = ["
                + ",\n     ".join(a for _, a, _ in o.ops) + "]")
        out.append(Candidate(kind, o.n, prop, [s for _, _, s in o.ops], origin=o.origin, cost=cost))

    for ln, ans in zip(lines, answers):
        w = [x for x in ln.split(" ") if x]
        if len(w) < 2 or w[0] != "tab" or ans == "bad-op":
            continue
        op, args = w[1], w[2:]
        src = (ln, ans)
        try:
            if op == "new" and len(args) == 2:
                n = p_nat(args[1])
                flush(args[0])
                objs[args[0]] = _Obj(f"(.init {n})", n, src)
                continue
            if op == "drop" and len(args) == 1:
                flush(args[0])
                objs.pop(args[0], None)
                continue
            if op == "copy" and len(args) == 2:
                if args[0] in objs:
                    objs[args[1]] = objs[args[0]].clone()
                else:
                    objs.pop(args[1], None)
                continue
            if op == "neg" and len(args) == 2:
                if args[0] in objs:
                    o = objs[args[0]].clone()
                    o.ops.append((".neg", ".ok", src))
                    o.kinds.append("set")
                    objs[args[1]] = o
                else:
                    objs.pop(args[1], None)
                continue
            if op == "add" and len(args) == 3:
                if ans == "ok":
                    objs[args[2]] = _Obj(None, None)       # origin involves two objects: resume at its next dump
                continue
            if op == "eq":
                continue
            if not args:
                raise Unsupported("no object")
            name = args[0]
            o = objs.get(name)
            if o is None:
                o = objs[name] = _Obj(None, None)
            a = args[1:]
            if op in ("set", "reveal", "setlo", "sethi") and len(a) == 2:
                o.ops.append((f".{op} {p_nat(a[0])} {l_rat_arg(p_rat(a[1]))}", _ans_status(ans), src))
                o.kinds.append("set" if ans == "ok" else "status")
            elif op in ("unset", "unreveal") and len(a) == 1:
                o.ops.append((f".{op} {p_nat(a[0])}", _ans_status(ans), src))
                o.kinds.append("set" if ans == "ok" else "status")
            elif op in ("setvalues", "setknown") and len(a) == 2:
                o.ops.append((f".{op} {l_optnats(p_optnats(a[0]))} {l_rats(p_list(a[1], p_rat))}", _ans_status(ans), src))
                o.kinds.append("set" if ans == "ok" else "status")
            elif op == "bounds" and len(a) == 3 and a[0] in ("hi", "lo"):
                up = "true" if a[0] == "hi" else "false"
                o.ops.append((f".bounds {up} {l_optnats(p_optnats(a[1]))} {l_rats(p_list(a[2], p_rat))}", _ans_status(ans), src))
                o.kinds.append("set" if ans == "ok" else "status")
            elif op == "compute" and len(a) == 1:
                lit, _ = computer_lit(a[0])
                o.ops.append((f".compute {lit}", _ans_status(ans), src))
                o.kinds.append("compute:" + a[0])
            elif op == "spec" and len(a) == 1:
                lit, _ = computer_lit(a[0])
                parts = ans.split(" ")
                if len(parts) != 2 or not (parts[0].startswith("L=") and parts[1].startswith("U=")):
                    raise Unsupported("spec answer")
                o.ops.append((f".spec {lit}", f".spec {qs_text(parts[0][2:])} {qs_text(parts[1][2:])}", src))
                o.kinds.append("spec")
            elif op == "dump" and len(a) == 0:
                K, L, U = parse_dump(ans)
                n = ilog2_exact(len(K))
                o.ops.append((".dump", f".dump {l_bools(K)}\n       {qs_text(L)}\n       {qs_text(U)}", src))
                o.kinds.append("dump")
                if o.n is None:
                    o.n = n
                flush(name)
                # the next segment starts from the table this dump showed
                o.start = (f"(.from {n} {l_bools(K)}\n      {l_rats(p_list(L, p_rat))}\n      {l_rats(p_list(U, p_rat))})")
                o.n = n
                o.origin = src
                o.ops, o.kinds = [], []
            elif op == "known" and len(a) == 1:
                o.ops.append((f".known {p_nat(a[0])}", _ans_status(ans) if ans in ERR_KINDS else f".bit {l_bool(ans)}", src))
                o.kinds.append("get")
            elif op == "getvalue" and len(a) == 1:
                o.ops.append((f".getvalue {p_nat(a[0])}", _ans_status(ans) if ans in ERR_KINDS else f".rat {q_text(ans)}", src))
                o.kinds.append("get")
            elif op == "getvalues" and len(a) == 1:
                o.ops.append((f".getvalues {l_optnats(p_optnats(a[0]))}",
                              _ans_status(ans) if ans in ERR_KINDS else f".rats {qs_text(ans)}", src))
                o.kinds.append("get")
            elif op == "getknown" and len(a) == 1:
                if ans in ERR_KINDS:
                    la = _ans_status(ans)
                else:
                    la = ".orat none" if ans == "none" else f".orat (some {q_text(ans)})"
                o.ops.append((f".getknown {p_nat(a[0])}", la, src))
                o.kinds.append("get")
            elif op == "getknowns" and len(a) == 0:
                items = p_list(ans, lambda x: "none" if x == "none" else f"some {q_text(x)}")
                o.ops.append((".getknowns", ".orats [" + ", ".join(items) + "]", src))
                o.kinds.append("get")
            elif op == "full" and len(a) == 0:
                o.ops.append((".full", f".bit {l_bool(ans)}", src))
                o.kinds.append("get")
            else:
                raise Unsupported("tab operation")
        except Unsupported:
            # a line this module cannot express was answered by the driver: whatever it touched is of unknown
            # origin until its next `new` / dump
            for x in args[:3]:
                if x in objs:
                    objs[x] = _Obj(None, None)
    for name in list(objs):
        flush(name)


def _values_ok(n: int, vals: list) -> None:
    if len(vals) != 2 ** n:
        raise Unsupported("vector length")


def _bits_candidate(w: list[str], ans: str) -> Candidate:
    op, a = w[1], w[2:]
    nat_list = lambda s: l_nats(p_list(s, p_nat))       # noqa: E731
    e_nats = lambda s: except_ans(s, nat_list)          # noqa: E731

    def lim_list(s: str) -> None:
        if len(p_list(s, p_nat)) > MAX_BITS_LIST:
            raise Unsupported("expected list too long")

    un = {"size": "ICG.size", "single": "ICG.singleton", "grand": "ICG.grand"}
    bin_nat = {"and": "ICG.inter", "or": "ICG.union", "sub": "ICG.diff", "subp": "ICG.removePlayer",
               "addp": "ICG.addPlayer", "inverted": "ICG.inverted"}
    bin_bool = {"contains": "ICG.contains", "disjoint": "ICG.disjoint", "hasplayer": "ICG.hasPlayer"}
    if op in un and len(a) == 1:
        x = p_nat(a[0])
        if op != "size" and x > 4096:
            raise Unsupported("2^x too large")
        return Candidate("bits." + op, x.bit_length(), f"{un[op]} {x} = {p_nat(ans)}")
    if op == "players" and len(a) == 1:
        return Candidate("bits.players", p_nat(a[0]).bit_length(), f"ICG.players {p_nat(a[0])} = {nat_list(ans)}")
    if op == "from" and len(a) == 1:
        ps = p_list(a[0], p_nat)
        if any(p > 4096 for p in ps):
            raise Unsupported("2^p too large")
        return Candidate("bits.from", len(ps), f"ICG.fromPlayers {l_nats(ps)} = {p_nat(ans)}")
    if op == "all" and len(a) == 1:
        lim_list(ans)
        return Candidate("bits.all", p_nat(a[0]), f"ICG.allCoalitions {p_nat(a[0])} = {nat_list(ans)}")
    if op in bin_nat and len(a) == 2:
        x, y = p_nat(a[0]), p_nat(a[1])
        if op in ("subp", "addp", "inverted") and y > 4096:
            raise Unsupported("2^y too large")
        return Candidate("bits." + op, max(x.bit_length(), y.bit_length()), f"{bin_nat[op]} {x} {y} = {p_nat(ans)}")
    if op in bin_bool and len(a) == 2:
        x, y = p_nat(a[0]), p_nat(a[1])
        if op == "hasplayer" and y > 4096:
            raise Unsupported("2^y too large")
        return Candidate("bits." + op, max(x.bit_length(), y.bit_length()), f"{bin_bool[op]} {x} {y} = {l_bool(ans)}")
    if op == "eq" and len(a) == 2:
        return Candidate("bits.eq", 0, f"(({p_nat(a[0])} : Nat) == {p_nat(a[1])}) = {l_bool(ans)}")
    if op in ("andp", "orp") and len(a) == 2:
        x, p = p_nat(a[0]), p_nat(a[1])
        if p > 4096:
            raise Unsupported("2^p too large")
        f = "ICG.inter" if op == "andp" else "ICG.union"
        return Candidate("bits." + op, x.bit_length(), f"{f} {x} (ICG.singleton {p}) = {p_nat(ans)}")
    if op == "subobj" and len(a) == 1:
        lim_list(ans)
        c = p_nat(a[0])
        return Candidate("bits.subobj", bin(c).count("1"), f"ICG.subCoalitionsObj {c} = {nat_list(ans)}")
    if op == "superobj" and len(a) == 2:
        lim_list(ans)
        c, n = p_nat(a[0]), p_nat(a[1])
        if n > 12:
            raise Unsupported("n")
        return Candidate("bits.superobj", n, f"ICG.superCoalitionsObj {c} {n} = {nat_list(ans)}")
    if op in ("subid", "superid") and len(a) == 2:
        c, n = p_nat(a[0]), p_nat(a[1])
        if n > 8:
            raise Unsupported("n")
        if ans not in ERR_KINDS:
            lim_list(ans)
        f = "ICG.subCoalitionsId" if op == "subid" else "ICG.superCoalitionsId"
        return Candidate("bits." + op, n, f"{f} {c} {n} = {e_nats(ans)}")
    if op in ("playersid", "sizeid") and len(a) == 2:
        c, n = p_nat(a[0]), p_nat(a[1])
        if n > 64:
            raise Unsupported("n")
        if op == "playersid":
            return Candidate("bits.playersid", n, f"ICG.Pred.playersIdE {c} {n} = {e_nats(ans)}")
        return Candidate("bits.sizeid", n, f"ICG.Pred.sizeIdE {c} {n} = {except_ans(ans, lambda s: str(p_nat(s)))}")
    if op == "struct" and len(a) == 2:
        n, c = p_nat(a[0]), p_nat(a[1])
        if n > MAX_N["bits.struct"]:
            raise Unsupported("n")
        ints = p_list(ans, lambda s: int(s) if _INT.match(s) else (_ for _ in ()).throw(Unsupported("int")))
        return Candidate("bits.struct", n, f"KC.structRow {n} {c} = {l_ints(ints)}")
    if op in ("sorted", "minimal") and len(a) == 1:
        n = p_nat(a[0])
        if n > MAX_N["bits"]:
            raise Unsupported("n")
        lim_list(ans)
        f = "ICG.allSorted" if op == "sorted" else "ICG.minimalCoalitions"
        return Candidate("bits." + op, n, f"{f} {n} = {nat_list(ans)}")
    if op == "exclude" and len(a) == 2:
        l = p_list(a[1], p_nat)
        if len(l) > 4 * MAX_BITS_LIST:
            raise Unsupported("list too long")
        return Candidate("bits.exclude", len(l), f"ICG.excludeCoalition {p_nat(a[0])} {l_nats(l)} = {nat_list(ans)}")
    if op in ("issa", "issam") and len(a) == 4:
        n, rtol, atol, vals = p_nat(a[0]), p_rat(a[1]), p_rat(a[2]), p_list(a[3], p_rat)
        _values_ok(n, vals)
        if n > MAX_N["bits.pred"]:
            raise Unsupported("n")
        return Candidate("bits." + op, n, f"KC.{op} {n} {l_rat_arg(rtol)} {l_rat_arg(atol)} {l_rats(vals)} = {except_ans(ans, l_bool)}")
    if op == "ismono" and len(a) == 2:
        n, vals = p_nat(a[0]), p_list(a[1], p_rat)
        _values_ok(n, vals)
        if n > MAX_N["bits.pred"]:
            raise Unsupported("n")
        return Candidate("bits.ismono", n, f"KC.ismono {n} {l_rats(vals)} = {except_ans(ans, l_bool)}")
    if op == "supermod" and len(a) == 3:
        n, tol, vals = p_nat(a[0]), p_rat(a[1]), p_list(a[2], p_rat)
        _values_ok(n, vals)
        if n > MAX_N["bits.pred"]:
            raise Unsupported("n")
        if ans == "none":
            rhs = "none"
        else:
            t = p_list(ans, p_nat)
            if len(t) != 3:
                raise Unsupported("supermod answer")
            rhs = f"some ({t[0]}, {t[1]}, {t[2]})"
        return Candidate("bits.supermod", n, f"KC.supermod {n} {l_rat_arg(tol)} {l_rats(vals)} = {rhs}")
    raise Unsupported("bits operation")


def _shp_candidate(w: list[str], ans: str) -> Candidate:
    op, a = w[1], w[2:]
    e_q = lambda s: except_ans(s, q_text)       # noqa: E731
    e_qs = lambda s: except_ans(s, qs_text)     # noqa: E731

    def vec(n: int, s: str) -> str:
        v = p_list(s, p_rat)
        _values_ok(n, v)
        return l_rats(v)

    def known(n: int, s: str) -> str:
        k = p_known(s)
        _values_ok(n, k)
        return l_bools(k)

    if op == "contrib" and len(a) == 1:
        n = p_nat(a[0])
        if n > 40:
            raise Unsupported("n")
        return Candidate("shp.contrib", n, f"ICG.contributions {n} = {l_nats(p_list(ans, p_nat))}")
    n = p_nat(a[0]) if a else 0
    if n > MAX_N["shp"] or n == 0:
        raise Unsupported("n")
    if op == "shapley" and len(a) == 2:
        return Candidate("shp.shapley", n, f"KC.shapley {n} {vec(n, a[1])} = {e_qs(ans)}")
    if op == "shapley1" and len(a) == 3:
        return Candidate("shp.shapley1", n, f"KC.shapley1 {n} {p_nat(a[1])} {vec(n, a[2])} = {e_q(ans)}")
    if op == "tshapley" and len(a) == 3:
        return Candidate("shp.tshapley", n, f"KC.tshapley {n} {known(n, a[1])} {vec(n, a[2])} = {e_qs(ans)}")
    if op == "tshapley1" and len(a) == 4:
        return Candidate("shp.tshapley1", n, f"KC.tshapley1 {n} {p_nat(a[1])} {known(n, a[2])} {vec(n, a[3])} = {e_q(ans)}")
    if op == "maxgain" and len(a) == 4:
        return Candidate("shp.maxgain", n, f"KC.maxgain {n} {p_nat(a[1])} {vec(n, a[2])} {vec(n, a[3])} = {qs_text(ans)}")
    if op == "expl" and len(a) == 4:
        if n > MAX_N["shp.expl"]:
            raise Unsupported("n")
        return Candidate("shp.expl", n, f"KC.expl {n} {known(n, a[1])} {vec(n, a[2])} {vec(n, a[3])} = {e_q(ans)}")
    if op == "norms" and len(a) == 3:
        parts = ans.split(" ")
        if len(parts) != 3:
            raise Unsupported("norms answer")
        return Candidate("shp.norms", n, f"KC.norms {n} {vec(n, a[1])} {vec(n, a[2])} = ({q_text(parts[0])}, {q_text(parts[1])}, {e_q(parts[2])})")
    raise Unsupported("shp operation")


def candidates_from_batches(batches) -> list[Candidate]:
    """every statement this module can make from the recorded batches (before any sampling)"""
    out: list[Candidate] = []
    for lines, answers in batches:
        k = min(len(lines), len(answers))
        lines, answers = lines[:k], answers[:k]
        _tab_candidates(lines, answers, out)
        for ln, ans in zip(lines, answers):
            if ans == "bad-op":
                continue
            w = [x for x in ln.split(" ") if x]
            if len(w) < 2 or w[0] not in ("bits", "shp"):
                continue
            try:
                c = _bits_candidate(w, ans) if w[0] == "bits" else _shp_candidate(w, ans)
            except (Unsupported, ValueError, KeyError):
                continue
            c.source = [(ln, ans)]
            if c.kind in _FLAT_COST:
                c.cost = 0.1          # `n` is a bit length / list length there, the statement is cheap whatever it is
            else:
                c.cost = small_cost(c.n, 3.0 if c.kind in ("bits.issa", "bits.issam", "bits.supermod") or c.kind.startswith("shp.") else 1.0)
            out.append(c)
    return out


def select(cands: list[Candidate], max_statements: int, budget_s: float = 240.0) -> list[Candidate]:
    """A deterministic sample spread over the statement kinds: duplicates removed; round robin over the kinds (the
    bound computers first, then the other `tab` / `shp` kinds, then `bits`); inside a kind the largest size first,
    then evenly spread over the rest; a statement is skipped when its estimated kernel time no longer fits
    into `budget_s` (so that a thorough run stays within its time limit whatever the batches contain)."""
    seen, by_kind = set(), {}
    for c in cands:
        if c.prop not in seen:
            seen.add(c.prop)
            by_kind.setdefault(c.kind, []).append(c)
    order = []
    for kind in sorted(by_kind):
        cs = sorted(by_kind[kind], key=lambda c: -c.n)           # stable: batch order inside one size
        m = len(cs)
        step = next(s for s in (7919, 104729, 1299709) if math.gcd(s, m) == 1) if m > 1 else 1
        order.append([cs[(j * step) % m] for j in range(m)])      # j = 0 is the largest one
    order.sort(key=lambda p: (0 if p[0].kind.startswith("tab.compute") else 1 if p[0].kind.startswith(("shp", "tab")) else 2,
                              p[0].kind))
    sel: list[Candidate] = []
    left = budget_s
    r = 0
    while len(sel) < max_statements and any(r < len(p) for p in order):
        for p in order:
            if r < len(p) and len(sel) < max_statements and p[r].cost <= left:
                sel.append(p[r])
                left -= p[r].cost
        r += 1
    return sel


def statements_from_batches(batches) -> list[str]:
    """Lean statements (`theorem kc_i : … := by decide +kernel`) for every supported line / segment of the batches"""
    return [c.theorem(f"kc_{i}") for i, c in enumerate(candidates_from_batches(batches))]


# ----------------------------------------------------------------------------------------------
# running Lean

HEADER = ["import ICG.KernelCheck.Basic",
          "-- generated by harness/kernelcheck.py; do not edit, do not import",
          "-- every statement: the Lean kernel evaluates the model definitions on an input the compiled driver was given",
          "-- and finds the output the compiled driver printed (`decide +kernel`: no native code, no interpreter)",
          "open ICG",
          "set_option maxRecDepth 100000",
          "",
          "theorem kc_start : (2 : Nat) + 2 = 4 := by decide +kernel     -- progress marker: imports are loaded",
          "#print axioms kc_start",
          ""]


def render(named: list[tuple[str, Candidate]], negate: bool = False) -> tuple[str, dict[str, tuple[int, int]]]:
    """the generated file and, per statement name, its (first, last) line number; every statement is followed by its
    `#print axioms`, which is also the progress marker (Lean checks the commands of a file one after the other)"""
    lines = list(HEADER)
    spans = {}
    for name, c in named:
        first = len(lines) + 1
        lines.extend(c.theorem(name, negate).split("\n"))
        lines.append(f"#print axioms {name}")
        spans[name] = (first, len(lines))
        lines.append("")
    return "\n".join(lines), spans


def _run_lean(args: list[str], timeout: float, stdin_text: str | None = None, markers: list[str] | None = None,
              write: tuple[Path, str] | None = None):
    """`lake env lean <args>` in its own process group (killed as a group on time-out: `lake env` does not exec),
    output unbuffered through `stdbuf` when available so that progress survives a kill.
    Returns (rc, output, timed_out, {marker: seconds since start when it appeared})."""
    import leanside
    cmd = ["lake", "env", "lean", *args]
    if shutil.which("stdbuf"):
        cmd = ["stdbuf", "-o0", "-e0", *cmd]
    seen: dict[str, float] = {}
    with leanside.Lock(), tempfile.TemporaryFile() as fo, tempfile.TemporaryFile() as fi:
        if write is not None:           # under the lock: concurrent checks share the one generated file
            write[0].parent.mkdir(parents=True, exist_ok=True)
            write[0].write_text(write[1])
        if stdin_text is not None:
            fi.write(stdin_text.encode())
            fi.seek(0)
        t0 = time.time()
        p = subprocess.Popen(cmd, cwd=LEAN, stdin=fi if stdin_text is not None else subprocess.DEVNULL, stdout=fo,
                             stderr=subprocess.STDOUT, start_new_session=True)
        timed_out = False
        pos = 0
        buf = ""
        while True:
            try:
                p.wait(timeout=0.1)
                done = True
            except subprocess.TimeoutExpired:
                done = False
            if markers:
                fo.seek(pos)
                chunk = fo.read()
                pos += len(chunk)
                buf += chunk.decode(errors="replace")
                now = time.time() - t0
                for m in markers:
                    if m not in seen and f"'{m}'" in buf:
                        seen[m] = now
                buf = buf[-200:]
            if done:
                break
            if time.time() - t0 > timeout:
                timed_out = True
                try:
                    os.killpg(p.pid, signal.SIGKILL)
                except ProcessLookupError:
                    pass
                p.wait()
                break
        fo.seek(0)
        out = fo.read().decode(errors="replace")
    return (124 if timed_out else p.returncode), out, timed_out, seen


def parse_output(out: str, spans: dict[str, tuple[int, int]]) -> dict:
    """split Lean's output into per-statement errors and `#print axioms` lines"""
    errors: dict[str, str] = {}
    other: list[str] = []
    cur = None
    for ln in out.splitlines():
        m = re.match(r"^(?:\S*Generated\.lean|<stdin>|\S*\.lean):(\d+):(\d+): (error|warning)(?:\([^)]*\))?: (.*)$", ln)
        if m:
            line_no = int(m.group(1))
            cur = None
            if m.group(3) == "error":
                for name, (a, b) in spans.items():
                    if a <= line_no <= b:
                        cur = name
                        errors[name] = (errors.get(name, "") + "\n" + m.group(4)).strip()
                        break
                else:
                    other.append(ln)
            continue
        if re.match(r"^'[\w.]+' (depends on axioms|does not depend)", ln):
            cur = None
        if cur is not None and len(errors[cur]) < 4000:
            errors[cur] += "\n" + ln
    flat = re.sub(r"\s+", " ", out)
    axioms: dict[str, list[str]] = {}
    for name in spans:
        m = re.search(rf"'{re.escape(name)}' depends on axioms: \[([^\]]*)\]", flat)
        if m:
            axioms[name] = [a.strip() for a in m.group(1).split(",") if a.strip()]
        elif re.search(rf"'{re.escape(name)}' does not depend on any axioms", flat):
            axioms[name] = []
    return {"errors": errors, "axioms": axioms, "other": other}


def _short(msg: str, k: int = 700) -> str:
    """Lean prints the whole stuck `Decidable` instance: keep the head (the proposition) only"""
    cut = msg.find("Reduction got stuck")
    if cut > 0:
        msg = msg[:cut].rstrip()
    return msg if len(msg) <= k else msg[:k] + " …"


def check_candidates(cands: list[Candidate], timeout: float = 600.0) -> dict:
    """Write Generated.lean for exactly these statements (cheapest first), run Lean on it, classify every statement:

      proved     the kernel accepted `kc_i`, and `kc_i` depends on no axiom beyond propext / Classical.choice / Quot.sound
      refuted    the kernel rejected `kc_i` AND accepted `¬ (statement)` (second pass, `decide +kernel` again): the
                 compiled driver printed something the model definitions do not evaluate to
      undecided  rejected, but the negation was not accepted either (malformed statement, a definition the kernel cannot
                 unfold, resource limit) — the Lean error is reported
      timed_out  Lean was stopped by the wall clock while checking it (`running`) or before reaching it (`not reached`)
    """
    t0 = time.time()
    cands = sorted(cands, key=lambda c: c.cost)
    named = [(f"kc_{i}", c) for i, c in enumerate(cands)]
    res = {"statements": len(cands), "proved": 0, "refuted": 0, "failed": [], "timed_out": [], "errors": [],
           "axioms": {}, "axioms_union": [], "n_failed": 0, "n_timed_out": 0, "by_kind": {}, "wall_s": 0.0,
           "file": str(LEAN / GENERATED)}
    for c in cands:
        a = res["by_kind"].setdefault(f"{c.kind} n={c.n}", {"statements": 0, "kernel_s": 0.0, "max_s": 0.0})
        a["statements"] += 1
    if not cands:
        return res
    import leanside
    with leanside.Lock():
        p = subprocess.run(["lake", "build", "ICG.KernelCheck.Basic"], cwd=LEAN, capture_output=True, text=True)
    if p.returncode != 0:
        res["errors"].append({"what": "lake build ICG.KernelCheck.Basic failed", "log": (p.stdout + p.stderr)[-1500:]})
        res["wall_s"] = round(time.time() - t0, 2)
        return res
    text, spans = render(named)
    rc, out, wall_to, seen = _run_lean([GENERATED], max(5.0, timeout - (time.time() - t0)),
                                       markers=["kc_start"] + [n for n, _ in named], write=(LEAN / GENERATED, text))
    po = parse_output(out, spans)
    # per-statement kernel time: distance between consecutive progress markers
    prev = "kc_start" if "kc_start" in seen else None
    for name, c in named:
        if name in seen:
            dt = seen[name] - (seen[prev] if prev else 0.0)
            a = res["by_kind"][f"{c.kind} n={c.n}"]
            a["kernel_s"] = round(a["kernel_s"] + dt, 2)
            a["max_s"] = round(max(a["max_s"], dt), 2)
            prev = name
    rejected: list[tuple[str, Candidate]] = []
    failed, timed = [], []
    running_marked = False
    for name, c in named:
        entry = {"statement": name, "kind": c.kind, "n": c.n, "source": c.shown(), "lean": c.theorem(name)[:2500]}
        if name in po["errors"]:
            entry["lean_error"] = _short(po["errors"][name])
            entry["verdict"] = "undecided"
            failed.append(entry)
            rejected.append((name, c))
        elif name in po["axioms"]:
            ax = po["axioms"][name]
            if set(ax) <= STD_AXIOMS:
                res["proved"] += 1
            else:
                entry["verdict"] = "axioms"
                entry["lean_error"] = f"depends on axioms {ax}"
                failed.append(entry)
        else:
            entry["verdict"] = "timed out (not reached)" if running_marked else "timed out (running when the time was up)"
            entry["lean_error"] = f"Lean was stopped after {timeout} s" if wall_to else f"no result (lean rc={rc})"
            running_marked = True
            timed.append(entry)
    # second pass: is the negation of a rejected statement a kernel theorem?  (refuted vs. merely not evaluated)
    if rejected:
        neg = [(f"{name}_refuted", c) for name, c in rejected]
        ntext, nspans = render(neg, negate=True)
        budget = max(30.0, min(300.0, timeout - (time.time() - t0)))
        _, nout, _, _ = _run_lean(["--stdin"], budget, stdin_text=ntext)
        npo = parse_output(nout, nspans)
        for entry in failed:
            nn = entry["statement"] + "_refuted"
            if nn in npo["axioms"] and nn not in npo["errors"] and set(npo["axioms"][nn]) <= STD_AXIOMS:
                entry["verdict"] = "refuted"
                entry["refutation"] = f"the kernel accepted `theorem {nn} : ¬ (…) := by decide +kernel` (axioms: {npo['axioms'][nn]})"
                res["refuted"] += 1
            elif nn in npo["errors"]:
                entry["negation_error"] = _short(npo["errors"][nn], 300)
    ax_all = [po["axioms"][n] for n, _ in named if n in po["axioms"] and n not in po["errors"]]
    res["axioms"] = {n: po["axioms"][n] for n, _ in named[:5] if n in po["axioms"]}
    res["axioms_union"] = sorted({a for v in ax_all for a in v})
    if po["other"]:
        res["errors"].append({"what": "Lean messages outside the statements", "log": "\n".join(po["other"])[:1500]})
    if rc not in (0, 1) and not wall_to:
        res["errors"].append({"what": f"lean exited with {rc}", "log": out[-1500:]})
    res["n_failed"], res["n_timed_out"] = len(failed), len(timed)
    res["failed"] = failed[:5]
    res["timed_out"] = timed[:5]
    res["wall_s"] = round(time.time() - t0, 2)
    return res


def check(batches, max_statements: int = 40, timeout: float = 600.0) -> dict:
    """Sample ≤ `max_statements` statements from the recorded driver batches (estimated kernel time ≤ timeout / 2,
    at most 240 s) and have the kernel decide them.  `ok` ⇔ nothing was refuted, left undecided or malformed."""
    cands = candidates_from_batches(batches)
    sel = select(cands, max_statements, budget_s=min(240.0, timeout / 2))
    res = check_candidates(sel, timeout)
    res["candidates"] = len(cands)
    res["ok"] = not res["failed"] and not res["errors"]
    return res


# ----------------------------------------------------------------------------------------------
# self-test

def _own_lines(rnd) -> list[str]:
    """a few hundred protocol lines over the three supported domains (own generator: does not need /repo)"""
    from common import nlist, rlist, rs
    L: list[str] = []
    fr = lambda a, b: Fraction(rnd.randint(a, b), rnd.choice([1, 1, 2, 3, 4, 8]))      # noqa: E731
    k = 0
    for n in (1, 2, 3, 3, 3, 4, 4, 4, 4, 5):
        for comp in ("sa", "sac", f"sam:{rnd.randint(0, 3)}"):
            N = 2 ** n
            k += 1
            g = f"g{k}"
            v = [Fraction(0)] + [Fraction(bin(c).count("1") ** 2 * 4) + fr(0, 6) for c in range(1, N)]
            must = {0, N - 1} | {1 << i for i in range(n)}
            K = sorted(must | {c for c in range(N) if rnd.random() < 0.35})
            if rnd.random() < 0.15:                         # a precondition failure: the computers raise
                K = sorted(set(K) - {rnd.choice(sorted(must))})
            L.append(f"tab new {g} {n}")
            if rnd.random() < 0.5:                          # stale bounds everywhere first
                L.append(f"tab bounds {g} lo none {rlist([fr(-9, 9) for _ in range(N)])}")
                L.append(f"tab bounds {g} hi none {rlist([fr(-9, 9) for _ in range(N)])}")
            L.append(f"tab setvalues {g} {nlist(K)} {rlist([v[c] for c in K])}")
            L.append(f"tab compute {g} {comp}")
            L.append(f"tab dump {g}")
            if n <= 4:
                c = rnd.randrange(N)
                L.append(f"tab reveal {g} {c} {rs(v[c])}")   # err:assert when already known
                L.append(f"tab getvalue {g} {c}")
                L.append(f"tab compute {g} {comp}")
                L.append(f"tab getknowns {g}")
                L.append(f"tab unreveal {g} {c}")
                L.append(f"tab set {g} {N + 3} 1")            # err:index
                L.append(f"tab getvalues {g} {nlist(K[:3])}")
                L.append(f"tab dump {g}")
    for n in (1, 2, 3, 4, 5, 6):
        N = 2 ** n
        for _ in range(2):
            v = [Fraction(0)] + [fr(-20, 40) for _ in range(N - 1)]
            lo = [Fraction(0)] + [fr(-20, 40) for _ in range(N - 1)]
            hi = [a + abs(fr(0, 30)) for a in lo]
            kn = "".join("1" if (c in (0, N - 1) or rnd.random() < 0.6) else "0" for c in range(N))
            i = rnd.randrange(n)
            L += [f"shp contrib {n}", f"shp shapley {n} {rlist(v)}", f"shp shapley1 {n} {i} {rlist(v)}",
                  f"shp tshapley {n} {'1' * N} {rlist(v)}", f"shp tshapley {n} {kn} {rlist(v)}",
                  f"shp tshapley1 {n} {i} {kn} {rlist(v)}", f"shp maxgain {n} {i} {rlist(lo)} {rlist(hi)}",
                  f"shp expl {n} {kn} {rlist(lo)} {rlist(hi)}", f"shp expl {n} {'1' * N} {rlist(lo)} {rlist(hi)}",
                  f"shp norms {n} {rlist(lo)} {rlist(hi)}"]
    rt = rs(Fraction(1e-9))
    for n in (1, 2, 3, 4, 5, 6):
        N = 2 ** n
        for _ in range(2):
            c, d, p = rnd.randrange(N), rnd.randrange(N), rnd.randrange(n)
            v = [Fraction(0)] + [Fraction(bin(x).count("1") ** 2) + Fraction(rnd.randint(0, 1), 2) for x in range(1, N)]
            L += [f"bits size {c}", f"bits players {c}", f"bits from {nlist([p, rnd.randrange(n), p])}", f"bits single {p}",
                  f"bits grand {n}", f"bits all {n}", f"bits and {c} {d}", f"bits or {c} {d}", f"bits sub {c} {d}",
                  f"bits contains {c} {d}", f"bits eq {c} {d}", f"bits disjoint {c} {d}", f"bits andp {c} {p}",
                  f"bits orp {c} {p}", f"bits subp {c} {p}", f"bits addp {c} {p}", f"bits hasplayer {c} {p}",
                  f"bits inverted {c} {n}", f"bits subobj {c}", f"bits superobj {c} {n}", f"bits subid {c} {n}",
                  f"bits superid {c} {n}", f"bits subid {N + c} {n}", f"bits playersid {c} {n}", f"bits sizeid {N + c} {n}",
                  f"bits sizeid {c} {n}", f"bits struct {n} {c}", f"bits sorted {n}", f"bits minimal {n}",
                  f"bits exclude {c} {nlist(range(N))}", f"bits issa {n} {rt} 0 {rlist(v)}", f"bits ismono {n} {rlist(v)}",
                  f"bits issam {n} {rt} 0 {rlist(v)}", f"bits supermod {n} 0 {rlist(v)}"]
    return L


def _flip_digit(ans: str) -> str:
    """change the last decimal digit of an answer line"""
    for i in range(len(ans) - 1, -1, -1):
        if ans[i].isdigit():
            return ans[:i] + str((int(ans[i]) + 1) % 10) + ans[i + 1:]
    raise ValueError("no digit to flip")


def _summary(tag: str, r: dict) -> None:
    print(f"[{tag}] statements={r['statements']} proved={r['proved']} refuted={r['refuted']} "
          f"failed={r.get('n_failed', 0)} timed_out={r.get('n_timed_out', 0)} errors={len(r['errors'])} wall={r['wall_s']} s "
          f"axioms={r.get('axioms_union')}")
    for key in sorted(r["by_kind"]):
        a = r["by_kind"][key]
        print(f"    {key:24s} {a['statements']:3d} statement(s)  kernel {a['kernel_s']:6.2f} s  (max {a['max_s']:.2f} s)")
    for f in r["failed"]:
        print(f"    FAILED {f['statement']} [{f['kind']} n={f['n']}] verdict={f['verdict']}")
        for s_ in f["source"]:
            print(f"        {s_[:200]}")
        print("        lean: " + f.get("lean_error", "").replace("\n", "\n              ")[:900])
        if f.get("refutation"):
            print("        " + f["refutation"])
    for f in r["timed_out"]:
        print(f"    TIMED OUT {f['statement']} [{f['kind']} n={f['n']}] {f['verdict']}")
    for e in r["errors"]:
        print("    ERROR", e)


def main(argv: list[str]) -> int:
    import argparse
    import importlib
    import random
    ap = argparse.ArgumentParser(description="self-test of the kernel cross-check")
    ap.add_argument("--max", type=int, default=40, help="statements per check")
    ap.add_argument("--timeout", type=float, default=600.0)
    ap.add_argument("--no-streams", action="store_true", help="own generator only (do not import the correspondence streams)")
    ap.add_argument("--seed", type=int, default=common.SEED)
    args = ap.parse_args(argv)
    rnd = random.Random(f"kernelcheck:{args.seed}")
    bad = 0

    # 1. own generator -> compiled driver -> statements -> kernel
    lines = _own_lines(rnd)
    common.DRIVER_SAMPLES.clear()
    outs = common.run_driver(lines)
    own = list(common.DRIVER_SAMPLES)
    assert own and own[0][1] == outs[:3000]
    nbad = sum(1 for o in outs if o == "bad-op")
    cands = candidates_from_batches(own)
    print(f"own generator: {len(lines)} protocol lines through {common.DRIVER_EXE} ({nbad} bad-op), "
          f"{len(cands)} statements can be made, {len({c.kind for c in cands})} kinds")
    r = check(own, args.max, args.timeout)
    _summary("own", r)
    bad += (not r["ok"]) or r["proved"] != r["statements"] or r["statements"] == 0

    # 2. the correspondence streams' own batches, as the thorough tier will record them
    if not args.no_streams:
        for mod, arg in (("corr_bounds", "C02"), ("corr_bits", "C18"), ("corr_shapley", "C05")):
            try:
                m = importlib.import_module(mod)
                common.DRIVER_SAMPLES.clear()
                sr = m.run("quick", common.Budget(20), common.rng(f"kernelcheck:{mod}"), arg)
            except Exception as e:      # noqa: BLE001
                print(f"[{mod}] stream not run: {type(e).__name__}: {e}")
                continue
            batches = list(common.DRIVER_SAMPLES)
            print(f"{mod}({arg}): {sr.evaluations} cases, {len(sr.disagreements)} disagreements, "
                  f"{len(batches)} recorded batch(es), {sum(len(b[0]) for b in batches)} lines")
            r = check(batches, args.max, args.timeout)
            _summary(mod, r)
            bad += (not r["ok"]) or r["proved"] != r["statements"] or r["statements"] == 0

    # 3. not vacuous: flip one digit of an observed answer -> the kernel must refute exactly that statement
    picks = {}
    for c in cands:
        if c.kind not in ("tab.compute.sa", "tab.compute.sac", "tab.compute.sam", "shp.shapley", "shp.expl", "bits.subobj",
                          "bits.struct") or c.kind in picks or c.replay() is None or c.n not in (3, 4):
            continue
        if "err:" in c.source[-1][1] or not c.source[-1][0].startswith(("tab dump", "shp", "bits")):
            continue
        picks[c.kind] = c
    corrupted, originals = [], []
    for fam, c in sorted(picks.items()):
        ls, an = c.replay()
        j = len(an) - 1
        an2 = list(an)
        an2[j] = _flip_digit(an[j])
        cc = [x for x in candidates_from_batches([(ls, an2)]) if x.kind == c.kind]
        if len(cc) != 1:
            print(f"corruption demo: could not rebuild {c.kind}")
            bad += 1
            continue
        print(f"corrupting [{c.kind} n={c.n}]  {ls[j][:120]}\n     observed: {an[j][:160]}\n     flipped : {an2[j][:160]}")
        corrupted.append(cc[0])
        originals.append(c)
    r = check_candidates(originals + corrupted, args.timeout)
    _summary("corrupted", r)
    ok_demo = r["proved"] == len(originals) and r["refuted"] == len(corrupted) and r["n_failed"] == len(corrupted) and corrupted
    print("corruption demo:", "every flipped answer was refuted by the kernel, every original proved" if ok_demo else "UNEXPECTED")
    bad += not ok_demo
    print("self-test", "FAILED" if bad else "passed")
    return 1 if bad else 0


if __name__ == "__main__":
    sys.exit(main(sys.argv[1:]))
