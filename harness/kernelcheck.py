#!/usr/bin/env python3
"""Kernel cross-check of the compiled model driver (DESIGN.md section 4).

The correspondence streams drive a COMPILED native executable of the Lean model.  This module takes driver
batches as recorded in `common.DRIVER_SAMPLES` (input lines + the answers the compiled driver printed), turns
a sample of them into closed Lean statements

    theorem kc_i : <model function> <literal input> = <literal observed output> := by decide +kernel

and has the Lean KERNEL evaluate them (`lake env lean ICG/KernelCheck/Generated.lean`).  `decide +kernel`
asks the kernel to reduce `Decidable.decide p` to `true` by unfolding the model definitions — the very
definitions the theorems of lean/ICG/Props are about; neither compiled code nor the interpreter takes part,
and `#print axioms` of every statement shows ⊆ {propext, Classical.choice, Quot.sound}.

Supported protocol lines (grammar: lean/ICG/Driver/{Tab,Bits,Shp}.lean):
  tab   new set unset reveal unreveal setlo sethi setvalues setknown bounds compute spec dump known getvalue
        getvalues getknown getknowns full copy neg drop        (add / eq involve two objects: the target of `add`
        is picked up again at its next dump, `eq` is skipped)
        A statement is one *segment* of one object's history: from `tab new` (or from the table its previous
        `tab dump` printed) through every operation up to and including the next `tab dump`, asserting every
        answer line in between (ok / err:kind / getter results / the dump).
  bits  every operation of Driver/Bits.lean
  shp   every operation of Driver/Shp.lean
Rationals: inputs become Lean `Rat` literals (`7/2`, `-3/4`), observed outputs become pairs (numerator,
denominator) compared with `(r.num, r.den)` of the model's result, so an un-normalised or differently signed
fraction printed by the compiled code is a mismatch, too.

API:  statements_from_batches(batches) -> list[str];  check(batches, max_statements=40, timeout=600) -> dict.
`python harness/kernelcheck.py` runs a self-test (see `main`).
"""
from __future__ import annotations

import math
import re
import subprocess
import sys
import time
from dataclasses import dataclass, field
from fractions import Fraction
from pathlib import Path

sys.path.insert(0, str(Path(__file__).resolve().parent))

import common  # noqa: E402
from common import LEAN  # noqa: E402

GENERATED = "ICG/KernelCheck/Generated.lean"
STD_AXIOMS = {"propext", "Classical.choice", "Quot.sound"}
ERR_KINDS = {"err:assert": "assert", "err:value": "value", "err:index": "index", "err:attr": "attr",
             "err:nan": "nan", "err:other": "other"}

# Size limits: what the kernel evaluates within the time budget (measured, see the report / `--measure`).
MAX_N = {"tab.compute.sa": 4, "tab.compute.sac": 4, "tab.compute.sam": 4, "tab.spec": 3, "tab": 5,
         "bits": 6, "bits.struct": 5, "bits.pred": 4, "shp": 5, "shp.expl": 4}
MAX_OPS = 14              # operations in one `tab` segment
MAX_COMPUTES = 3          # bound computations in one `tab` segment
MAX_NAT = 10 ** 30        # coalition ids / players as literals
MAX_BITS_LIST = 80        # longest expected list in a `bits` statement
HEARTBEATS = 2_000_000    # per statement (deterministic time-out of the kernel), default is 200000


class Unsupported(Exception):
    pass


# ----------------------------------------------------------------------------------------------
# protocol text -> Lean literals

_NAT = re.compile(r"[0-9]+\Z")
_INT = re.compile(r"-?[0-9]+\Z")


def p_nat(s: str) -> int:
    if not _NAT.match(s):
        raise Unsupported(f"not a natural: {s[:20]}")
    v = int(s)
    if v > MAX_NAT:
        raise Unsupported("natural too large for a statement")
    return v


def p_rat(s: str) -> Fraction:
    """`p` or `p/q` as the driver parses it (Proto.parseRat?): integer numerator, natural non-zero denominator."""
    parts = s.split("/")
    if len(parts) == 1 and _INT.match(parts[0]):
        return Fraction(int(parts[0]))
    if len(parts) == 2 and _INT.match(parts[0]) and _NAT.match(parts[1]) and int(parts[1]) != 0:
        return Fraction(int(parts[0]), int(parts[1]))
    raise Unsupported(f"not a rational: {s[:20]}")


def p_list(s: str, f):
    return [] if s in ("-", "") else [f(x) for x in s.split(",")]


def p_optnats(s: str):
    return None if s == "none" else p_list(s, p_nat)


def p_known(s: str) -> list[bool]:
    if not re.match(r"[01]*\Z", s):
        raise Unsupported("known string")
    return [ch == "1" for ch in s]


def l_rat(x: Fraction) -> str:
    """an input rational as a Lean `Rat` term (numeral, or numeral / numeral)"""
    if x.denominator == 1:
        return str(x.numerator) if x >= 0 else f"-{-x.numerator}"
    return f"{x.numerator}/{x.denominator}" if x > 0 else f"-{-x.numerator}/{x.denominator}"


def l_rat_arg(x: Fraction) -> str:
    """an input rational in argument position"""
    return f"({l_rat(x)} : Rat)"


def l_rats(xs) -> str:
    return "[" + ", ".join(l_rat(x) for x in xs) + "]"


def l_nats(xs) -> str:
    return "[" + ", ".join(str(x) for x in xs) + "]"


def l_ints(xs) -> str:
    return "[" + ", ".join(str(x) for x in xs) + "]"


def l_optnats(xs) -> str:
    return "none" if xs is None else f"(some {l_nats(xs)})"


def l_bools(xs) -> str:
    return "[" + ", ".join("true" if b else "false" for b in xs) + "]"


def l_bool(s: str) -> str:
    if s not in ("0", "1"):
        raise Unsupported("boolean answer")
    return "true" if s == "1" else "false"


def q_text(s: str) -> str:
    """an OBSERVED rational `p` / `p/q`, kept exactly as printed: the pair (numerator, denominator)"""
    parts = s.split("/")
    if len(parts) == 1 and _INT.match(parts[0]):
        return f"({int(parts[0])}, 1)"
    if len(parts) == 2 and _INT.match(parts[0]) and _NAT.match(parts[1]):
        return f"({int(parts[0])}, {int(parts[1])})"
    raise Unsupported(f"not a printed rational: {s[:20]}")


def qs_text(s: str) -> str:
    return "[" + ", ".join(p_list(s, q_text)) + "]"


def l_err(ans: str) -> str:
    return "." + ERR_KINDS[ans]


def except_ans(ans: str, ok) -> str:
    """`.ok <literal>` / `.error .kind` for an answer of an `Except Err _` valued operation"""
    if ans in ERR_KINDS:
        return f".error {l_err(ans)}"
    return f".ok {ok(ans)}"


def ilog2_exact(m: int) -> int:
    if m <= 0 or m & (m - 1):
        raise Unsupported("row count is not a power of two")
    return m.bit_length() - 1


# ----------------------------------------------------------------------------------------------
# candidates

@dataclass
class Candidate:
    kind: str                 # e.g. "tab.compute.sa", "tab.ops", "bits.subobj", "shp.shapley"
    n: int                    # player count (or a size measure) the statement is about
    prop: str                 # the Lean proposition
    source: list = field(default_factory=list)     # protocol lines + observed answers it was made from
    weight: int = 1           # rough cost class, used to keep the whole file within the time budget

    def theorem(self, i: int) -> str:
        return f"theorem kc_{i} : {self.prop} := by decide +kernel"


def parse_dump(ans: str):
    parts = ans.split(" ")
    if len(parts) != 3 or not (parts[0].startswith("K=") and parts[1].startswith("L=") and parts[2].startswith("U=")):
        raise Unsupported("dump answer")
    return p_known(parts[0][2:]), parts[1][2:], parts[2][2:]


def computer_lit(s: str) -> tuple[str, str]:
    if s == "sa":
        return ".sa", "sa"
    if s == "sac":
        return ".sac", "sac"
    m = re.match(r"sam:([0-9]+)\Z", s)
    if m:
        return f"(.sam {int(m.group(1))})", "sam"
    raise Unsupported("computer")


class _Obj:
    """what is known about one driver object: where its current segment starts and what happened since"""

    def __init__(self, start: str | None, n: int | None):
        self.start = start            # Lean `Start` literal, None when the origin is not expressible
        self.n = n
        self.ops: list[tuple[str, str, str]] = []       # (Lean Op, Lean Ans, source text)
        self.kinds: list[str] = []

    def clone(self) -> "_Obj":
        o = _Obj(self.start, self.n)
        o.ops = list(self.ops)
        o.kinds = list(self.kinds)
        return o


def _ans_status(ans: str) -> str:
    if ans == "ok":
        return ".ok"
    if ans in ERR_KINDS:
        return f".err {l_err(ans)}"
    raise Unsupported(f"status answer {ans[:20]}")


def _tab_candidates(lines: list[str], answers: list[str], out: list[Candidate]) -> None:
    objs: dict[str, _Obj] = {}

    def flush(name: str, final: bool) -> None:
        """emit the pending segment of `name` (it ends with a dump, or the object goes away)"""
        o = objs.get(name)
        if o is None or o.start is None or not o.ops or o.n is None:
            return
        interesting = [k for k in o.kinds if k not in ("set", "status")]
        if not interesting:
            return
        ncomp = sum(1 for k in o.kinds if k.startswith("compute") or k == "spec")
        if len(o.ops) > MAX_OPS or ncomp > MAX_COMPUTES:
            return
        comp = [k for k in o.kinds if k.startswith("compute")]
        kind = "tab." + (comp[0].replace("compute:", "compute.") if comp else ("spec" if "spec" in o.kinds else "ops"))
        lim = MAX_N.get(kind, MAX_N["tab"])
        if o.n > min(lim, MAX_N["tab"]):
            return
        prop = (f"KC.tabRun {o.start}\n    [" + ",\n     ".join(op for op, _, _ in o.ops) + "]\n  = ["
                + ",\n     ".join(a for _, a, _ in o.ops) + "]")
        out.append(Candidate(kind, o.n, prop, [s for _, _, s in o.ops], weight=max(1, ncomp)))

    for ln, ans in zip(lines, answers):
        w = [x for x in ln.split(" ") if x]
        if len(w) < 2 or w[0] != "tab" or ans == "bad-op":
            continue
        op, args = w[1], w[2:]
        src = f"{ln[:400]}  ->  {ans[:400]}"
        try:
            if op == "new" and len(args) == 2:
                n = p_nat(args[1])
                objs[args[0]] = _Obj(f"(.init {n})", n)
                continue
            if op == "drop" and len(args) == 1:
                flush(args[0], True)
                objs.pop(args[0], None)
                continue
            if op == "copy" and len(args) == 2:
                if args[0] in objs:
                    objs[args[1]] = objs[args[0]].clone()
                else:
                    objs.pop(args[1], None)
                continue
            if op == "neg" and len(args) == 2:
                if args[0] in objs:
                    o = objs[args[0]].clone()
                    o.ops.append((".neg", ".ok", src))
                    o.kinds.append("set")
                    objs[args[1]] = o
                else:
                    objs.pop(args[1], None)
                continue
            if op == "add" and len(args) == 3:
                if ans == "ok":
                    objs[args[2]] = _Obj(None, None)       # origin involves two objects: resume at its next dump
                continue
            if op == "eq":
                continue
            if not args:
                raise Unsupported("no object")
            name = args[0]
            o = objs.get(name)
            if o is None:
                o = objs[name] = _Obj(None, None)
            a = args[1:]
            if op in ("set", "reveal", "setlo", "sethi") and len(a) == 2:
                o.ops.append((f".{op} {p_nat(a[0])} {l_rat_arg(p_rat(a[1]))}", _ans_status(ans), src))
                o.kinds.append("set" if ans == "ok" else "status")
            elif op in ("unset", "unreveal") and len(a) == 1:
                o.ops.append((f".{op} {p_nat(a[0])}", _ans_status(ans), src))
                o.kinds.append("set" if ans == "ok" else "status")
            elif op in ("setvalues", "setknown") and len(a) == 2:
                o.ops.append((f".{op} {l_optnats(p_optnats(a[0]))} {l_rats(p_list(a[1], p_rat))}", _ans_status(ans), src))
                o.kinds.append("set" if ans == "ok" else "status")
            elif op == "bounds" and len(a) == 3 and a[0] in ("hi", "lo"):
                up = "true" if a[0] == "hi" else "false"
                o.ops.append((f".bounds {up} {l_optnats(p_optnats(a[1]))} {l_rats(p_list(a[2], p_rat))}", _ans_status(ans), src))
                o.kinds.append("set" if ans == "ok" else "status")
            elif op == "compute" and len(a) == 1:
                lit, short = computer_lit(a[0])
                o.ops.append((f".compute {lit}", _ans_status(ans), src))
                o.kinds.append("compute:" + short)
            elif op == "spec" and len(a) == 1:
                lit, _ = computer_lit(a[0])
                parts = ans.split(" ")
                if len(parts) != 2 or not (parts[0].startswith("L=") and parts[1].startswith("U=")):
                    raise Unsupported("spec answer")
                o.ops.append((f".spec {lit}", f".spec {qs_text(parts[0][2:])} {qs_text(parts[1][2:])}", src))
                o.kinds.append("spec")
            elif op == "dump" and len(a) == 0:
                K, L, U = parse_dump(ans)
                n = ilog2_exact(len(K))
                o.ops.append((".dump", f".dump {l_bools(K)}\n       {qs_text(L)}\n       {qs_text(U)}", src))
                o.kinds.append("dump")
                if o.n is None:
                    o.n = n
                flush(name, False)
                # the next segment starts from the table this dump showed
                o.start = (f"(.from {n} {l_bools(K)}\n      {l_rats(p_list(L, p_rat))}\n      {l_rats(p_list(U, p_rat))})")
                o.n = n
                o.ops, o.kinds = [], []
            elif op == "known" and len(a) == 1:
                o.ops.append((f".known {p_nat(a[0])}", _ans_status(ans) if ans in ERR_KINDS else f".bit {l_bool(ans)}", src))
                o.kinds.append("get")
            elif op == "getvalue" and len(a) == 1:
                o.ops.append((f".getvalue {p_nat(a[0])}", _ans_status(ans) if ans in ERR_KINDS else f".rat {q_text(ans)}", src))
                o.kinds.append("get")
            elif op == "getvalues" and len(a) == 1:
                o.ops.append((f".getvalues {l_optnats(p_optnats(a[0]))}",
                              _ans_status(ans) if ans in ERR_KINDS else f".rats {qs_text(ans)}", src))
                o.kinds.append("get")
            elif op == "getknown" and len(a) == 1:
                if ans in ERR_KINDS:
                    la = _ans_status(ans)
                else:
                    la = ".orat none" if ans == "none" else f".orat (some {q_text(ans)})"
                o.ops.append((f".getknown {p_nat(a[0])}", la, src))
                o.kinds.append("get")
            elif op == "getknowns" and len(a) == 0:
                items = p_list(ans, lambda x: "none" if x == "none" else f"some {q_text(x)}")
                o.ops.append((".getknowns", ".orats [" + ", ".join(items) + "]", src))
                o.kinds.append("get")
            elif op == "full" and len(a) == 0:
                o.ops.append((".full", f".bit {l_bool(ans)}", src))
                o.kinds.append("get")
            else:
                raise Unsupported("tab operation")
        except Unsupported:
            # a line this module cannot express was answered by the driver: whatever it touched is of unknown
            # origin until its next `new` / dump
            for x in args[:3]:
                if x in objs:
                    objs[x] = _Obj(None, None)
    for name in list(objs):
        flush(name, True)


def _values_ok(n: int, vals: list) -> None:
    if len(vals) != 2 ** n:
        raise Unsupported("vector length")


def _bits_candidate(w: list[str], ans: str) -> Candidate:
    op, a = w[1], w[2:]
    nat_list = lambda s: l_nats(p_list(s, p_nat))       # noqa: E731
    e_nats = lambda s: except_ans(s, nat_list)          # noqa: E731

    def lim_list(s: str) -> None:
        if len(p_list(s, p_nat)) > MAX_BITS_LIST:
            raise Unsupported("expected list too long")

    un = {"size": "ICG.size", "single": "ICG.singleton", "grand": "ICG.grand"}
    bin_nat = {"and": "ICG.inter", "or": "ICG.union", "sub": "ICG.diff", "subp": "ICG.removePlayer",
               "addp": "ICG.addPlayer", "inverted": "ICG.inverted"}
    bin_bool = {"contains": "ICG.contains", "disjoint": "ICG.disjoint", "hasplayer": "ICG.hasPlayer"}
    if op in un and len(a) == 1:
        x = p_nat(a[0])
        if op != "size" and x > 4096:
            raise Unsupported("2^x too large")
        return Candidate("bits." + op, x.bit_length(), f"{un[op]} {x} = {p_nat(ans)}")
    if op == "players" and len(a) == 1:
        return Candidate("bits.players", p_nat(a[0]).bit_length(), f"ICG.players {p_nat(a[0])} = {nat_list(ans)}")
    if op == "from" and len(a) == 1:
        ps = p_list(a[0], p_nat)
        if any(p > 4096 for p in ps):
            raise Unsupported("2^p too large")
        return Candidate("bits.from", len(ps), f"ICG.fromPlayers {l_nats(ps)} = {p_nat(ans)}")
    if op == "all" and len(a) == 1:
        lim_list(ans)
        return Candidate("bits.all", p_nat(a[0]), f"ICG.allCoalitions {p_nat(a[0])} = {nat_list(ans)}")
    if op in bin_nat and len(a) == 2:
        x, y = p_nat(a[0]), p_nat(a[1])
        if op in ("subp", "addp", "inverted") and y > 4096:
            raise Unsupported("2^y too large")
        return Candidate("bits." + op, max(x.bit_length(), y.bit_length()), f"{bin_nat[op]} {x} {y} = {p_nat(ans)}")
    if op in bin_bool and len(a) == 2:
        x, y = p_nat(a[0]), p_nat(a[1])
        if op == "hasplayer" and y > 4096:
            raise Unsupported("2^y too large")
        return Candidate("bits." + op, max(x.bit_length(), y.bit_length()), f"{bin_bool[op]} {x} {y} = {l_bool(ans)}")
    if op == "eq" and len(a) == 2:
        return Candidate("bits.eq", 0, f"(({p_nat(a[0])} : Nat) == {p_nat(a[1])}) = {l_bool(ans)}")
    if op in ("andp", "orp") and len(a) == 2:
        x, p = p_nat(a[0]), p_nat(a[1])
        if p > 4096:
            raise Unsupported("2^p too large")
        f = "ICG.inter" if op == "andp" else "ICG.union"
        return Candidate("bits." + op, x.bit_length(), f"{f} {x} (ICG.singleton {p}) = {p_nat(ans)}")
    if op == "subobj" and len(a) == 1:
        lim_list(ans)
        c = p_nat(a[0])
        return Candidate("bits.subobj", bin(c).count("1"), f"ICG.subCoalitionsObj {c} = {nat_list(ans)}")
    if op == "superobj" and len(a) == 2:
        lim_list(ans)
        c, n = p_nat(a[0]), p_nat(a[1])
        if n > 12:
            raise Unsupported("n")
        return Candidate("bits.superobj", n, f"ICG.superCoalitionsObj {c} {n} = {nat_list(ans)}")
    if op in ("subid", "superid") and len(a) == 2:
        c, n = p_nat(a[0]), p_nat(a[1])
        if n > 8:
            raise Unsupported("n")
        if ans not in ERR_KINDS:
            lim_list(ans)
        f = "ICG.subCoalitionsId" if op == "subid" else "ICG.superCoalitionsId"
        return Candidate("bits." + op, n, f"{f} {c} {n} = {e_nats(ans)}")
    if op in ("playersid", "sizeid") and len(a) == 2:
        c, n = p_nat(a[0]), p_nat(a[1])
        if n > 64:
            raise Unsupported("n")
        if op == "playersid":
            return Candidate("bits.playersid", n, f"ICG.Pred.playersIdE {c} {n} = {e_nats(ans)}")
        return Candidate("bits.sizeid", n, f"ICG.Pred.sizeIdE {c} {n} = {except_ans(ans, lambda s: str(p_nat(s)))}")
    if op == "struct" and len(a) == 2:
        n, c = p_nat(a[0]), p_nat(a[1])
        if n > MAX_N["bits.struct"]:
            raise Unsupported("n")
        ints = p_list(ans, lambda s: int(s) if _INT.match(s) else (_ for _ in ()).throw(Unsupported("int")))
        return Candidate("bits.struct", n, f"KC.structRow {n} {c} = {l_ints(ints)}")
    if op in ("sorted", "minimal") and len(a) == 1:
        n = p_nat(a[0])
        if n > MAX_N["bits"]:
            raise Unsupported("n")
        lim_list(ans)
        f = "ICG.allSorted" if op == "sorted" else "ICG.minimalCoalitions"
        return Candidate("bits." + op, n, f"{f} {n} = {nat_list(ans)}")
    if op == "exclude" and len(a) == 2:
        l = p_list(a[1], p_nat)
        if len(l) > 4 * MAX_BITS_LIST:
            raise Unsupported("list too long")
        return Candidate("bits.exclude", len(l), f"ICG.excludeCoalition {p_nat(a[0])} {l_nats(l)} = {nat_list(ans)}")
    if op in ("issa", "issam") and len(a) == 4:
        n, rtol, atol, vals = p_nat(a[0]), p_rat(a[1]), p_rat(a[2]), p_list(a[3], p_rat)
        _values_ok(n, vals)
        if n > MAX_N["bits.pred"]:
            raise Unsupported("n")
        return Candidate("bits." + op, n, f"KC.{op} {n} {l_rat_arg(rtol)} {l_rat_arg(atol)} {l_rats(vals)} = {except_ans(ans, l_bool)}")
    if op == "ismono" and len(a) == 2:
        n, vals = p_nat(a[0]), p_list(a[1], p_rat)
        _values_ok(n, vals)
        if n > MAX_N["bits.pred"]:
            raise Unsupported("n")
        return Candidate("bits.ismono", n, f"KC.ismono {n} {l_rats(vals)} = {except_ans(ans, l_bool)}")
    if op == "supermod" and len(a) == 3:
        n, tol, vals = p_nat(a[0]), p_rat(a[1]), p_list(a[2], p_rat)
        _values_ok(n, vals)
        if n > MAX_N["bits.pred"]:
            raise Unsupported("n")
        if ans == "none":
            rhs = "none"
        else:
            t = p_list(ans, p_nat)
            if len(t) != 3:
                raise Unsupported("supermod answer")
            rhs = f"some ({t[0]}, {t[1]}, {t[2]})"
        return Candidate("bits.supermod", n, f"KC.supermod {n} {l_rat_arg(tol)} {l_rats(vals)} = {rhs}")
    raise Unsupported("bits operation")


def _shp_candidate(w: list[str], ans: str) -> Candidate:
    op, a = w[1], w[2:]
    e_q = lambda s: except_ans(s, q_text)       # noqa: E731
    e_qs = lambda s: except_ans(s, qs_text)     # noqa: E731

    def vec(n: int, s: str) -> str:
        v = p_list(s, p_rat)
        _values_ok(n, v)
        return l_rats(v)

    def known(n: int, s: str) -> str:
        k = p_known(s)
        _values_ok(n, k)
        return l_bools(k)

    if op == "contrib" and len(a) == 1:
        n = p_nat(a[0])
        if n > 40:
            raise Unsupported("n")
        return Candidate("shp.contrib", n, f"ICG.contributions {n} = {l_nats(p_list(ans, p_nat))}")
    n = p_nat(a[0]) if a else 0
    if n > MAX_N["shp"] or n == 0:
        raise Unsupported("n")
    if op == "shapley" and len(a) == 2:
        return Candidate("shp.shapley", n, f"KC.shapley {n} {vec(n, a[1])} = {e_qs(ans)}")
    if op == "shapley1" and len(a) == 3:
        return Candidate("shp.shapley1", n, f"KC.shapley1 {n} {p_nat(a[1])} {vec(n, a[2])} = {e_q(ans)}")
    if op == "tshapley" and len(a) == 3:
        return Candidate("shp.tshapley", n, f"KC.tshapley {n} {known(n, a[1])} {vec(n, a[2])} = {e_qs(ans)}")
    if op == "tshapley1" and len(a) == 4:
        return Candidate("shp.tshapley1", n, f"KC.tshapley1 {n} {p_nat(a[1])} {known(n, a[2])} {vec(n, a[3])} = {e_q(ans)}")
    if op == "maxgain" and len(a) == 4:
        return Candidate("shp.maxgain", n, f"KC.maxgain {n} {p_nat(a[1])} {vec(n, a[2])} {vec(n, a[3])} = {qs_text(ans)}")
    if op == "expl" and len(a) == 4:
        if n > MAX_N["shp.expl"]:
            raise Unsupported("n")
        return Candidate("shp.expl", n, f"KC.expl {n} {known(n, a[1])} {vec(n, a[2])} {vec(n, a[3])} = {e_q(ans)}", weight=2)
    if op == "norms" and len(a) == 3:
        parts = ans.split(" ")
        if len(parts) != 3:
            raise Unsupported("norms answer")
        return Candidate("shp.norms", n, f"KC.norms {n} {vec(n, a[1])} {vec(n, a[2])} = ({q_text(parts[0])}, {q_text(parts[1])}, {e_q(parts[2])})")
    raise Unsupported("shp operation")


def candidates_from_batches(batches) -> list[Candidate]:
    """every statement this module can make from the recorded batches (before any sampling)"""
    out: list[Candidate] = []
    for lines, answers in batches:
        k = min(len(lines), len(answers))
        lines, answers = lines[:k], answers[:k]
        _tab_candidates(lines, answers, out)
        for ln, ans in zip(lines, answers):
            if ans == "bad-op":
                continue
            w = [x for x in ln.split(" ") if x]
            if len(w) < 2 or w[0] not in ("bits", "shp"):
                continue
            try:
                c = _bits_candidate(w, ans) if w[0] == "bits" else _shp_candidate(w, ans)
            except (Unsupported, ValueError, KeyError):
                continue
            c.source = [f"{ln[:400]}  ->  {ans[:400]}"]
            out.append(c)
    return out


def select(cands: list[Candidate], max_statements: int) -> list[Candidate]:
    """a deterministic sample spread over the statement kinds (round robin over kinds, evenly spaced inside a kind,
    larger n first so that the sample is not dominated by trivial sizes); duplicates removed"""
    seen, uniq = set(), []
    for c in cands:
        if c.prop not in seen:
            seen.add(c.prop)
            uniq.append(c)
    by_kind: dict[str, list[Candidate]] = {}
    for c in uniq:
        by_kind.setdefault(c.kind, []).append(c)
    order = []
    for kind in sorted(by_kind):
        cs = by_kind[kind]
        # evenly spaced positions of the list sorted by size (largest first), stable
        cs = sorted(cs, key=lambda c: -c.n)
        m = len(cs)
        picks, taken = [], set()
        for j in range(m):
            idx = (j * 7919) % m if m > 1 else 0
            while idx in taken:
                idx = (idx + 1) % m
            taken.add(idx)
            picks.append(cs[idx])
        # first pick: the largest one
        picks.sort(key=lambda c: 0 if c is cs[0] else 1)
        order.append(picks)
    # kinds that are expensive and central (the bound computers, Shapley) come first in every round
    pri = lambda picks: (0 if picks[0].kind.startswith("tab.compute") else 1 if picks[0].kind.startswith(("shp", "tab")) else 2,  # noqa: E731
                         picks[0].kind)
    order.sort(key=pri)
    sel: list[Candidate] = []
    r = 0
    while len(sel) < max_statements and any(r < len(p) for p in order):
        for p in order:
            if r < len(p) and len(sel) < max_statements:
                sel.append(p[r])
        r += 1
    return sel


def statements_from_batches(batches) -> list[str]:
    """Lean statements (`theorem kc_i : … := by decide +kernel`) for every supported line / segment of the batches"""
    return [c.theorem(i) for i, c in enumerate(candidates_from_batches(batches))]


# ----------------------------------------------------------------------------------------------
# running Lean

def render(cands: list[Candidate]) -> tuple[str, list[tuple[int, int]]]:
    """the generated file and, per statement, its (first, last) line number"""
    head = ["import ICG.KernelCheck.Basic",
            "-- generated by harness/kernelcheck.py; do not edit, do not import",
            "-- every statement: the Lean kernel evaluates the model definitions on an input the compiled driver was given",
            "-- and finds the output the compiled driver printed",
            "open ICG",
            "set_option maxRecDepth 100000",
            f"set_option maxHeartbeats {HEARTBEATS}",
            ""]
    lines = list(head)
    spans = []
    for i, c in enumerate(cands):
        first = len(lines) + 1
        lines.extend(c.theorem(i).split("\n"))
        spans.append((first, len(lines)))
        lines.append("")
    for i in range(len(cands)):
        lines.append(f"#print axioms kc_{i}")
    return "\n".join(lines) + "\n", spans


def _lake(cmd: list[str], timeout: float) -> tuple[int, str, bool]:
    import leanside
    with leanside.Lock():
        try:
            p = subprocess.run(cmd, cwd=LEAN, capture_output=True, text=True, timeout=timeout)
            return p.returncode, p.stdout + p.stderr, False
        except subprocess.TimeoutExpired as e:
            so = e.stdout or b""
            se = e.stderr or b""
            so = so.decode(errors="replace") if isinstance(so, bytes) else so
            se = se.decode(errors="replace") if isinstance(se, bytes) else se
            return 124, so + se, True


_MSG = re.compile(r"^(?:\S*Generated\.lean):(\d+):(\d+): (error|warning|info)?:? ?(.*)$")


def parse_output(out: str, spans: list[tuple[int, int]], k: int) -> dict:
    """split Lean's output into per-statement errors and `#print axioms` lines"""
    errors: dict[int, str] = {}
    other: list[str] = []
    cur = None
    for ln in out.splitlines():
        m = re.match(r"^\S*Generated\.lean:(\d+):(\d+): (error|warning)(?:\([^)]*\))?: (.*)$", ln)
        if m:
            line_no = int(m.group(1))
            cur = None
            if m.group(3) == "error":
                for i, (a, b) in enumerate(spans):
                    if a <= line_no <= b:
                        cur = i
                        errors[i] = (errors.get(i, "") + "\n" + m.group(4)).strip()
                        break
                else:
                    other.append(ln)
            continue
        if re.match(r"^\S*Generated\.lean:\d+:\d+: ", ln) or ln.startswith("'kc_"):
            cur = None
        if cur is not None:
            errors[cur] += "\n" + ln
    flat = re.sub(r"\s+", " ", out)
    axioms: dict[int, list[str] | None] = {}
    for i in range(k):
        m = re.search(rf"'kc_{i}' depends on axioms: \[([^\]]*)\]", flat)
        if m:
            axioms[i] = [a.strip() for a in m.group(1).split(",") if a.strip()]
        elif re.search(rf"'kc_{i}' does not depend on any axioms", flat):
            axioms[i] = []
    return {"errors": errors, "axioms": axioms, "other": other}


def classify(msg: str) -> str:
    m = msg.lower()
    if "timeout" in m or "heartbeat" in m:
        return "timeout"
    if "maximum recursion depth" in m or "stack overflow" in m or "deep recursion" in m:
        return "resource"
    if "decide" in m and ("false" in m or "is false" in m or "did not reduce" in m or "failed" in m):
        return "refuted"
    return "error"


def check_candidates(cands: list[Candidate], timeout: float = 600.0) -> dict:
    """write Generated.lean for exactly these statements, run Lean, classify every statement"""
    t0 = time.time()
    res = {"statements": len(cands), "proved": 0, "failed": [], "timed_out": [], "errors": [], "axioms": {},
           "kinds": {}, "wall_s": 0.0, "file": GENERATED}
    for c in cands:
        res["kinds"][c.kind] = res["kinds"].get(c.kind, 0) + 1
    if not cands:
        return res
    rc, out, _ = _lake(["lake", "build", "ICG.KernelCheck.Basic"], max(60.0, timeout))
    if rc != 0:
        res["errors"].append({"what": "lake build ICG.KernelCheck.Basic failed", "log": out[-1500:]})
        res["wall_s"] = round(time.time() - t0, 2)
        return res
    text, spans = render(cands)
    (LEAN / "ICG" / "KernelCheck").mkdir(parents=True, exist_ok=True)
    (LEAN / GENERATED).write_text(text)
    rc, out, wall_to = _lake(["lake", "env", "lean", GENERATED], timeout)
    po = parse_output(out, spans, len(cands))
    bad_ax = []
    for i, c in enumerate(cands):
        if i in po["errors"]:
            msg = po["errors"][i]
            cls = classify(msg)
            entry = {"statement": f"kc_{i}", "kind": c.kind, "n": c.n, "verdict": cls, "lean_error": msg[:1200],
                     "source": c.source[-6:], "lean": c.theorem(i)[:3000]}
            (res["timed_out"] if cls == "timeout" else res["failed"]).append(entry)
        elif i in po["axioms"]:
            ax = po["axioms"][i]
            if set(ax) <= STD_AXIOMS:
                res["proved"] += 1
            else:
                bad_ax.append(i)
                res["failed"].append({"statement": f"kc_{i}", "kind": c.kind, "n": c.n, "verdict": "axioms",
                                      "lean_error": f"depends on {ax}", "source": c.source[-6:]})
        else:
            # neither an error nor its `#print axioms` line: Lean was stopped (wall clock) before it got there
            res["timed_out"].append({"statement": f"kc_{i}", "kind": c.kind, "n": c.n, "verdict": "wall-clock",
                                     "lean_error": f"not finished within {timeout} s", "source": c.source[-6:]})
    res["axioms"] = {f"kc_{i}": po["axioms"][i] for i in sorted(po["axioms"])[:5]}
    res["axioms_union"] = sorted({a for v in po["axioms"].values() for a in v})
    if po["other"]:
        res["errors"].append({"what": "Lean messages outside the statements", "log": "\n".join(po["other"])[:1500]})
    if rc not in (0, 1) and not wall_to:
        res["errors"].append({"what": f"lean exited with {rc}", "log": out[-1500:]})
    res["refuted"] = sum(1 for f in res["failed"] if f["verdict"] == "refuted")
    res["failed"] = res["failed"][:5]
    res["timed_out"] = res["timed_out"][:5]
    res["wall_s"] = round(time.time() - t0, 2)
    return res


def check(batches, max_statements: int = 40, timeout: float = 600.0) -> dict:
    """Sample ≤ `max_statements` statements from the batches and have the kernel decide them."""
    cands = candidates_from_batches(batches)
    sel = select(cands, max_statements)
    res = check_candidates(sel, timeout)
    res["candidates"] = len(cands)
    return res
